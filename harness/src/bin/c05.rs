//! C05 — check is sound and complete with respect to restorability.
//!
//! One case line = one history:
//!   `<seed> <scenario> <steps> <datapack> <treepack> <max_faults> <dump>`
//! The harness builds a repository by a seeded history of backup / forget / prune on an
//! in-memory store, restores every snapshot once (the reference), then for EVERY stored file
//! except `config` and every fault kind applies the fault to a CLONE of the store, runs the real
//! `check(read_data = true)` and the real restore of every snapshot still listed, and compares the
//! restored trees byte for byte with the reference.  Output: one `H ...` line for the history,
//! one `F ...` line per fault (optionally followed by a `D ...` line: the damaged store in the
//! vocabulary of props/C05/coq/Model.v), one `E` line at the end.
use std::collections::{BTreeMap, BTreeSet};
use std::io::Write as _;
use std::panic::{AssertUnwindSafe, catch_unwind};
use std::path::{Path, PathBuf};
use std::sync::{Arc, RwLock};

use anyhow::{Result, anyhow};
use bytes::Bytes;
use rustic_core::repofile::{IndexFile, MasterKey, SnapshotFile, Tree};
use rustic_core::verif_hooks::c05 as hook;
use rustic_core::{
    BytesList, CheckOptions, ErrorKind, FileType, Id, LimitOption, PruneOptions, ReadBackend,
    RestoreOptions, RusticError, RusticResult, WriteBackend,
};
use sha2::{Digest, Sha256};
use verif_harness::e2e::*;
use verif_harness::{SplitMix, Toks};

// ------------------------------------------------------------------ store

type Key = (u8, Id);
fn tidx(t: FileType) -> u8 {
    match t {
        FileType::Config => 0,
        FileType::Index => 1,
        FileType::Key => 2,
        FileType::Snapshot => 3,
        FileType::Pack => 4,
    }
}
const TYPES: [FileType; 4] = [FileType::Key, FileType::Snapshot, FileType::Index, FileType::Pack];

/// A map store that answers like a real backend: missing file / short read = error (no panic).
#[derive(Debug, Default)]
struct Store {
    map: RwLock<BTreeMap<Key, Bytes>>,
    /// the index file that arrives last (`stream_all` yields index files "in arbitrary order"): it is
    /// listed last and reading it takes a while; among several entries of one blob the lookup of an
    /// index answers depending on that order
    last_index: RwLock<Option<Id>>,
}
impl Store {
    fn snapshot(&self) -> BTreeMap<Key, Bytes> {
        self.map.read().unwrap().clone()
    }
    fn from_map(m: BTreeMap<Key, Bytes>) -> Arc<Self> {
        Arc::new(Self { map: RwLock::new(m), last_index: RwLock::new(None) })
    }
    fn set_last_index(&self, id: Option<Id>) {
        *self.last_index.write().unwrap() = id;
    }
    fn is_last(&self, tpe: FileType, id: &Id) -> bool {
        tpe == FileType::Index && self.last_index.read().unwrap().as_ref() == Some(id)
    }
    fn err(what: &str, tpe: FileType, id: &Id) -> Box<RusticError> {
        RusticError::new(ErrorKind::Backend, format!("store: {what} {tpe:?} {id}"))
    }
}
impl ReadBackend for Store {
    fn location(&self) -> String {
        "c05-store".into()
    }
    fn list_with_size(&self, tpe: FileType) -> RusticResult<Vec<(Id, u32)>> {
        let t = tidx(tpe);
        let mut l: Vec<(Id, u32)> = self.map.read().unwrap().iter().filter(|((x, _), _)| *x == t).map(|((_, id), b)| (*id, b.len() as u32)).collect();
        l.sort_by_key(|(id, _)| self.is_last(tpe, id));
        Ok(l)
    }
    fn read_full(&self, tpe: FileType, id: &Id) -> RusticResult<Bytes> {
        if self.is_last(tpe, id) {
            std::thread::sleep(std::time::Duration::from_millis(150));
        }
        self.map.read().unwrap().get(&(tidx(tpe), *id)).cloned().ok_or_else(|| Self::err("no such file", tpe, id))
    }
    fn read_partial(&self, tpe: FileType, id: &Id, _c: bool, offset: u32, length: u32) -> RusticResult<Bytes> {
        let m = self.map.read().unwrap();
        let b = m.get(&(tidx(tpe), *id)).ok_or_else(|| Self::err("no such file", tpe, id))?;
        let (o, l) = (offset as usize, length as usize);
        if o.checked_add(l).is_none_or(|e| e > b.len()) {
            return Err(Self::err("short read", tpe, id));
        }
        Ok(b.slice(o..o + l))
    }
    fn warmup_path(&self, _tpe: FileType, id: &Id) -> String {
        id.to_hex().to_string()
    }
}
impl WriteBackend for Store {
    fn create(&self) -> RusticResult<()> {
        Ok(())
    }
    fn write_bytes(&self, tpe: FileType, id: &Id, _c: bool, content: BytesList) -> RusticResult<()> {
        let mut v = Vec::new();
        for s in content.slice() {
            v.extend_from_slice(s);
        }
        let _ = self.map.write().unwrap().insert((tidx(tpe), *id), v.into());
        Ok(())
    }
    fn remove(&self, tpe: FileType, id: &Id, _c: bool) -> RusticResult<()> {
        self.map.write().unwrap().remove(&(tidx(tpe), *id)).map(|_| ()).ok_or_else(|| Self::err("remove: no such file", tpe, id))
    }
}

// ------------------------------------------------------------------ history

struct Hist {
    store: Arc<Store>,
    key: MasterKey,
    log: Vec<String>,
}

fn fixed_tree(r: &mut SplitMix, nfiles: usize, flat: bool) -> Vec<Entry> {
    // names and sizes fixed, content seeded: the serialised trees of two variants have equal length
    let mut v = Vec::new();
    if !flat {
        v.push(Entry { path: "d".into(), kind: Kind::Dir, mode: 0o755, mtime: (1_600_000_000, 0) });
    }
    for i in 0..nfiles {
        let p: PathBuf = if flat || i % 2 == 0 { format!("f{i}").into() } else { format!("d/f{i}").into() };
        v.push(Entry { path: p, kind: Kind::File(Content::Random { seed: r.next(), len: 3000 + 500 * i }), mode: 0o644, mtime: (1_600_000_000, 0) });
    }
    v
}

fn mutate(r: &mut SplitMix, entries: &mut Vec<Entry>, step: usize, tp: &TreeParams) {
    // rewrite some files, drop some, add a new seeded subtree
    let n = entries.len();
    for _ in 0..(1 + n / 6) {
        let i = r.below(n as u64) as usize;
        if let Kind::File(c) = &mut entries[i].kind {
            let len = match r.below(3) { 0 => r.below(64) as usize, _ => r.below(tp.max_file as u64) as usize };
            *c = Content::Random { seed: r.next(), len };
        }
    }
    if r.below(3) == 0 && n > 4 {
        // remove one plain file that nothing hard-links to
        let i = r.below(n as u64) as usize;
        let p = entries[i].path.clone();
        let linked = entries.iter().any(|e| matches!(&e.kind, Kind::Hardlink(t) if *t == p));
        if matches!(entries[i].kind, Kind::File(_)) && !linked {
            let _ = entries.remove(i);
        }
    }
    let sub = gen_tree(r, &TreeParams { max_entries: 4, ..tp.clone() });
    let base = PathBuf::from(format!("n{step}"));
    entries.push(Entry { path: base.clone(), kind: Kind::Dir, mode: 0o755, mtime: (1_600_000_000 + step as i64, 0) });
    for mut e in sub {
        e.path = base.join(&e.path);
        if let Kind::Hardlink(t) = &e.kind {
            e.kind = Kind::Hardlink(base.join(t));
        }
        entries.push(e);
    }
}

fn rewrite_dir(dir: &Path, entries: &[Entry]) -> Result<()> {
    if dir.exists() {
        std::fs::remove_dir_all(dir)?;
    }
    materialize(dir, entries)
}

fn prune(repo: &RepoOpen, r: &mut SplitMix, log: &mut Vec<String>) -> Result<()> {
    let mut o = PruneOptions::default();
    o.keep_delete = rustic_core::jiff::Span::new();
    o.instant_delete = r.below(2) == 0;
    o.max_unused = if r.below(2) == 0 { LimitOption::Percentage(0) } else { LimitOption::Unlimited };
    o.max_repack = LimitOption::Unlimited;
    o.repack_cacheable_only = Some(false);
    let plan = repo.prune_plan(&o)?;
    repo.prune(&o, plan)?;
    log.push(format!("prune(instant={},max_unused={:?})", o.instant_delete, o.max_unused));
    Ok(())
}

/// scenario 0: random history; 1: equal-layout flat trees (root-only tree packs); 2: nested fixed trees;
/// 3: random history + a backup made with a stale index (duplicate blobs in two packs);
/// 6: as 3 with `steps` = 1: two clients, one stale, nothing else (the fault sweep then tries every index arrival order);
/// 7: snapshots with delete marks (delete-after past / future, delete-never), none forgotten;
/// 4: forget + marking prune with repack (needed blobs also in packs_to_delete); 5: disjoint backups, first forgotten, no prune
fn build_history(seed: u64, scenario: u64, steps: usize, datapack: u32, treepack: u32, work: &Path) -> Result<Hist> {
    let mut r = SplitMix(seed ^ 0xC05);
    let store = Arc::new(Store::default());
    let (repo, key) = init_repo(store.clone(), None, &small_pack_config(datapack, treepack), &repo_opts())?;
    let mut repo = repo;
    let src = work.join("src");
    let mut log = Vec::new();
    let tp = TreeParams { max_entries: 10, max_depth: 3, max_file: 9000, odd_names: false, symlinks: true, hardlinks: true };
    let mut nsnap = 0usize;
    match scenario {
        1 | 2 => {
            for k in 0..steps.max(2) {
                let mut rr = SplitMix(seed.wrapping_mul(31).wrapping_add(k as u64));
                let e = fixed_tree(&mut rr, 3, scenario == 1);
                rewrite_dir(&src, &e)?;
                let (rp, _s) = backup_dir(repo, &src, "src", None)?;
                repo = rp;
                nsnap += 1;
                log.push("backup".into());
            }
        }
        4 => {
            // backup {keep.., drop..}; backup {keep..}; forget the first; prune WITHOUT instant delete and with the
            // default keep-delete: the partly used packs are repacked and the old ones only MARKED
            // (packs_to_delete), so the kept blobs live in a new pack and, as a copy, in a marked pack
            let nk = 1 + r.below(2) as usize;
            let nd = 1 + r.below(2) as usize;
            let mut e = Vec::new();
            for i in 0..nk + nd {
                let name = if i < nk { format!("keep{i}") } else { format!("drop{i}") };
                e.push(Entry { path: name.into(), kind: Kind::File(Content::Random { seed: r.next(), len: 1500 + r.below(3000) as usize }), mode: 0o644, mtime: (1_600_000_000, 0) });
            }
            if steps > 3 {
                e.push(Entry { path: "d".into(), kind: Kind::Dir, mode: 0o755, mtime: (1_600_000_000, 0) });
                e.push(Entry { path: "d/inner".into(), kind: Kind::File(Content::Random { seed: r.next(), len: 2000 }), mode: 0o644, mtime: (1_600_000_000, 0) });
            }
            rewrite_dir(&src, &e)?;
            let (rp, s1) = backup_dir(repo, &src, "src", None)?;
            repo = rp;
            e.retain(|x| !x.path.to_string_lossy().starts_with("drop"));
            rewrite_dir(&src, &e)?;
            let (rp, _s2) = backup_dir(repo, &src, "src", None)?;
            repo = rp;
            repo.delete_snapshots(&[s1.id])?;
            let mut o = PruneOptions::default(); // keep_delete 23h, instant_delete false
            o.max_unused = LimitOption::Percentage(0);
            o.max_repack = LimitOption::Unlimited;
            o.repack_cacheable_only = Some(false);
            let plan = repo.prune_plan(&o)?;
            repo.prune(&o, plan)?;
            log.extend(["backup".to_string(), "backup".into(), "forget".into(), "prune(marking,keep-delete=23h,max_unused=0)".into()]);
            if steps > 4 {
                e.push(Entry { path: "later".into(), kind: Kind::File(Content::Random { seed: r.next(), len: 2500 }), mode: 0o644, mtime: (1_600_000_100, 0) });
                rewrite_dir(&src, &e)?;
                let (rp, _s3) = backup_dir(repo, &src, "src", None)?;
                repo = rp;
                log.push("backup".into());
            }
        }
        7 => {
            // snapshots with delete marks, none forgotten: delete-after in the past (expired, still in the
            // repository and restorable), delete-after in the future, delete-never, unmarked; disjoint data
            use rustic_core::repofile::DeleteOption;
            let now = rustic_core::jiff::Zoned::now();
            let past = now.checked_sub(rustic_core::jiff::Span::new().hours(48)).map_err(|e| anyhow!("{e}"))?;
            let future = now.checked_add(rustic_core::jiff::Span::new().hours(48)).map_err(|e| anyhow!("{e}"))?;
            let mut marks = vec![("delete-after-past", DeleteOption::After(past)), ("delete-after-future", DeleteOption::After(future)),
                                 ("delete-never", DeleteOption::Never), ("unmarked", DeleteOption::NotSet)];
            // seeded order, the expired one anywhere
            for i in (1..marks.len()).rev() {
                let j = r.below(i as u64 + 1) as usize;
                marks.swap(i, j);
            }
            marks.truncate(steps.clamp(2, 4));
            if !marks.iter().any(|m| m.0 == "delete-after-past") {
                marks[0] = ("delete-after-past", DeleteOption::After(now.checked_sub(rustic_core::jiff::Span::new().hours(30)).map_err(|e| anyhow!("{e}"))?));
            }
            for (k, (name, mark)) in marks.into_iter().enumerate() {
                let mut e = vec![Entry { path: format!("s{k}dir").into(), kind: Kind::Dir, mode: 0o755, mtime: (1_600_000_000, 7) }];
                let n = 2 + r.below(2) as usize;
                for i in 0..n {
                    let pth: PathBuf = if i % 2 == 0 { format!("s{k}f{i}").into() } else { format!("s{k}dir/s{k}f{i}").into() };
                    e.push(Entry { path: pth, kind: Kind::File(Content::Random { seed: r.next(), len: 1000 + r.below(4000) as usize }), mode: 0o644, mtime: (1_600_000_000, 0) });
                }
                rewrite_dir(&src, &e)?;
                let ix = repo.to_indexed_ids()?;
                let opts = rustic_core::BackupOptions::default().as_path(PathBuf::from("src"));
                let mut snap = SnapshotFile::default();
                snap.delete = mark;
                let _ = ix.backup(&opts, &rustic_core::PathList::from_iter(Some(src.clone())), snap)?;
                repo = ix.drop_index();
                nsnap += 1;
                log.push(format!("backup({name})"));
            }
        }
        5 => {
            // backup A; backup B (disjoint data); forget A; no prune: the index file of the first
            // backup lists nothing the remaining snapshot needs
            let mk = |r: &mut SplitMix, tag: &str, n: usize| -> Vec<Entry> {
                let mut v = vec![Entry { path: format!("{tag}dir").into(), kind: Kind::Dir, mode: 0o755, mtime: (1_600_000_000, 7) }];
                for i in 0..n {
                    let p: PathBuf = if i % 2 == 0 { format!("{tag}{i}").into() } else { format!("{tag}dir/{tag}{i}").into() };
                    v.push(Entry { path: p, kind: Kind::File(Content::Random { seed: r.next(), len: 1000 + r.below(4000) as usize }), mode: 0o644, mtime: (1_600_000_000, 0) });
                }
                v
            };
            let na = 2 + r.below(2) as usize;
            let a = mk(&mut r, "a", na);
            rewrite_dir(&src, &a)?;
            let (rp, s1) = backup_dir(repo, &src, "src", None)?;
            repo = rp;
            for k in 0..steps.saturating_sub(2).max(1) {
                let nb = 2 + r.below(2) as usize;
                let b = mk(&mut r, &format!("b{k}"), nb);
                rewrite_dir(&src, &b)?;
                let (rp, _s) = backup_dir(repo, &src, "src", None)?;
                repo = rp;
                log.push("backup".into());
            }
            repo.delete_snapshots(&[s1.id])?;
            log.insert(0, "backup".into());
            log.push("forget-first".into());
        }
        _ => {
            let mut entries = gen_tree(&mut r, &tp);
            let mut step = 0usize;
            while step < steps || nsnap < 2 {
                step += 1;
                let k = if nsnap < 2 { 0 } else { r.below(10) };
                if k < 6 {
                    if nsnap > 0 {
                        mutate(&mut r, &mut entries, step, &tp);
                    }
                    rewrite_dir(&src, &entries)?;
                    if (scenario == 3 || scenario == 6) && nsnap == 0 {
                        // a second client whose index was loaded before this backup is written
                        // re-uploads every blob afterwards: each (type, id) then lives in two packs
                        let stale = open_repo(store.clone(), None, &key, &repo_opts())?.to_indexed_ids()?;
                        let (rp, _s) = backup_dir(repo, &src, "src", None)?;
                        repo = rp;
                        let opts = rustic_core::BackupOptions::default().as_path(PathBuf::from("src"));
                        let _ = stale.backup(&opts, &rustic_core::PathList::from_iter(Some(src.clone())), SnapshotFile::default())?;
                        nsnap += 2;
                        log.push("backup".into());
                        log.push("stale-backup".into());
                        continue;
                    }
                    let (rp, _s) = backup_dir(repo, &src, "src", None)?;
                    repo = rp;
                    nsnap += 1;
                    log.push("backup".into());
                } else if k < 8 {
                    let snaps = repo.get_all_snapshots()?;
                    if snaps.len() > 2 {
                        let s = &snaps[r.below(snaps.len() as u64) as usize];
                        repo.delete_snapshots(&[s.id])?;
                        nsnap -= 1;
                        log.push("forget".into());
                    }
                } else {
                    prune(&repo, &mut r, &mut log)?;
                }
                if step > steps + 6 {
                    break;
                }
            }
        }
    }
    drop(repo);
    Ok(Hist { store, key, log })
}

// ------------------------------------------------------------------ faults

#[derive(Clone, Debug)]
enum Fault {
    Remove,
    Truncate(usize, &'static str),
    Flip(usize, &'static str),
    /// exchange the contents of the file and of a sibling
    Swap(Id, &'static str),
    /// overwrite the file's content with a sibling's (the sibling stays)
    Replace(Id, &'static str),
    /// index file edits: (pack position, blob position)
    IdxDupBlob(usize, usize, &'static str),
    IdxDropBlob(usize, usize, &'static str),
    IdxDupPack(usize, &'static str),
    IdxDropPack(usize, &'static str),
}
impl Fault {
    fn kind(&self) -> &'static str {
        match self {
            Self::Remove => "remove",
            Self::Truncate(..) => "truncate",
            Self::Flip(..) => "flip",
            Self::Swap(..) => "swap",
            Self::Replace(..) => "replace",
            Self::IdxDupBlob(..) => "idx-dup-blob",
            Self::IdxDropBlob(..) => "idx-drop-blob",
            Self::IdxDupPack(..) => "idx-dup-pack",
            Self::IdxDropPack(..) => "idx-drop-pack",
        }
    }
    fn detail(&self) -> String {
        match self {
            Self::Remove => "-".into(),
            Self::Truncate(n, c) => format!("{c}@{n}"),
            Self::Flip(n, c) => format!("{c}@{n}"),
            Self::Swap(id, c) | Self::Replace(id, c) => format!("{c}:{}", &id.to_hex().as_str()[..8]),
            // section = live|marked x data|tree listing of the index file
            Self::IdxDupBlob(p, b, c) | Self::IdxDropBlob(p, b, c) => format!("{c}:p{p}b{b}"),
            Self::IdxDupPack(p, c) | Self::IdxDropPack(p, c) => format!("{c}:p{p}"),
        }
    }
}

/// what is known about the undamaged repository (used to aim the faults and to describe files)
struct Layout {
    /// pack id -> (is tree pack, blobs (offset, length) sorted, referenced only by snapshot roots, unreferenced)
    packs: BTreeMap<Id, PackInfo>,
    /// index file -> per pack entry (packs then packs_to_delete): (number of blobs, marked, tree pack)
    index: BTreeMap<Id, Vec<(usize, bool, bool)>>,
    /// index file -> needed | unneeded | marked-only
    index_class: BTreeMap<Id, &'static str>,
}
#[derive(Clone, Debug, Default)]
struct PackInfo {
    tree: bool,
    blobs: Vec<(u32, u32)>,
    class: &'static str,
}

fn pos_list(n: usize, it: impl IntoIterator<Item = (i64, &'static str)>) -> Vec<(usize, &'static str)> {
    let mut seen = BTreeSet::new();
    let mut v = Vec::new();
    for (p, c) in it {
        if p >= 0 && (p as usize) < n && seen.insert(p) {
            v.push((p as usize, c));
        }
    }
    v
}

fn faults_for(tpe: FileType, id: &Id, len: usize, all: &BTreeMap<Key, Bytes>, lay: &Layout) -> Vec<Fault> {
    let n = len as i64;
    let mut f = vec![Fault::Remove];
    let mut trunc: Vec<(i64, &'static str)> = vec![(0, "zero"), (1, "one"), (15, "in-nonce"), (16, "nonce-only"), (31, "lt-overhead"), (32, "overhead-only"), (n / 2, "mid"), (n - 17, "in-mac-1"), (n - 16, "no-mac"), (n - 1, "len-1")];
    let mut flip: Vec<(i64, &'static str)> = vec![(0, "nonce"), (15, "nonce-end"), (16, "body-first"), (n / 2, "body-mid"), (n - 17, "body-last"), (n - 16, "mac-first"), (n - 1, "mac-last")];
    if tpe == FileType::Pack {
        trunc = vec![(0, "zero"), (1, "one"), (n / 2, "mid"), (n - 1, "len-1"), (n - 4, "no-trailer"), (n - 2, "in-trailer")];
        flip = vec![(n - 1, "trailer-3"), (n - 2, "trailer-2"), (n - 3, "trailer-1"), (n - 4, "trailer-0")];
        if let Some(pi) = lay.packs.get(id) {
            let end = pi.blobs.last().map_or(0, |(o, l)| i64::from(*o) + i64::from(*l));
            // header = [end, n-4)
            trunc.push((end, "no-header"));
            trunc.push((end + (n - 4 - end) / 2, "in-header"));
            flip.push((end, "header-nonce"));
            flip.push((end + 16, "header-body"));
            flip.push(((end + n - 4) / 2, "header-mid"));
            flip.push((n - 5, "header-mac"));
            let k = pi.blobs.len();
            let pick: BTreeSet<usize> = [0, k / 2, k.saturating_sub(1)].into_iter().filter(|i| *i < k).collect();
            for i in pick {
                let (o, l) = (i64::from(pi.blobs[i].0), i64::from(pi.blobs[i].1));
                flip.push((o, "blob-nonce"));
                flip.push((o + 16, "blob-body"));
                flip.push((o + l / 2, "blob-mid"));
                flip.push((o + l - 1, "blob-mac"));
                trunc.push((o + l, "blob-boundary"));
                trunc.push((o + l / 2, "in-blob"));
            }
        }
    }
    for (p, c) in pos_list(len, trunc) {
        f.push(Fault::Truncate(p, c));
    }
    for (p, c) in pos_list(len, flip) {
        f.push(Fault::Flip(p, c));
    }
    // siblings of the same type
    let t = tidx(tpe);
    let sibs: Vec<(&Id, usize)> = all.iter().filter(|((x, i), _)| *x == t && i != id).map(|((_, i), b)| (i, b.len())).collect();
    if !sibs.is_empty() {
        // the next sibling in id order (cyclic)
        let next = sibs.iter().find(|(i, _)| *i > id).or(sibs.first()).unwrap();
        f.push(Fault::Swap(*next.0, "next"));
        f.push(Fault::Replace(*next.0, "next"));
        // a sibling of the same size, preferring the same blob type and layout
        if tpe == FileType::Pack {
            let me = lay.packs.get(id);
            let mut best: Option<(&Id, &'static str)> = None;
            for (i, l) in &sibs {
                if *l != len {
                    continue;
                }
                let other = lay.packs.get(*i);
                let same_layout = me.is_some() && other.is_some() && me.unwrap().tree == other.unwrap().tree && me.unwrap().blobs == other.unwrap().blobs;
                if same_layout {
                    best = Some((*i, "same-layout"));
                    break;
                }
                if best.is_none() {
                    best = Some((*i, "same-size"));
                }
            }
            if let Some((i, c)) = best {
                f.push(Fault::Swap(*i, c));
                f.push(Fault::Replace(*i, c));
            }
        } else if let Some((i, _)) = sibs.iter().find(|(i, l)| *l == len && *i != next.0) {
            f.push(Fault::Replace(**i, "same-size"));
        }
    }
    if tpe == FileType::Index {
        if let Some(packs) = lay.index.get(id) {
            let np = packs.len();
            let sec = |e: &(usize, bool, bool)| match (e.1, e.2) {
                (false, false) => "live-data",
                (false, true) => "live-tree",
                (true, false) => "marked-data",
                (true, true) => "marked-tree",
            };
            // every pack entry of a small index file; of a large one first / middle / last and the
            // first entry of each section (unmarked and marked listing, data and tree packs)
            let mut pp: BTreeSet<usize> = if np <= 12 { (0..np).collect() } else { [0, np / 2, np - 1].into_iter().collect() };
            for s in ["live-data", "live-tree", "marked-data", "marked-tree"] {
                if let Some(i) = packs.iter().position(|e| sec(e) == s) {
                    let _ = pp.insert(i);
                }
            }
            for p in pp {
                let c = sec(&packs[p]);
                f.push(Fault::IdxDupPack(p, c));
                f.push(Fault::IdxDropPack(p, c));
                let nb = packs[p].0;
                let bb: BTreeSet<usize> = [0, nb / 2, nb.saturating_sub(1)].into_iter().filter(|i| *i < nb).collect();
                for b in bb {
                    f.push(Fault::IdxDupBlob(p, b, c));
                    f.push(Fault::IdxDropBlob(p, b, c));
                }
            }
        }
    }
    f
}

fn apply_fault(m: &mut BTreeMap<Key, Bytes>, key: &MasterKey, tpe: FileType, id: &Id, f: &Fault) -> Result<()> {
    let k = (tidx(tpe), *id);
    match f {
        Fault::Remove => {
            let _ = m.remove(&k);
        }
        Fault::Truncate(n, _) => {
            let b = m[&k].slice(..*n);
            let _ = m.insert(k, b);
        }
        Fault::Flip(p, _) => {
            let mut v = m[&k].to_vec();
            v[*p] ^= 1 << (*p % 8);
            let _ = m.insert(k, v.into());
        }
        Fault::Swap(o, _) => {
            let ko = (tidx(tpe), *o);
            let (a, b) = (m[&k].clone(), m[&ko].clone());
            let _ = m.insert(k, b);
            let _ = m.insert(ko, a);
        }
        Fault::Replace(o, _) => {
            let b = m[&(tidx(tpe), *o)].clone();
            let _ = m.insert(k, b);
        }
        Fault::IdxDupBlob(..) | Fault::IdxDropBlob(..) | Fault::IdxDupPack(..) | Fault::IdxDropPack(..) => {
            // decode the index file, edit, re-encrypt under a new name, delete the old file
            let st = Store::from_map(std::mem::take(m));
            let repo = open_repo(st.clone(), None, key, &repo_opts())?;
            let mut ix: IndexFile = repo.get_file(&rustic_core::repofile::IndexId::from(*id))?;
            let npk = ix.packs.len();
            match f {
                Fault::IdxDupBlob(p, b, _) => {
                    let (list, p) = if *p < npk { (&mut ix.packs, *p) } else { (&mut ix.packs_to_delete, *p - npk) };
                    let e = list[p].blobs[*b];
                    list[p].blobs.push(e);
                }
                Fault::IdxDropBlob(p, b, _) => {
                    let (list, p) = if *p < npk { (&mut ix.packs, *p) } else { (&mut ix.packs_to_delete, *p - npk) };
                    let _ = list[p].blobs.remove(*b);
                }
                Fault::IdxDupPack(p, _) => {
                    let (list, p) = if *p < npk { (&mut ix.packs, *p) } else { (&mut ix.packs_to_delete, *p - npk) };
                    let e = list[p].clone();
                    list.push(e);
                }
                Fault::IdxDropPack(p, _) => {
                    let (list, p) = if *p < npk { (&mut ix.packs, *p) } else { (&mut ix.packs_to_delete, *p - npk) };
                    let _ = list.remove(p);
                }
                _ => unreachable!(),
            }
            let _new = hook::save_index(&repo, &ix)?;
            drop(repo);
            *m = st.snapshot();
            let _ = m.remove(&k);
        }
    }
    Ok(())
}

// ------------------------------------------------------------------ observation

fn quiet<T>(f: impl FnOnce() -> T) -> std::thread::Result<T> {
    catch_unwind(AssertUnwindSafe(f))
}

/// (verdict, error kinds): verdict = clean | errors | failed (check returned Err) | panic
fn run_check(store: Arc<Store>, key: &MasterKey) -> (String, Vec<String>) {
    run_check_opts(store, key, CheckOptions::default().read_data(true))
}

/// "reports no error" is the property's notion: `CheckResults::is_ok()` (findings of level Error;
/// warnings do not count), a check that returns Err or panics counts as reporting.
fn run_check_opts(store: Arc<Store>, key: &MasterKey, opts: CheckOptions) -> (String, Vec<String>) {
    let r = quiet(|| -> Result<(bool, Vec<String>)> {
        let repo = open_repo(store, None, key, &repo_opts())?;
        let res = repo.check(opts)?;
        let mut kinds = BTreeSet::new();
        for (lvl, e) in &res.0 {
            let d = format!("{e:?}");
            let name = d.split(|c: char| !c.is_alphanumeric()).next().unwrap_or("?").to_string();
            let _ = kinds.insert(format!("{}{}", if format!("{lvl:?}") == "Error" { "" } else { "w:" }, name));
        }
        Ok((res.is_ok().is_ok(), kinds.into_iter().collect()))
    });
    match r {
        Ok(Ok((true, k))) => ("clean".into(), k),
        Ok(Ok((false, k))) => ("errors".into(), k),
        Ok(Err(_)) => ("failed".into(), vec![]),
        Err(_) => ("panic".into(), vec![]),
    }
}

/// restore one snapshot into `dest`; "ok" or the way it failed
fn run_restore(store: Arc<Store>, key: &MasterKey, snap: &str, dest: &Path) -> String {
    let r = quiet(|| -> Result<()> {
        let repo = open_repo(store, None, key, &repo_opts())?;
        let _ = restore_to(repo, snap, dest, RestoreOptions::default())?;
        Ok(())
    });
    match r {
        Ok(Ok(())) => "ok".into(),
        Ok(Err(_)) => "error".into(),
        Err(_) => "panic".into(),
    }
}

fn layout(store: &Arc<Store>, key: &MasterKey) -> Result<(Layout, Vec<SnapshotFile>)> {
    let repo = open_repo(store.clone(), None, key, &repo_opts())?;
    let snaps = repo.get_all_snapshots()?;
    let mut lay = Layout { packs: BTreeMap::new(), index: BTreeMap::new(), index_class: BTreeMap::new() };
    let mut live_of: BTreeMap<Id, Vec<Id>> = BTreeMap::new();
    let mut blob_pack: BTreeMap<(bool, Id), Id> = BTreeMap::new();
    for (iid, _) in store.list_with_size(FileType::Index)? {
        let ix: IndexFile = repo.get_file(&rustic_core::repofile::IndexId::from(iid))?;
        let mut counts = Vec::new();
        for (k, p) in ix.packs.iter().chain(ix.packs_to_delete.iter()).enumerate() {
            let marked = k >= ix.packs.len();
            let mut fb: Vec<hook::FlatBlob> = p.blobs.iter().map(hook::flat).collect();
            fb.sort_by_key(|b| b.offset);
            let tree = fb.first().is_some_and(|b| b.tree);
            counts.push((p.blobs.len(), marked, tree));
            if !marked {
                // only the unmarked listing is what backup/restore look blobs up in
                for b in &fb {
                    let _ = blob_pack.insert((b.tree, b.id), *p.id);
                }
                live_of.entry(iid).or_default().push(*p.id);
            }
            if !marked || !lay.packs.contains_key(&*p.id) {
                let _ = lay.packs.insert(*p.id, PackInfo { tree, blobs: fb.iter().map(|b| (b.offset, b.length)).collect(), class: if marked { "marked" } else { "unreferenced" } });
            }
        }
        let _ = lay.index.insert(iid, counts);
    }
    // classify packs: referenced below a root / only by snapshot roots / unreferenced
    let repo = repo.to_indexed()?;
    let mut seen = BTreeSet::new();
    let mut todo: Vec<(Id, bool)> = snaps.iter().map(|s| (*s.tree, true)).collect();
    while let Some((t, root)) = todo.pop() {
        if let Some(p) = blob_pack.get(&(true, t)) {
            if let Some(pi) = lay.packs.get_mut(p) {
                pi.class = if root && pi.class != "referenced" { "root-only" } else { "referenced" };
            }
        }
        if !seen.insert(t) {
            continue;
        }
        let Ok(data) = repo.get_blob_cached(&rustic_core::BlobId::from(t), rustic_core::repofile::BlobType::Tree) else { continue };
        let Ok(tree) = serde_json::from_slice::<Tree>(&data) else { continue };
        for n in tree.nodes {
            if let Some(s) = n.subtree {
                todo.push((*s, false));
            }
            for c in n.content.iter().flatten() {
                if let Some(p) = blob_pack.get(&(false, **c)) {
                    if let Some(pi) = lay.packs.get_mut(p) {
                        pi.class = "referenced";
                    }
                }
            }
        }
    }
    for iid in lay.index.keys() {
        let live = live_of.get(iid).cloned().unwrap_or_default();
        let cls = if live.is_empty() {
            "marked-only"
        } else if live.iter().any(|p| lay.packs.get(p).is_some_and(|pi| pi.class == "referenced" || pi.class == "root-only")) {
            "needed"
        } else {
            "unneeded"
        };
        let _ = lay.index_class.insert(*iid, cls);
    }
    Ok((lay, snaps))
}

fn describe(tpe: FileType, id: &Id, lay: &Layout) -> String {
    match tpe {
        FileType::Pack => lay.packs.get(id).map_or("pack:unindexed".to_string(), |p| format!("pack:{}:{}", if p.tree { "tree" } else { "data" }, p.class)),
        FileType::Index => format!("index:{}", lay.index_class.get(id).copied().unwrap_or("?")),
        t => t.dirname().to_string(),
    }
}

fn run_history(line: &str, out: &mut impl std::io::Write) -> Result<()> {
    let mut t = Toks::new(line);
    let seed = t.u();
    let scenario = t.u();
    let steps = t.u() as usize;
    let datapack = t.u() as u32;
    let treepack = t.u() as u32;
    let max_faults = t.u() as usize;
    let dump = t.u() != 0;
    let only: Option<Vec<String>> = t.opt_s().map(|s| s.split(',').map(str::to_string).collect());
    let work = tempfile::tempdir()?;
    let h = build_history(seed, scenario, steps, datapack, treepack, work.path())?;
    let base_map = h.store.snapshot();
    let (lay, snaps) = layout(&h.store, &h.key)?;
    // the undamaged repository: check + reference restores
    let (v0, k0) = run_check(h.store.clone(), &h.key);
    let refdir = work.path().join("ref");
    let mut snap_ids = Vec::new();
    let mut base_ok = v0 == "clean";
    for s in &snaps {
        let hex = s.id.to_hex().to_string();
        let d = refdir.join(&hex);
        std::fs::create_dir_all(&d)?;
        if run_restore(h.store.clone(), &h.key, &hex, &d) != "ok" {
            base_ok = false;
        }
        snap_ids.push(hex);
    }
    let npacks = base_map.keys().filter(|k| k.0 == 4).count();
    let classes: BTreeMap<String, usize> = base_map.keys().filter(|k| k.0 == 4).fold(BTreeMap::new(), |mut m, k| {
        *m.entry(describe(FileType::Pack, &k.1, &lay)).or_default() += 1;
        m
    });
    writeln!(out, "H seed={seed} scenario={scenario} ops={} files={} packs={npacks} snaps={} base={} basekinds={} classes={}",
        h.log.join(","), base_map.len() - 1, snaps.len(), if base_ok { "ok" } else { "BAD" }, k0.join("+"),
        classes.iter().map(|(k, v)| format!("{k}={v}")).collect::<Vec<_>>().join(","))?;
    if dump {
        writeln!(out, "D {}", dump_state(&h.store, &h.key)?)?;
    }
    if !base_ok {
        writeln!(out, "E")?;
        return Ok(());
    }
    // enumerate
    let mut cases: Vec<(FileType, Id, Fault)> = Vec::new();
    for tpe in TYPES {
        for ((tt, id), b) in &base_map {
            if *tt != tidx(tpe) {
                continue;
            }
            for f in faults_for(tpe, id, b.len(), &base_map, &lay) {
                cases.push((tpe, *id, f));
            }
        }
    }
    if let Some(only) = &only {
        // file names are hashes of ciphertexts with fresh nonces, so a replay selects faults by class:
        // `<type dir>/<kind>/<detail class>` (all files of the type) or the exact `<dir>/<id8>/<kind>/<detail>`
        cases.retain(|(tpe, id, f)| {
            let d = f.detail();
            let cls = format!("{}/{}/{}", tpe.dirname(), f.kind(), d.split(['@', ':']).next().unwrap_or(""));
            let exact = format!("{}/{}/{}/{}", tpe.dirname(), &id.to_hex().as_str()[..8], f.kind(), d);
            only.iter().any(|o| *o == cls || *o == exact || {
                // an exact name from another run: match its class
                let p: Vec<&str> = o.split('/').collect();
                p.len() == 4 && format!("{}/{}/{}", p[0], p[2], p[3].split(['@', ':']).next().unwrap_or("")) == cls
            })
        });
    } else if max_faults > 0 && cases.len() > max_faults {
        // deterministic stratified thinning: keep every (file class, kind, detail class) at least once
        let mut r = SplitMix(seed ^ 0xFA017);
        let mut keep = vec![false; cases.len()];
        let mut seen = BTreeSet::new();
        for (i, (tpe, id, f)) in cases.iter().enumerate() {
            let cls = format!("{}/{}/{}", describe(*tpe, id, &lay), f.kind(), f.detail().split(['@', ':']).next().unwrap_or(""));
            if seen.insert(cls) {
                keep[i] = true;
            }
        }
        let mut have = keep.iter().filter(|k| **k).count();
        while have < max_faults {
            let i = r.below(cases.len() as u64) as usize;
            if !keep[i] {
                keep[i] = true;
                have += 1;
            }
        }
        let mut it = keep.into_iter();
        cases.retain(|_| it.next().unwrap());
    }
    let scratch = work.path().join("out");
    for (tpe, id, f) in cases {
        let mut m = base_map.clone();
        if let Err(e) = apply_fault(&mut m, &h.key, tpe, &id, &f) {
            writeln!(out, "F {}/{}/{}/{} file={} check=n/a restore=n/a note=fault-not-applicable:{}", tpe.dirname(), &id.to_hex().as_str()[..8], f.kind(), f.detail(), describe(tpe, &id, &lay), format!("{e}").replace(' ', "_").chars().take(60).collect::<String>())?;
            continue;
        }
        let st = Store::from_map(m);
        // index arrival orders to try: one run with the store's own order, or (two-client scenario, damage
        // inside a blob) one run per index file arriving last — for check and, independently, for restore
        let sweep = scenario == 6 && tpe == FileType::Pack && matches!(&f, Fault::Flip(_, c) if c.starts_with("blob-"));
        let orders: Vec<Option<Id>> = if sweep { st.list_with_size(FileType::Index)?.into_iter().map(|(i, _)| Some(i)).collect() } else { vec![None] };
        let (mut verdict, mut kinds) = (String::new(), Vec::new());
        for o in &orders {
            st.set_last_index(*o);
            let (v, k) = run_check(st.clone(), &h.key);
            // the property must hold for every order: keep a clean verdict if any order gives one
            if verdict.is_empty() || v == "clean" {
                verdict = v;
                kinds = k;
            }
        }
        let mut bad = Vec::new();
        let mut nrest = 0;
        let present: BTreeSet<String> = st.list_with_size(FileType::Snapshot)?.into_iter().map(|(i, _)| i.to_hex().to_string()).collect();
        for s in &snap_ids {
            if !present.contains(s) {
                continue;
            }
            nrest += 1;
            if scratch.exists() {
                std::fs::remove_dir_all(&scratch)?;
            }
            std::fs::create_dir_all(&scratch)?;
            let mut r = String::from("ok");
            for o in &orders {
                st.set_last_index(*o);
                if scratch.exists() {
                    std::fs::remove_dir_all(&scratch)?;
                }
                std::fs::create_dir_all(&scratch)?;
                r = run_restore(st.clone(), &h.key, s, &scratch);
                if r != "ok" {
                    break;
                }
            }
            st.set_last_index(None);
            if r != "ok" {
                bad.push(format!("{}:{r}", &s[..8]));
                continue;
            }
            // the top-level `src` directory is synthesised by as_path (its mtime is the restore time)
            let (ra, rb) = (refdir.join(s).join("src"), scratch.join("src"));
            let d = if ra.is_dir() && rb.is_dir() { compare_dirs(&ra, &rb, CmpOpts::default())? } else { vec!["top-level differs".to_string()] };
            if !d.is_empty() {
                if std::env::var("C05_DEBUG").is_ok() { eprintln!("diff {:?}", d); }
                bad.push(format!("{}:differs({})", &s[..8], d.len()));
            }
        }
        // a full read may be performed as the documented cycle IdSubSet((1,m)) .. IdSubSet((m,m)):
        // when the plain full check reports the damage and restore fails, some run of every cycle must report it
        let mut cycle = "-".to_string();
        let in_blob = matches!(&f, Fault::Flip(_, c) if c.starts_with("blob-")) || matches!(&f, Fault::Replace(_, c) if *c != "next");
        if tpe == FileType::Pack && in_blob && verdict != "clean" && !bad.is_empty() {
            let mut missed = Vec::new();
            for m in 1u32..=3 {
                let mut reported = false;
                for n in 1..=m {
                    let o = CheckOptions::default().read_data(true).read_data_subset(rustic_core::ReadSubsetOption::IdSubSet((n, m)));
                    if run_check_opts(st.clone(), &h.key, o).0 != "clean" {
                        reported = true;
                        break;
                    }
                }
                if !reported {
                    missed.push(m.to_string());
                }
            }
            // the budgeted selections that cover everything: 100 % and a size of at least the total;
            // several runs each, the shuffle is random
            for (name, o) in [("p100", rustic_core::ReadSubsetOption::Percentage(100.0)), ("size", rustic_core::ReadSubsetOption::Size(u64::from(u32::MAX) * 16))] {
                for _ in 0..3 {
                    let opts = CheckOptions::default().read_data(true).read_data_subset(o);
                    if run_check_opts(st.clone(), &h.key, opts).0 == "clean" {
                        missed.push(name.to_string());
                        break;
                    }
                }
            }
            cycle = if missed.is_empty() { "ok".to_string() } else { format!("missed:{}", missed.join("+")) };
        }
        writeln!(out, "F {}/{}/{}/{} file={} check={verdict} kinds={} restored={nrest} restore={} cycle={cycle} orders={}", tpe.dirname(), &id.to_hex().as_str()[..8], f.kind(), f.detail(),
            describe(tpe, &id, &lay), if kinds.is_empty() { "-".to_string() } else { kinds.join("+") }, if bad.is_empty() { "ok".to_string() } else { bad.join("+") }, orders.len())?;
        if dump {
            match quiet(|| dump_state(&st, &h.key)) {
                Ok(Ok(d)) => writeln!(out, "D {d}")?,
                _ => writeln!(out, "D unreadable")?,
            }
        }
        out.flush()?;
    }
    writeln!(out, "E")?;
    Ok(())
}

// ------------------------------------------------------------------ abstract state dump (Model.v vocabulary)

fn sha(b: &[u8]) -> Id {
    let d: [u8; 32] = Sha256::digest(b).into();
    Id::from_hex(&hex::encode(d)).unwrap()
}

struct Names {
    ids: BTreeMap<Id, u64>,
}
impl Names {
    fn n(&mut self, id: &Id) -> u64 {
        if id.is_null() {
            return 0;
        }
        let k = self.ids.len() as u64 + 1;
        *self.ids.entry(*id).or_insert(k)
    }
}

/// The store as an abstract repository state: token stream documented in props/C05/driver.ml.
fn dump_state(store: &Arc<Store>, key: &MasterKey) -> Result<String> {
    let repo = open_repo(store.clone(), None, key, &repo_opts())?;
    let mut nm = Names { ids: BTreeMap::new() };
    let mut o: Vec<String> = Vec::new();
    let mut meta_ok = true; // every snapshot file decrypts and parses
    let mut index_ok = true; // every index file decrypts and parses
    // index files
    let mut ixs: Vec<IndexFile> = Vec::new();
    for (iid, _) in store.list_with_size(FileType::Index)? {
        match repo.get_file::<IndexFile>(&rustic_core::repofile::IndexId::from(iid)) {
            Ok(ix) => ixs.push(ix),
            Err(_) => index_ok = false,
        }
    }
    let mut roots = Vec::new();
    let mut snap_names_ok = true;
    for (sid, _) in store.list_with_size(FileType::Snapshot)? {
        if store.read_full(FileType::Snapshot, &sid).is_ok_and(|d| sha(&d) != sid) {
            snap_names_ok = false;
        }
        match repo.get_file::<SnapshotFile>(&rustic_core::repofile::SnapshotId::from(sid)) {
            Ok(s) => roots.push(*s.tree),
            Err(_) => meta_ok = false,
        }
    }
    // contents seen (token = name of the sha256 of the plaintext): length and tree parse
    let mut blen: BTreeMap<u64, usize> = BTreeMap::new();
    let mut trees: BTreeMap<u64, Option<Vec<String>>> = BTreeMap::new();
    let mut content = |nm: &mut Names, plain: &[u8]| -> u64 {
        let tok = nm.n(&sha(plain));
        if !blen.contains_key(&tok) {
            let _ = blen.insert(tok, plain.len());
            let t = serde_json::from_slice::<Tree>(plain).ok().map(|t| {
                t.nodes.iter().map(|n| {
                    if n.is_file() {
                        match &n.content {
                            None => "1 0".to_string(),
                            Some(c) => format!("1 1 {} {}", c.len(), c.iter().map(|i| nm.n(i).to_string()).collect::<Vec<_>>().join(" ")),
                        }
                    } else if n.is_dir() {
                        match &n.subtree {
                            None => "2 0".to_string(),
                            Some(s) => format!("2 1 {}", nm.n(s)),
                        }
                    } else {
                        "0".to_string()
                    }
                }).collect::<Vec<_>>()
            });
            let _ = trees.insert(tok, t);
        }
        tok
    };
    // candidate ranges per pack
    let mut cand: BTreeMap<Id, BTreeSet<(u32, u32)>> = BTreeMap::new();
    let mut hcand: BTreeMap<Id, BTreeSet<u32>> = BTreeMap::new();
    for ix in &ixs {
        for p in ix.packs.iter().chain(ix.packs_to_delete.iter()) {
            let c = cand.entry(*p.id).or_default();
            let mut fb: Vec<hook::FlatBlob> = p.blobs.iter().map(hook::flat).collect();
            for b in &fb {
                let _ = c.insert((b.offset, b.length));
            }
            fb.sort_by_key(|b| (b.offset, b.length, b.ulen));
            let mut off = 0u32;
            for b in &fb {
                let _ = c.insert((off, b.length));
                off = off.wrapping_add(b.length);
            }
            let _ = hcand.entry(*p.id).or_default().insert(hook::header_size(&p.blobs));
        }
    }
    let fb_str = |nm: &mut Names, b: &hook::FlatBlob| format!("{} {} {} {} {}", u8::from(b.tree), nm.n(&b.id), b.offset, b.length, b.ulen.map_or("0".to_string(), |u| format!("1 {u}")));
    let packs = store.list_with_size(FileType::Pack)?;
    o.push(u8::from(meta_ok).to_string());
    o.push(u8::from(index_ok).to_string());
    o.push(u8::from(snap_names_ok).to_string());
    o.push(packs.len().to_string());
    for (pid, size) in &packs {
        let data = store.read_full(FileType::Pack, pid)?;
        let n = data.len();
        let trailer = if n >= 4 { u32::from_le_bytes([data[n - 4], data[n - 3], data[n - 2], data[n - 1]]) } else { 0 };
        let mut segs: Vec<String> = Vec::new();
        let mut hl: BTreeSet<u32> = hcand.get(pid).cloned().unwrap_or_default();
        let _ = hl.insert(trailer);
        let mut done = BTreeSet::new();
        for h in hl {
            let Some(start) = n.checked_sub(4).and_then(|x| x.checked_sub(h as usize)) else { continue };
            if let Some(pl) = hook::decrypt(&repo, &data[start..n - 4]) {
                if let Some(es) = hook::parse_header(&pl) {
                    let _ = done.insert((start as u32, h));
                    segs.push(format!("{start} {h} 1 {} {}", es.len(), es.iter().map(|b| fb_str(&mut nm, b)).collect::<Vec<_>>().join(" ")));
                }
            }
        }
        for (off, len) in cand.get(pid).cloned().unwrap_or_default() {
            if done.contains(&(off, len)) {
                continue;
            }
            let (s, e) = (off as usize, off as usize + len as usize);
            if e > n {
                continue;
            }
            if let Some(pl) = hook::decrypt(&repo, &data[s..e]) {
                let raw = content(&mut nm, &pl);
                let unz = zstd::stream::decode_all(&*pl).ok().map(|d| content(&mut nm, &d));
                segs.push(format!("{off} {len} 0 {raw} {}", unz.map_or("0".to_string(), |u| format!("1 {u}"))));
            }
        }
        o.push(format!("{} {size} {} {trailer} {} {}", nm.n(pid), nm.n(&sha(&data)), segs.len(), segs.join(" ")));
    }
    o.push(ixs.len().to_string());
    for ix in &ixs {
        for list in [&ix.packs, &ix.packs_to_delete] {
            o.push(list.len().to_string());
            for p in list {
                o.push(format!("{} {} {} {} {}", nm.n(&p.id), p.size.map_or("0".to_string(), |s| format!("1 {s}")), u8::from(p.time.is_some()), p.blobs.len(),
                    p.blobs.iter().map(|b| fb_str(&mut nm, &hook::flat(b))).collect::<Vec<_>>().join(" ")));
            }
        }
    }
    o.push(roots.len().to_string());
    for r in &roots {
        o.push(nm.n(r).to_string());
    }
    // tables: contents
    o.push(blen.len().to_string());
    for (tok, l) in &blen {
        let t = match trees.get(tok).and_then(|t| t.as_ref()) {
            None => "0".to_string(),
            Some(ns) => format!("1 {} {}", ns.len(), ns.join(" ")),
        };
        o.push(format!("{tok} {l} {t}"));
    }
    Ok(o.join(" "))
}

fn main() {
    if std::env::var("C05_DEBUG").is_ok() {
        std::panic::set_hook(Box::new(|i| eprintln!("panic: {i}")));
    } else {
        std::panic::set_hook(Box::new(|_| {}));
    }
    let args: Vec<String> = std::env::args().collect();
    let text = if args.len() > 1 && args[1] != "-" { std::fs::read_to_string(&args[1]).expect("cases") } else { std::io::read_to_string(std::io::stdin()).expect("stdin") };
    let out = std::io::stdout();
    let mut out = std::io::BufWriter::new(out.lock());
    for line in text.lines() {
        if line.trim().is_empty() {
            continue;
        }
        if let Err(e) = run_history(line, &mut out) {
            writeln!(out, "X history failed: {}", format!("{e:#}").replace('\n', " ")).unwrap();
            writeln!(out, "E").unwrap();
        }
        out.flush().unwrap();
    }
    let _ = anyhow!("");
}
