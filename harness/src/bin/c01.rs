//! C01 — implementation side of the correspondence and the end-to-end round-trip oracle.
//!
//! Case lines (first token selects the mode), one result line per case:
//!   NE <hex>                       escape_filename via Node::new_node          -> ok <hex>
//!   NU <hex>                       Node::name() of a stored name (valid UTF-8) -> ok <hex> | badutf8
//!   R  <n> {hex}* <q> {off len}*   OpenFile::read_at over the given blobs (stored through the packer
//!                                  hook), queries (off,len)                     -> ok {len:sum}* dump=len:sum
//!   P  <pack_size> <nseg> {<is_tree> <n> {id hex}*}*   scripted Packer/Indexer run (hook)
//!                                  -> ok packs=<n> {T|D:<id>=<len:sum>|-}*
//!   E  <seed> <ver> <comp> <chunker> <csize> <cmin> <cmax> <dpack> <tpack> <entries> <depth> <maxfile> <flags>
//!                                  full backup + every read-back                -> ok k=v ... | FAIL sig=<s> what=<...>
//!   T  <ntrees> {<id> <n> {<stored-hex> <subtree|0> <tag>}*}* <root> <nq> {<ncomp> {hex}*}*
//!                                  trees stored as given (names are the STORED strings), listing through
//!                                  Repository::ls, lookups through Repository::node_from_path
//!                                  -> ok ls=<path>:<tag>,.. | q=<tag|->,..
//!   M  <sec> <nsec>                timespec -> SystemTime -> Timestamp::try_from (the mapper's capture), then
//!                                  LocalDestination::set_times (hook) on a real file, stat
//!                                  -> ok cap=<second>:<subsec>|none res=<sec>:<nsec>|- | fs-inexact
//!   S  <seed> <chunker> <csize> <cmin> <cmax> <nfiles> <maxfile> <style>
//!                                  backup through Repository::archive from an in-memory ReadSource whose
//!                                  readers fragment reads and inject ErrorKind::Interrupted; dump and
//!                                  read_file_at must equal the source bytes       -> ok k=v ... | FAIL ...
use std::collections::{BTreeMap, BTreeSet};
use std::ffi::OsStr;
use std::os::unix::ffi::{OsStrExt, OsStringExt};
use std::os::unix::fs::MetadataExt;
use std::path::{Path, PathBuf};

use rustic_core::repofile::{BlobType, Chunker, Metadata, Node, NodeType, SnapshotFile};
use rustic_core::{
    BlobId, ConfigOptions, DataId, Id, IndexedFull, LsOptions, Repository, RestoreOptions, TreeId,
};
use verif_harness::e2e::*;
use verif_harness::{SplitMix, Toks, for_each_case, id_from_u64};

fn unhex(s: &str) -> Vec<u8> {
    if s == "-" { Vec::new() } else { hex::decode(s).expect("hex") }
}
fn tohex(b: &[u8]) -> String {
    if b.is_empty() { "-".into() } else { hex::encode(b) }
}

fn sum(b: &[u8]) -> u64 {
    b.iter().enumerate().fold(0u64, |a, (i, x)| (a + (*x as u64) * ((i % 251) as u64 + 1)) % 1_000_000_007)
}

fn names_escape(t: &mut Toks) -> String {
    let b = unhex(t.s());
    let n = Node::new_node(OsStr::from_bytes(&b), NodeType::File, Metadata::default());
    format!("ok {}", tohex(n.name.as_bytes()))
}
fn names_unescape(t: &mut Toks) -> String {
    let b = unhex(t.s());
    let Ok(s) = String::from_utf8(b) else { return "badutf8".into() };
    let mut n = Node::new_node(OsStr::new("x"), NodeType::File, Metadata::default());
    n.name = s;
    format!("ok {}", tohex(n.name().as_bytes()))
}

/// init a repository of the given format version.  `Repository::init` always starts from a
/// version-2 config and refuses a lower `set_version`; a version-1 repository (as written by
/// restic < 0.14) is created through the public `init_with_config`.
fn init_repo_ver(
    be: std::sync::Arc<dyn rustic_core::WriteBackend>,
    version: u32,
    cfg: &ConfigOptions,
) -> anyhow::Result<(RepoOpen, rustic_core::repofile::MasterKey)> {
    if version != 1 {
        return init_repo(be, None, &cfg.clone().set_version(version), &repo_opts());
    }
    let bes = rustic_core::RepositoryBackends::new(be, None);
    let repo = Repository::new(&repo_opts(), &bes)?;
    let key = rustic_core::repofile::MasterKey::new();
    let mut config: rustic_core::repofile::ConfigFile = serde_json::from_value(serde_json::json!({
        "version": 1, "id": Id::random().to_hex().to_string(), "chunker_polynomial": "3da3358b4dc173"
    }))?;
    cfg.apply(&mut config)?;
    let repo = repo.init_with_config(&rustic_core::Credentials::Masterkey(key.clone()), &rustic_core::KeyOptions::default(), config)?;
    Ok((repo, key))
}

fn plain_repo(_compress: bool) -> anyhow::Result<RepoOpen> {
    let (repo, _key) = init_repo_ver(mem(), 1, &ConfigOptions::default())?;
    Ok(repo)
}

fn read_case(t: &mut Toks) -> anyhow::Result<String> {
    let n = t.u() as usize;
    // distinct blobs: ids 1.. (the same bytes may occur several times under different ids)
    let blobs: Vec<(Id, Vec<u8>)> = (0..n).map(|i| (id_from_u64(i as u64 + 1), unhex(t.s()))).collect();
    let repo = plain_repo(false)?;
    rustic_core::verif_hooks::c01::run_packer_segments(&repo, 1 << 20, &[(false, blobs.clone())])?;
    let repo = repo.to_indexed()?;
    let mut node = Node::new_node(OsStr::new("f"), NodeType::File, Metadata::default());
    node.content = Some(blobs.iter().map(|(id, _)| DataId::from(*id)).collect());
    let of = repo.open_file(&node)?;
    let q = t.u() as usize;
    let mut out = String::from("ok");
    for _ in 0..q {
        let (off, len) = (t.u() as usize, t.u() as usize);
        let r = repo.read_file_at(&of, off, len)?;
        out.push_str(&format!(" {}:{}", r.len(), sum(&r)));
    }
    let mut w = Vec::new();
    repo.dump(&node, &mut w)?;
    out.push_str(&format!(" dump={}:{}", w.len(), sum(&w)));
    Ok(out)
}

fn pipe_case(t: &mut Toks) -> anyhow::Result<String> {
    let pack_size = t.u() as u32;
    let nseg = t.u() as usize;
    let mut segs = Vec::new();
    let mut ids = BTreeSet::new();
    for _ in 0..nseg {
        let is_tree = t.u() == 1;
        let n = t.u() as usize;
        let mut blobs = Vec::new();
        for _ in 0..n {
            let id = t.u();
            let _ = ids.insert(id);
            blobs.push((id_from_u64(id), unhex(t.s())));
        }
        segs.push((is_tree, blobs));
    }
    let store = mem();
    let (repo, _key) = init_repo_ver(store.clone(), 1, &ConfigOptions::default())?;
    rustic_core::verif_hooks::c01::run_packer_segments(&repo, pack_size, &segs)?;
    let packs = rustic_core::ReadBackend::list_with_size(store.as_ref(), rustic_core::FileType::Pack)?.len();
    let repo = repo.to_indexed()?;
    let mut out = format!("ok packs={packs}");
    for id in ids {
        for (c, tpe) in [('T', BlobType::Tree), ('D', BlobType::Data)] {
            let bid = BlobId::from(id_from_u64(id));
            let has = has_blob(&repo, tpe, &bid);
            if has {
                let d = repo.get_blob_cached(&bid, tpe)?;
                out.push_str(&format!(" {c}:{id}={}:{}", d.len(), sum(&d)));
            } else {
                out.push_str(&format!(" {c}:{id}=-"));
            }
        }
    }
    Ok(out)
}

fn has_blob<S: IndexedFull>(repo: &Repository<S>, tpe: BlobType, id: &BlobId) -> bool {
    match tpe {
        BlobType::Tree => repo.get_index_entry(&TreeId::from(**id)).is_ok(),
        BlobType::Data => repo.get_index_entry(&DataId::from(**id)).is_ok(),
    }
}

// --------------------------------------------------------------------------- e2e

struct E2eCfg {
    seed: u64,
    version: u32,
    compression: i64,
    chunker: u64,
    csize: u64,
    cmin: u64,
    cmax: u64,
    dpack: u64,
    tpack: u64,
    entries: usize,
    depth: usize,
    maxfile: usize,
    flags: u64,
}
const F_COLLIDE_EMPTY: u64 = 1; // file with the bytes of an empty directory's tree + an empty directory
const F_COLLIDE_TREES: u64 = 2; // second pass: files whose bytes equal serialized subtrees of this backup
const F_ODD_NAMES: u64 = 4;
const F_FILLERS: u64 = 8; // ~50 small filler files (forces data packs to be written early with tiny packs)
const F_EXTRA_VERIFY_OFF: u64 = 16;

fn config_of(c: &E2eCfg) -> ConfigOptions {
    let mut o = ConfigOptions::default()
        .set_datapack_size(bytesize::ByteSize(c.dpack))
        .set_datapack_growfactor(0u32)
        .set_treepack_size(bytesize::ByteSize(c.tpack))
        .set_treepack_growfactor(0u32);
    if c.compression != -999 {
        o = o.set_compression(c.compression as i32);
    }
    if c.chunker == 1 {
        o = o.set_chunker(Chunker::FixedSize);
    }
    if c.csize != 0 {
        o = o.set_chunk_size(bytesize::ByteSize(c.csize));
    }
    if c.cmin != 0 {
        o = o.set_chunk_min_size(bytesize::ByteSize(c.cmin));
    }
    if c.cmax != 0 {
        o = o.set_chunk_max_size(bytesize::ByteSize(c.cmax));
    }
    if c.flags & F_EXTRA_VERIFY_OFF != 0 {
        o = o.set_extra_verify(false);
    }
    o
}

fn rand_name(r: &mut SplitMix, i: usize) -> Vec<u8> {
    // arbitrary bytes except '/' and NUL; never "." or ".."; unique through the index suffix
    let n = 1 + r.below(24) as usize;
    let mut v: Vec<u8> = Vec::new();
    let style = r.below(5);
    for _ in 0..n {
        let b = match style {
            0 => r.below(256) as u8,
            1 => [b'\\', b'"', b'\'', b'x', b'u', b'U', b'0', b'a', b'f', b'n', 0xc3, 0xa9, 0xe2, 0x82, 0xac, 0xf0, 0x9f, 0x92, 0xaf, 0xed, 0xa0, 0x80, 0xff, 0x7f, 0x01, 0x1b, b' ', b'`'][r.below(28) as usize],
            2 => 1 + r.below(31) as u8,
            3 => 0x80 + r.below(128) as u8,
            _ => b"abc.-_ \\\"\t\n"[r.below(11) as usize],
        };
        if b != b'/' && b != 0 {
            v.push(b);
        }
    }
    v.extend_from_slice(format!("~{i}").as_bytes());
    v
}

/// (path, floor seconds, nanoseconds) of entries whose mtime is set after `materialize`
type SpecialTimes = Vec<(PathBuf, i64, u32)>;

fn set_time_exact(p: &Path, secs: i64, nanos: u32) -> std::io::Result<()> {
    use std::time::{Duration, UNIX_EPOCH};
    let f = std::fs::File::open(p)?;
    let t = if secs >= 0 {
        UNIX_EPOCH + Duration::new(secs as u64, nanos)
    } else {
        UNIX_EPOCH - Duration::new(secs.unsigned_abs(), 0) + Duration::new(0, nanos)
    };
    f.set_modified(t)
}

/// apply the special mtimes (files first, then directories deepest first); returns how many of
/// them the file system stored exactly
fn apply_special_times(root: &Path, sp: &SpecialTimes) -> anyhow::Result<usize> {
    let mut order: Vec<&(PathBuf, i64, u32)> = sp.iter().collect();
    order.sort_by_key(|(p, _, _)| {
        let is_dir = root.join(p).is_dir();
        (is_dir, std::cmp::Reverse(p.components().count()))
    });
    for (p, s, n) in &order {
        set_time_exact(&root.join(p), *s, *n)?;
    }
    let mut exact = 0;
    for (p, s, n) in sp {
        let md = std::fs::symlink_metadata(root.join(p))?;
        if (md.mtime(), md.mtime_nsec()) == (*s, i64::from(*n)) {
            exact += 1;
        }
    }
    Ok(exact)
}

fn build_tree(c: &E2eCfg, r: &mut SplitMix) -> (Vec<Entry>, SpecialTimes) {
    let tp = TreeParams {
        max_entries: c.entries,
        max_depth: c.depth,
        max_file: c.maxfile,
        odd_names: c.flags & F_ODD_NAMES != 0,
        symlinks: true,
        hardlinks: true,
    };
    let mut es = gen_tree(r, &tp);
    let mt = |r: &mut SplitMix| (1_400_000_000 + r.below(300_000_000) as i64, r.below(1_000_000_000) as u32);
    let dirs: Vec<PathBuf> = std::iter::once(PathBuf::new())
        .chain(es.iter().filter(|e| matches!(e.kind, Kind::Dir)).map(|e| e.path.clone()))
        .collect();
    let pick_dir = |r: &mut SplitMix| dirs[r.below(dirs.len() as u64) as usize].clone();
    // sizes around chunk and pack boundaries
    let cs = if c.csize != 0 { c.csize as usize } else { 1 << 20 };
    let mut sizes = vec![0usize, 1, c.dpack as usize, (c.dpack as usize).saturating_sub(33), c.dpack as usize + 1];
    if cs <= 1 << 17 {
        sizes.extend_from_slice(&[cs - 1, cs, cs + 1, 2 * cs, 3 * cs + 1]);
        if c.cmin != 0 {
            sizes.extend_from_slice(&[c.cmin as usize - 1, c.cmin as usize, c.cmin as usize + 1]);
        }
        if c.cmax != 0 && c.cmax <= 1 << 18 {
            sizes.extend_from_slice(&[c.cmax as usize, c.cmax as usize + 1, 2 * c.cmax as usize + 5]);
        }
    }
    let nb = 2 + r.below(5) as usize;
    for k in 0..nb {
        let len = sizes[r.below(sizes.len() as u64) as usize].min(600_000);
        let content = match r.below(4) {
            0 => Content::Zero { len },
            1 => Content::Periodic { seed: r.next(), period: 1 + r.below(70) as usize, len },
            _ => Content::Random { seed: r.next(), len },
        };
        let mode = [0o644, 0o600, 0o4755, 0o2750, 0o400, 0o777, 0o1644][r.below(7) as usize];
        es.push(Entry { path: pick_dir(r).join(format!("bnd{k}")), kind: Kind::File(content), mode, mtime: mt(r) });
    }
    // identical content twice (deduplication must not lose either file)
    let dup = Content::Random { seed: r.next(), len: 1 + r.below(c.maxfile.max(2) as u64) as usize };
    es.push(Entry { path: pick_dir(r).join("dupA"), kind: Kind::File(dup.clone()), mode: 0o644, mtime: mt(r) });
    es.push(Entry { path: pick_dir(r).join("dupB"), kind: Kind::File(dup), mode: 0o600, mtime: mt(r) });
    // arbitrary-byte names, files, directories and symlinks with arbitrary-byte targets
    if c.flags & F_ODD_NAMES != 0 {
        for i in 0..(3 + r.below(6) as usize) {
            let name = std::ffi::OsString::from_vec(rand_name(r, i));
            let parent = pick_dir(r);
            match r.below(4) {
                0 => es.push(Entry { path: parent.join(&name), kind: Kind::Dir, mode: [0o755, 0o700, 0o1777][r.below(3) as usize], mtime: mt(r) }),
                1 => es.push(Entry { path: parent.join(&name), kind: Kind::Symlink(rand_name(r, 99)), mode: 0o777, mtime: mt(r) }),
                _ => {
                    let len = r.below(300) as usize;
                    es.push(Entry { path: parent.join(&name), kind: Kind::File(Content::Random { seed: r.next(), len }), mode: 0o644, mtime: mt(r) });
                }
            }
        }
    }
    // a deep chain of directories ending in an empty one, and one with a single file
    let mut p = PathBuf::from("deep");
    es.push(Entry { path: p.clone(), kind: Kind::Dir, mode: 0o755, mtime: mt(r) });
    for d in 0..(4 + r.below(10)) {
        p = p.join(format!("l{d}"));
        es.push(Entry { path: p.clone(), kind: Kind::Dir, mode: 0o755, mtime: mt(r) });
    }
    es.push(Entry { path: PathBuf::from("deep/leaf"), kind: Kind::File(Content::Literal(b"leaf".to_vec())), mode: 0o644, mtime: mt(r) });
    es.push(Entry { path: PathBuf::from("emptyA"), kind: Kind::Dir, mode: 0o755, mtime: mt(r) });
    if c.flags & F_FILLERS != 0 {
        for k in 0..50 {
            es.push(Entry { path: PathBuf::from(format!("a_fill{k:02}")), kind: Kind::File(Content::Random { seed: r.next(), len: 40 + k }), mode: 0o644, mtime: mt(r) });
        }
    }
    // a directory whose entries need escaping next to plain siblings (stored order = raw names,
    // escaped forms start with a backslash): every one of them is looked up BY PATH
    es.push(Entry { path: PathBuf::from("oddsib"), kind: Kind::Dir, mode: 0o755, mtime: mt(r) });
    let odd: [&[u8]; 14] = [b"\"quoted\".txt", b"A", b"M", b"a", b"z", b"\\back", b"tab\there", b"nl\nname", b"\xff\xfe", b"\xc3\xa9", b"0", b"~", b"[", b"]"];
    for (k, name) in odd.iter().enumerate() {
        let nm = std::ffi::OsString::from_vec(name.to_vec());
        es.push(Entry { path: PathBuf::from("oddsib").join(nm), kind: Kind::File(Content::Random { seed: r.next(), len: 10 + k }), mode: 0o644, mtime: mt(r) });
    }
    let qd = PathBuf::from("oddsib").join(std::ffi::OsString::from_vec(b"\"d\\ir\"".to_vec()));
    es.push(Entry { path: qd.clone(), kind: Kind::Dir, mode: 0o755, mtime: mt(r) });
    es.push(Entry { path: qd.join("in\"side"), kind: Kind::File(Content::Literal(b"inside".to_vec())), mode: 0o600, mtime: mt(r) });
    es.push(Entry { path: qd.join("plain"), kind: Kind::Symlink(b"../A".to_vec()), mode: 0o777, mtime: mt(r) });
    // modification times before, at and around the epoch, with and without a sub-second part, and far future
    let mut sp: SpecialTimes = Vec::new();
    es.push(Entry { path: PathBuf::from("times"), kind: Kind::Dir, mode: 0o755, mtime: mt(r) });
    let fixed: [(&str, i64, u32); 9] = [
        ("neg_frac", -2, 750_000_000),
        ("neg_one_ns", -1, 999_999_999),
        ("neg_tiny", -1_000_000, 1),
        ("neg_whole", -86_400, 0),
        ("epoch", 0, 0),
        ("epoch_frac", 0, 999_999_999),
        ("pos_small", 1, 500_000_000),
        ("y1901", -2_145_916_800, 250_000_000),
        ("y2200", 7_258_118_400, 123_456_789),
    ];
    for (n, s0, n0) in fixed {
        let p = PathBuf::from("times").join(n);
        es.push(Entry { path: p.clone(), kind: Kind::File(Content::Literal(n.as_bytes().to_vec())), mode: 0o644, mtime: mt(r) });
        sp.push((p, s0, n0));
    }
    for k in 0..3 {
        let p = PathBuf::from("times").join(format!("rnd{k}"));
        es.push(Entry { path: p.clone(), kind: Kind::File(Content::Random { seed: r.next(), len: 5 }), mode: 0o644, mtime: mt(r) });
        sp.push((p, -(r.below(2_000_000_000) as i64) - 1, r.below(1_000_000_000) as u32));
    }
    let nd = PathBuf::from("times").join("negdir");
    es.push(Entry { path: nd.clone(), kind: Kind::Dir, mode: 0o750, mtime: mt(r) });
    es.push(Entry { path: nd.join("f"), kind: Kind::File(Content::Literal(b"f".to_vec())), mode: 0o644, mtime: mt(r) });
    sp.push((nd, -1000, 500_000_000));
    if c.flags & F_COLLIDE_EMPTY != 0 {
        es.push(Entry { path: PathBuf::from("a_coll"), kind: Kind::File(Content::Literal(b"{\"nodes\":[]}\n".to_vec())), mode: 0o644, mtime: mt(r) });
        es.push(Entry { path: PathBuf::from("z_empty"), kind: Kind::Dir, mode: 0o755, mtime: mt(r) });
    }
    (es, sp)
}

/// every (tree id, serialized bytes) of the snapshot, walked from the root; stops below unreadable trees
fn walk_trees<S: IndexedFull>(repo: &Repository<S>, root: TreeId) -> (BTreeMap<Id, Vec<u8>>, Vec<Id>, BTreeSet<Id>) {
    let mut trees = BTreeMap::new();
    let mut missing = Vec::new();
    let mut data = BTreeSet::new();
    let mut todo = vec![root];
    while let Some(t) = todo.pop() {
        if trees.contains_key(&*t) {
            continue;
        }
        match repo.cat_blob(BlobType::Tree, &t.to_hex()) {
            Ok(b) => {
                let _ = trees.insert(*t, b.to_vec());
                if let Ok(tree) = repo.get_tree(&t) {
                    for n in tree.nodes {
                        if let Some(st) = n.subtree {
                            todo.push(st);
                        }
                        for d in n.content.into_iter().flatten() {
                            let _ = data.insert(*BlobId::from(d));
                        }
                    }
                } else {
                    missing.push(*t);
                }
            }
            Err(_) => missing.push(*t),
        }
    }
    (trees, missing, data)
}

/// the `Message:` part of a RusticError (its Display starts with a generic sentence)
fn short_err(e: &dyn std::fmt::Display) -> String {
    let s = format!("{e:#}").replace('\n', " ");
    let m = s.find("Message:").map_or(s.as_str(), |i| &s[i..]);
    let m = m.find("Some additional details").map_or(m, |i| &m[..i]);
    m.trim().chars().take(160).collect()
}

struct Fail {
    sig: &'static str,
    what: String,
}
fn fail(sig: &'static str, what: String) -> Fail {
    Fail { sig, what }
}

/// `the lost blob's id occurs under both blob types in that run`
fn classify_loss(repo: RepoOpen, snap: &SnapshotFile, what: String) -> Fail {
    let Ok(repo) = repo.to_indexed() else { return fail("other", what) };
    let (trees, missing, data) = walk_trees(&repo, snap.tree);
    let _ = trees;
    let mut lost: Vec<(BlobType, Id)> = missing.iter().map(|i| (BlobType::Tree, *i)).collect();
    for d in &data {
        if !has_blob(&repo, BlobType::Data, &BlobId::from(*d)) {
            lost.push((BlobType::Data, *d));
        }
    }
    if lost.is_empty() {
        return fail("other", what);
    }
    let both = lost.iter().all(|(t, i)| match t {
        BlobType::Tree => has_blob(&repo, BlobType::Data, &BlobId::from(*i)) || data.contains(i),
        BlobType::Data => has_blob(&repo, BlobType::Tree, &BlobId::from(*i)),
    });
    let l = lost.iter().map(|(t, i)| format!("{t}:{}", &i.to_hex().as_str()[..8])).collect::<Vec<_>>().join(",");
    fail(if both { "cross-type-id-collision" } else { "other" }, format!("{what}; lost blobs [{l}]"))
}

fn e2e_case(t: &mut Toks) -> Result<String, Fail> {
    let c = E2eCfg {
        seed: t.u(),
        version: t.u() as u32,
        compression: t.i(),
        chunker: t.u(),
        csize: t.u(),
        cmin: t.u(),
        cmax: t.u(),
        dpack: t.u(),
        tpack: t.u(),
        entries: t.u() as usize,
        depth: t.u() as usize,
        maxfile: t.u() as usize,
        flags: t.u(),
    };
    let infra = |e: anyhow::Error| fail("infra", format!("harness step failed: {e:#}"));
    let mut r = SplitMix(c.seed);
    let (mut entries, specials) = build_tree(&c, &mut r);
    let cfgo = config_of(&c);
    let mut collisions_planted = 0usize;
    let src = tempfile::tempdir().map_err(|e| infra(e.into()))?;
    materialize(src.path(), &entries).map_err(infra)?;
    let times_exact = apply_special_times(src.path(), &specials).map_err(infra)?;
    if c.flags & F_COLLIDE_TREES != 0 {
        // pass 1 of the SAME directory into a scratch repository with the same configuration: learn
        // the serialized subtrees (they contain inode and ctime, so the directory must stay), then
        // plant files with exactly these bytes in the root (the subtrees themselves do not change)
        let (repo, _k) = init_repo_ver(mem(), c.version, &cfgo).map_err(|e| fail("config-refused", format!("{e:#}")))?;
        if let Ok((repo, snap)) = backup_dir(repo, src.path(), "src", None) {
            if let Ok(repo) = repo.to_indexed() {
                let (trees, _, _) = walk_trees(&repo, snap.tree);
                // the root of the source and its wrapper `src` change when files are added: skip them
                let mut skip: BTreeSet<Id> = BTreeSet::new();
                let _ = skip.insert(*snap.tree);
                if let Ok(tr) = repo.get_tree(&snap.tree) {
                    for n in tr.nodes {
                        if let Some(st) = n.subtree {
                            let _ = skip.insert(*st);
                        }
                    }
                }
                let mut k = 0;
                for (id, bytes) in &trees {
                    if skip.contains(id) || bytes.len() > 200_000 || k >= 4 {
                        continue;
                    }
                    let e = Entry {
                        path: PathBuf::from(format!("a_tree_copy{k}")),
                        kind: Kind::File(Content::Literal(bytes.clone())),
                        mode: 0o644,
                        mtime: (1_600_000_000 + k as i64, 5),
                    };
                    let pth = src.path().join(&e.path);
                    std::fs::write(&pth, bytes).map_err(|e| infra(e.into()))?;
                    set_mtime(&pth, e.mtime).map_err(infra)?;
                    entries.push(e);
                    k += 1;
                }
                collisions_planted = k;
            }
        }
    }
    let store = mem();
    let (repo, key) = init_repo_ver(store.clone(), c.version, &cfgo).map_err(|e| fail("config-refused", format!("{e:#}")))?;
    let (repo, snap) = backup_dir(repo, src.path(), "src", None).map_err(|e| fail("backup-error", format!("backup failed: {e:#}")))?;
    drop(repo);
    // a fresh handle: nothing cached in memory from the backup
    let repo = open_repo(store.clone(), None, &key, &repo_opts()).map_err(infra)?;
    let sid = snap.id.to_hex().to_string();

    // 1. check --read-data
    match check_clean(&repo) {
        Ok(true) => {}
        Ok(false) => return Err(classify_loss(repo, &snap, "backup reported success but check(read_data) reports errors".into())),
        Err(e) => return Err(classify_loss(repo, &snap, format!("backup reported success but check fails: {e:#}"))),
    }
    // 2. listing + dump + ranged reads
    let repo = repo.to_indexed().map_err(|e| infra(e.into()))?;
    let root = match repo.node_from_snapshot_path(&format!("{sid}:src"), |_| true) {
        Ok(n) => n,
        Err(e) => return Err(classify_loss(repo.drop_index(), &snap, format!("snapshot path unreadable: {e:#}"))),
    };
    let mut listed: BTreeMap<PathBuf, Node> = BTreeMap::new();
    let ls = repo.ls(&root, &LsOptions::default()).map_err(|e| fail("other", format!("ls failed: {e:#}")))?;
    for item in ls {
        let (p, n) = item.map_err(|e| fail("other", format!("ls item failed: {e:#}")))?;
        let _ = listed.insert(p, n);
    }
    // expected listing from the source directory itself
    let mut expected: BTreeMap<PathBuf, std::fs::Metadata> = BTreeMap::new();
    let mut stack = vec![src.path().to_path_buf()];
    while let Some(d) = stack.pop() {
        for e in std::fs::read_dir(&d).map_err(|e| infra(e.into()))? {
            let e = e.map_err(|e| infra(e.into()))?;
            let md = std::fs::symlink_metadata(e.path()).map_err(|e| infra(e.into()))?;
            if md.is_dir() {
                stack.push(e.path());
            }
            let _ = expected.insert(e.path().strip_prefix(src.path()).unwrap().to_path_buf(), md);
        }
    }
    let mut diffs: Vec<String> = Vec::new();
    for p in listed.keys() {
        if !p.as_os_str().is_empty() && !expected.contains_key(p) {
            diffs.push(format!("ls: extra entry {p:?}"));
        }
    }
    let (mut nfiles, mut nreads, mut nchunks, mut nbytes) = (0usize, 0usize, 0usize, 0u64);
    let mut nbypath = 0usize;
    let mut data_ids: BTreeSet<Id> = BTreeSet::new();
    for (p, md) in &expected {
        let Some(n) = listed.get(p) else {
            diffs.push(format!("ls: missing entry {p:?}"));
            continue;
        };
        if n.name().as_bytes() != p.file_name().unwrap().as_bytes() {
            diffs.push(format!("ls: name differs {p:?} vs {:?}", n.name()));
        }
        // access BY PATH (what `snapshot:path` of restore / dump / ls and the vfs use): the entry that the
        // listing shows must be found, and be the same node
        let full = Path::new("src").join(p);
        nbypath += 1;
        match repo.node_from_path(snap.tree, &full) {
            Ok(n2) if &n2 == n => {
                if n2.is_file() && n2.meta.size <= 100_000 {
                    let mut w = Vec::new();
                    match repo.dump(&n2, &mut w) {
                        Ok(()) if std::fs::read(src.path().join(p)).is_ok_and(|want| want == w) => {}
                        Ok(()) => diffs.push(format!("by-path dump: content differs {p:?}")),
                        Err(e) => diffs.push(format!("by-path dump: error {p:?}: {e:#}")),
                    }
                }
            }
            Ok(n2) => diffs.push(format!("by-path: node_from_path({full:?}) is not the listed node: {:?} vs {:?}", n2.name, n.name)),
            Err(e) => diffs.push(format!("by-path: entry listed by ls is not found by node_from_path({full:?}): {}", short_err(&e))),
        }
        // the `<snapshot>:<path>` form re-reads the snapshot: names needing escapes, the oddsib directory and every 3rd entry
        let needs_esc = p.as_os_str().as_bytes().iter().any(|b| *b == b'\\' || *b == b'"' || *b < 0x20 || *b >= 0x80);
        if let Some(fs) = full.to_str().filter(|_| needs_esc || p.starts_with("oddsib") || nbypath % 3 == 0) {
            match repo.node_from_snapshot_path(&format!("{sid}:{fs}"), |_| true) {
                Ok(n2) if &n2 == n => {}
                Ok(_) => diffs.push(format!("by-path: node_from_snapshot_path({fs:?}) is not the listed node")),
                Err(e) => diffs.push(format!("by-path: entry listed by ls is not found by node_from_snapshot_path({fs:?}): {}", short_err(&e))),
            }
        }
        let ft = md.file_type();
        let type_ok = (ft.is_dir() && n.is_dir()) || (ft.is_file() && n.is_file()) || (ft.is_symlink() && n.is_symlink());
        if !type_ok {
            diffs.push(format!("ls: type differs {p:?}: node {:?}", n.node_type));
            continue;
        }
        if ft.is_symlink() {
            let t = std::fs::read_link(src.path().join(p)).map_err(|e| infra(e.into()))?;
            if n.node_type.to_link().as_os_str().as_bytes() != t.as_os_str().as_bytes() {
                diffs.push(format!("ls: link target differs {p:?}"));
            }
            continue;
        }
        let perm = n.meta.mode.unwrap_or(0);
        // Go file mode: permission bits, setuid 1<<23, setgid 1<<22, sticky 1<<20
        let unix = (perm & 0o777) | if perm & (1 << 23) != 0 { 0o4000 } else { 0 } | if perm & (1 << 22) != 0 { 0o2000 } else { 0 } | if perm & (1 << 20) != 0 { 0o1000 } else { 0 };
        if unix != md.mode() & 0o7777 {
            diffs.push(format!("ls: mode differs {p:?}: {:o} vs {:o}", unix, md.mode() & 0o7777));
        }
        let md_ns = i128::from(md.mtime()) * 1_000_000_000 + i128::from(md.mtime_nsec());
        match n.meta.mtime {
            Some(ts) if ts.as_nanosecond() == md_ns => {}
            other => diffs.push(format!("ls: mtime differs {p:?}: {other:?} vs {}.{}", md.mtime(), md.mtime_nsec())),
        }
        if ft.is_file() {
            let want = std::fs::read(src.path().join(p)).map_err(|e| infra(e.into()))?;
            if n.meta.size != want.len() as u64 {
                diffs.push(format!("ls: size differs {p:?}: {} vs {}", n.meta.size, want.len()));
            }
            nfiles += 1;
            nbytes += want.len() as u64;
            let content = n.content.clone().unwrap_or_default();
            nchunks += content.len();
            for d in &content {
                let _ = data_ids.insert(*BlobId::from(*d));
            }
            // dump
            let mut w = Vec::new();
            match repo.dump(n, &mut w) {
                Ok(()) if w == want => {}
                Ok(()) => diffs.push(format!("dump: content differs {p:?} ({} vs {} bytes)", w.len(), want.len())),
                Err(e) => diffs.push(format!("dump: error {p:?}: {e:#}")),
            }
            // ranged reads at boundaries and random places
            match repo.open_file(n) {
                Err(e) => diffs.push(format!("open_file: error {p:?}: {e:#}")),
                Ok(of) => {
                    let len = want.len();
                    let mut qs: Vec<(usize, usize)> = vec![(0, len), (0, len + 1), (len, 1), (len + 1, 1), (0, 0), (len.saturating_sub(1), 2), (0, 1), (len + 1000, 10)];
                    // chunk boundaries of this file
                    let mut pos = 0usize;
                    for d in content.iter().take(6) {
                        if let Ok(ie) = repo.get_index_entry(d) {
                            pos += ie.data_length() as usize;
                            qs.push((pos.saturating_sub(1), 2));
                            qs.push((pos, 1));
                            qs.push((pos, len));
                            qs.push((pos.saturating_sub(3), 7));
                        }
                    }
                    for _ in 0..6 {
                        let off = r.below(len as u64 + 3) as usize;
                        let l = match r.below(4) {
                            0 => r.below(16) as usize,
                            1 => len.saturating_sub(off),
                            2 => len + r.below(100_000) as usize,
                            _ => r.below(len as u64 + 2) as usize,
                        };
                        qs.push((off, l));
                    }
                    for (off, l) in qs {
                        nreads += 1;
                        let exp: &[u8] = if off >= len { &[] } else { &want[off..(off.saturating_add(l)).min(len)] };
                        match repo.read_file_at(&of, off, l) {
                            Ok(b) if &b[..] == exp => {}
                            Ok(b) => diffs.push(format!("read_file_at({off},{l}) of {p:?} ({len} bytes): got {} bytes, expected {}", b.len(), exp.len())),
                            Err(e) => diffs.push(format!("read_file_at({off},{l}) of {p:?}: error {e:#}")),
                        }
                    }
                }
            }
        }
    }
    if !diffs.is_empty() {
        diffs.truncate(8);
        return Err(fail("other", format!("read-back differs from the source: {}", diffs.join(" | "))));
    }
    // realized cross-type collisions: ids used both as data and as tree in this snapshot
    let (trees, _, _) = walk_trees(&repo, snap.tree);
    let realized = trees.keys().filter(|i| data_ids.contains(*i)).count();
    let ntrees = trees.len();
    // 3a. restore of sub-directories addressed by path: the one with the names needing escapes, and a random one
    let mut dirs: Vec<&PathBuf> = expected.iter().filter(|(_, md)| md.is_dir()).map(|(p, _)| p).collect();
    dirs.sort();
    let mut chosen: Vec<PathBuf> = vec![PathBuf::from("oddsib")];
    if !dirs.is_empty() {
        chosen.push(dirs[r.below(dirs.len() as u64) as usize].clone());
    }
    let mut nsub = 0usize;
    for dpath in &chosen {
        let full = Path::new("src").join(dpath);
        let node = repo
            .node_from_path(snap.tree, &full)
            .map_err(|e| fail("other", format!("sub-directory {full:?} listed by ls is not found by path: {}", short_err(&e))))?;
        let sub = tempfile::tempdir().map_err(|e| infra(e.into()))?;
        let ropts = RestoreOptions::default();
        let lsd = repo.ls(&node, &LsOptions::default()).map_err(|e| fail("other", format!("ls of sub-directory failed: {e:#}")))?;
        let dest = rustic_core::LocalDestination::new(sub.path().to_str().unwrap(), true, false).map_err(|e| infra(e.into()))?;
        let plan = repo.prepare_restore(&ropts, lsd.clone(), &dest, false).map_err(|e| fail("other", format!("prepare_restore of sub-directory {full:?} failed: {e:#}")))?;
        repo.restore(plan, &ropts, lsd, &dest).map_err(|e| fail("other", format!("restore of sub-directory {full:?} failed: {e:#}")))?;
        let mut d = compare_dirs(&src.path().join(dpath), sub.path(), CmpOpts::default()).map_err(infra)?;
        if !d.is_empty() {
            d.truncate(6);
            return Err(fail("other", format!("sub-directory {full:?} restored by path differs from the source: {}", d.join(" | "))));
        }
        nsub += 1;
    }
    // 3. restore to disk
    let dst = tempfile::tempdir().map_err(|e| infra(e.into()))?;
    let repo = repo.drop_index();
    let _repo = restore_to(repo, &sid, dst.path(), RestoreOptions::default()).map_err(|e| fail("other", format!("restore failed: {e:#}")))?;
    let mut d = compare_dirs(src.path(), &dst.path().join("src"), CmpOpts::default()).map_err(infra)?;
    // hard links must come back as links
    for e in &entries {
        if let Kind::Hardlink(to) = &e.kind {
            let a = std::fs::symlink_metadata(dst.path().join("src").join(&e.path));
            let b = std::fs::symlink_metadata(dst.path().join("src").join(to));
            if let (Ok(a), Ok(b)) = (a, b) {
                if a.ino() != b.ino() {
                    d.push(format!("hard link restored as separate file: {:?} -> {:?}", e.path, to));
                }
            }
        }
    }
    if !d.is_empty() {
        d.truncate(8);
        return Err(fail("other", format!("restored directory differs from the source: {}", d.join(" | "))));
    }
    let packs = rustic_core::ReadBackend::list_with_size(store.as_ref(), rustic_core::FileType::Pack).map(|l| l.len()).unwrap_or(0);
    Ok(format!(
        "ok entries={} files={nfiles} bytes={nbytes} chunks={nchunks} trees={ntrees} packs={packs} reads={nreads} planted={collisions_planted} crosstype={realized} bypath={nbypath} subrestores={nsub} times={} times_exact={times_exact}",
        expected.len(),
        specials.len()
    ))
}

// --------------------------------------------------------------------------- path lookup on scripted trees

fn tree_case(t: &mut Toks) -> anyhow::Result<String> {
    use rustic_core::repofile::Tree;
    let ntrees = t.u() as usize;
    let mut blobs = Vec::new();
    for _ in 0..ntrees {
        let id = t.u();
        let n = t.u() as usize;
        let mut nodes = Vec::new();
        for _ in 0..n {
            let stored = String::from_utf8(unhex(t.s()))?;
            let (sub, tag) = (t.u(), t.u());
            let meta = Metadata { size: tag, ..Default::default() };
            let mut node = Node::new_node(OsStr::new("x"), if sub == 0 { NodeType::File } else { NodeType::Dir }, meta);
            node.name = stored;
            if sub != 0 {
                node.subtree = Some(TreeId::from(id_from_u64(sub)));
            }
            nodes.push(node);
        }
        let (chunk, _) = Tree { nodes }.serialize()?;
        blobs.push((id_from_u64(id), chunk));
    }
    let root = TreeId::from(id_from_u64(t.u()));
    let repo = plain_repo(false)?;
    rustic_core::verif_hooks::c01::run_packer_segments(&repo, 1 << 20, &[(true, blobs)])?;
    let repo = repo.to_indexed()?;
    let mut rootnode = Node::new_node(OsStr::new(""), NodeType::Dir, Metadata::default());
    rootnode.subtree = Some(root);
    let mut out = String::from("ok ls=");
    let mut first = true;
    for item in repo.ls(&rootnode, &LsOptions::default())? {
        match item {
            Ok((p, n)) => {
                let comps: Vec<String> = p.components().map(|c| tohex(c.as_os_str().as_bytes())).collect();
                if !first {
                    out.push(',');
                }
                first = false;
                out.push_str(&format!("{}:{}", comps.join("/"), n.meta.size));
            }
            Err(_) => {
                out.push_str(",lserr");
                break;
            }
        }
    }
    out.push_str(" | q=");
    let nq = t.u() as usize;
    for k in 0..nq {
        let nc = t.u() as usize;
        let mut p = PathBuf::new();
        for _ in 0..nc {
            p.push(OsStr::from_bytes(&unhex(t.s())));
        }
        if k > 0 {
            out.push(',');
        }
        match repo.node_from_path(root, &p) {
            Ok(n) => out.push_str(&n.meta.size.to_string()),
            Err(_) => out.push('-'),
        }
    }
    Ok(out)
}

// --------------------------------------------------------------------------- time conversion

fn time_case(t: &mut Toks) -> anyhow::Result<String> {
    use rustic_core::jiff::Timestamp;
    use std::time::{Duration, UNIX_EPOCH};
    let (s, n) = (t.i(), t.u() as u32);
    let st = if s >= 0 {
        UNIX_EPOCH.checked_add(Duration::new(s as u64, n))
    } else {
        UNIX_EPOCH.checked_sub(Duration::new(s.unsigned_abs(), 0)).and_then(|x| x.checked_add(Duration::new(0, n)))
    };
    let Some(st) = st else { return Ok("ok cap=none res=-".into()) };
    // mapper.rs: m.modified().ok().and_then(|t| Timestamp::try_from(t).ok())
    let Ok(ts) = Timestamp::try_from(st) else { return Ok("ok cap=none res=-".into()) };
    let cap = format!("cap={}:{}", ts.as_second(), ts.subsec_nanosecond());
    let dir = tempfile::tempdir()?;
    let f = dir.path().join("f");
    std::fs::write(&f, b"x")?;
    // does the file system store this timespec at all?
    let stored = std::fs::File::open(&f)?.set_modified(st).is_ok() && {
        let md = std::fs::symlink_metadata(&f)?;
        (md.mtime(), md.mtime_nsec()) == (s, i64::from(n))
    };
    if !stored {
        return Ok(format!("ok {cap} fs-inexact"));
    }
    std::fs::File::open(&f)?.set_modified(UNIX_EPOCH + Duration::new(1_000_000_000, 0))?;
    rustic_core::verif_hooks::c01::set_times(dir.path().to_str().unwrap(), "f", ts.as_second(), ts.subsec_nanosecond())?;
    let md = std::fs::symlink_metadata(&f)?;
    Ok(format!("ok {cap} res={}:{}", md.mtime(), md.mtime_nsec()))
}

// --------------------------------------------------------------------------- archive from a fragmenting source

/// A reader over `data` that returns short reads and `ErrorKind::Interrupted` errors (both legal
/// for `std::io::Read`: pipes, network file systems, signals).
struct FragReader {
    data: std::sync::Arc<Vec<u8>>,
    pos: usize,
    state: u64,
    style: u64,
    pending_eintr: bool,
    next_hiccup: usize,
    stats: std::sync::Arc<[std::sync::atomic::AtomicUsize; 3]>, // short reads, EINTR, short read directly followed by EINTR
}
impl FragReader {
    fn rnd(&mut self, n: u64) -> u64 {
        let mut r = SplitMix(self.state);
        let v = r.below(n.max(1));
        self.state = r.0;
        v
    }
}
impl std::io::Read for FragReader {
    fn read(&mut self, buf: &mut [u8]) -> std::io::Result<usize> {
        use std::sync::atomic::Ordering::Relaxed;
        if buf.is_empty() {
            return Ok(0);
        }
        if self.pending_eintr {
            self.pending_eintr = false;
            let _ = self.stats[1].fetch_add(1, Relaxed);
            let _ = self.stats[2].fetch_add(1, Relaxed);
            return Err(std::io::Error::new(std::io::ErrorKind::Interrupted, "EINTR"));
        }
        let remaining = self.data.len() - self.pos;
        let mut n = buf.len().min(remaining);
        if self.style == 0 {
            // mostly full reads; every few 10 KiB a short read directly followed by EINTR
            if self.pos >= self.next_hiccup && n > 1 {
                n = 1 + self.rnd((n as u64 - 1).min(7)) as usize;
                self.pending_eintr = true;
                self.next_hiccup = self.pos + 3000 + self.rnd(40_000) as usize;
            }
        } else {
            match self.rnd(10) {
                0 => {
                    let _ = self.stats[1].fetch_add(1, Relaxed);
                    return Err(std::io::Error::new(std::io::ErrorKind::Interrupted, "EINTR"));
                }
                1 | 2 if n > 1 => {
                    n = 1 + self.rnd((n as u64 - 1).min(if self.style == 1 { 4000 } else { 64 })) as usize;
                    self.pending_eintr = self.rnd(2) == 0;
                }
                3 if n > 1 => n = 1 + self.rnd(n as u64 - 1) as usize,
                _ => {}
            }
        }
        if n < buf.len().min(remaining) {
            let _ = self.stats[0].fetch_add(1, Relaxed);
        }
        buf[..n].copy_from_slice(&self.data[self.pos..self.pos + n]);
        self.pos += n;
        Ok(n)
    }
}

struct MemSource {
    files: Vec<(String, std::sync::Arc<Vec<u8>>)>,
    seed: u64,
    style: u64,
    stats: std::sync::Arc<[std::sync::atomic::AtomicUsize; 3]>,
}
impl rustic_core::ReadSource for MemSource {
    type Open = FragReader;
    type Iter = std::vec::IntoIter<rustic_core::RusticResult<rustic_core::ReadSourceEntry<FragReader>>>;
    fn size(&self) -> rustic_core::RusticResult<Option<u64>> {
        Ok(Some(self.files.iter().map(|(_, d)| d.len() as u64).sum()))
    }
    fn entries(&self) -> Self::Iter {
        self.files
            .iter()
            .enumerate()
            .map(|(i, (name, data))| {
                let meta = Metadata { size: data.len() as u64, mode: Some(0o644), ..Default::default() };
                Ok(rustic_core::ReadSourceEntry {
                    path: PathBuf::from(name),
                    node: Node::new_node(OsStr::new(name), NodeType::File, meta),
                    open: Some(FragReader {
                        data: data.clone(),
                        pos: 0,
                        state: self.seed ^ (i as u64 + 1).wrapping_mul(0x9E37_79B9_7F4A_7C15),
                        style: self.style,
                        pending_eintr: false,
                        next_hiccup: 5000,
                        stats: self.stats.clone(),
                    }),
                })
            })
            .collect::<Vec<_>>()
            .into_iter()
    }
}

fn stream_case(t: &mut Toks) -> Result<String, Fail> {
    use std::sync::atomic::Ordering::Relaxed;
    let (seed, chunker, csize, cmin, cmax) = (t.u(), t.u(), t.u(), t.u(), t.u());
    let (nfiles, maxfile, style) = (t.u() as usize, t.u() as usize, t.u());
    let infra = |e: anyhow::Error| fail("infra", format!("harness step failed: {e:#}"));
    let mut r = SplitMix(seed);
    let mut cfg = ConfigOptions::default();
    if chunker == 1 {
        cfg = cfg.set_chunker(Chunker::FixedSize);
    }
    if csize != 0 {
        cfg = cfg.set_chunk_size(bytesize::ByteSize(csize));
    }
    if cmin != 0 {
        cfg = cfg.set_chunk_min_size(bytesize::ByteSize(cmin));
    }
    if cmax != 0 {
        cfg = cfg.set_chunk_max_size(bytesize::ByteSize(cmax));
    }
    let mut files = Vec::new();
    for i in 0..nfiles {
        let len = match r.below(5) {
            0 => r.below(100) as usize,
            1 => maxfile,
            _ => r.below(maxfile.max(1) as u64) as usize,
        };
        let c = match r.below(5) {
            0 => Content::Zero { len },
            1 => Content::Periodic { seed: r.next(), period: 1 + r.below(5000) as usize, len },
            _ => Content::Random { seed: r.next(), len },
        };
        files.push((format!("f{i:02}"), std::sync::Arc::new(c.bytes())));
    }
    let stats = std::sync::Arc::new([const { std::sync::atomic::AtomicUsize::new(0) }; 3]);
    let source = MemSource { files: files.clone(), seed, style, stats: stats.clone() };
    let (repo, _key) = init_repo(mem(), None, &cfg, &repo_opts()).map_err(|e| fail("config-refused", format!("{e:#}")))?;
    let repo = repo.to_indexed_ids().map_err(|e| infra(e.into()))?;
    let paths: Vec<PathBuf> = files.iter().map(|(n, _)| PathBuf::from(n)).collect();
    let snap = repo
        .archive(&rustic_core::BackupOptions::default(), &source, SnapshotFile::default(), &paths)
        .map_err(|e| fail("backup-error", format!("archive from a fragmenting reader failed: {e:#}")))?;
    let repo = repo.to_indexed().map_err(|e| infra(e.into()))?;
    let sid = snap.id.to_hex().to_string();
    let mut diffs = Vec::new();
    let (mut nchunks, mut nbytes) = (0usize, 0usize);
    for (name, data) in &files {
        let node = match repo.node_from_snapshot_path(&format!("{sid}:{name}"), |_| true) {
            Ok(n) => n,
            Err(e) => {
                diffs.push(format!("{name}: not found in the snapshot: {}", short_err(&e)));
                continue;
            }
        };
        nchunks += node.content.as_ref().map_or(0, Vec::len);
        nbytes += data.len();
        let mut w = Vec::new();
        match repo.dump(&node, &mut w) {
            Ok(()) if &w == &**data => {}
            Ok(()) => {
                let first = w.iter().zip(data.iter()).position(|(a, b)| a != b).unwrap_or(w.len().min(data.len()));
                diffs.push(format!("{name}: dump differs from the bytes the reader delivered ({} vs {} bytes, first difference at {first})", w.len(), data.len()));
            }
            Err(e) => diffs.push(format!("{name}: dump error {e:#}")),
        }
        if node.meta.size != data.len() as u64 {
            diffs.push(format!("{name}: node size {} vs {} bytes delivered", node.meta.size, data.len()));
        }
        if let Ok(of) = repo.open_file(&node) {
            for _ in 0..4 {
                let off = r.below(data.len() as u64 + 2) as usize;
                let l = r.below(20_000) as usize;
                let exp: &[u8] = if off >= data.len() { &[] } else { &data[off..(off + l).min(data.len())] };
                match repo.read_file_at(&of, off, l) {
                    Ok(b) if &b[..] == exp => {}
                    _ => diffs.push(format!("{name}: read_file_at({off},{l}) differs from the source")),
                }
            }
        }
    }
    if !diffs.is_empty() {
        diffs.truncate(6);
        return Err(fail("other", format!("content stored from a reader with short reads / EINTR differs: {}", diffs.join(" | "))));
    }
    Ok(format!(
        "ok files={} bytes={nbytes} chunks={nchunks} short_reads={} eintr={} short_then_eintr={}",
        files.len(),
        stats[0].load(Relaxed),
        stats[1].load(Relaxed),
        stats[2].load(Relaxed)
    ))
}

/// result lines must stay one line whatever bytes file names put into error texts
fn one_line(s: &str) -> String {
    s.chars().map(|c| if c.is_control() || c == '\u{2028}' || c == '\u{2029}' { ' ' } else { c }).collect()
}

fn run_line(line: &str) -> String {
    let mut t = Toks::new(line);
    let r: anyhow::Result<String> = match t.s() {
        "NE" => Ok(names_escape(&mut t)),
        "NU" => Ok(names_unescape(&mut t)),
        "R" => read_case(&mut t),
        "P" => pipe_case(&mut t),
        "E" => match e2e_case(&mut t) {
            Ok(s) => Ok(s),
            Err(f) => Ok(format!("FAIL sig={} what={}", f.sig, one_line(&f.what))),
        },
        "T" => tree_case(&mut t),
        "M" => time_case(&mut t),
        "S" => match stream_case(&mut t) {
            Ok(s) => Ok(s),
            Err(f) => Ok(format!("FAIL sig={} what={}", f.sig, one_line(&f.what))),
        },
        m => Ok(format!("unknown-mode {m}")),
    };
    r.unwrap_or_else(|e| format!("error {}", one_line(&format!("{e:#}"))))
}

fn main() {
    for_each_case(|l| run_line(l));
}
