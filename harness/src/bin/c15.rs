//! C15 — append-only and dry-run modes never remove or overwrite stored data.
//!
//! Mode `wrap`: one case line = `<dry 0/1> <n> call...`; every call goes through the real
//! `DryRunBackend<DecryptBackend>` (hook) over a recording backend; output = what reached the
//! inner backend, per call.  Call tokens (t = 0 config,1 index,2 key,3 snapshot,4 pack):
//!   wb t id | rm t id | cr | hw t | hu t | sf n | su | sl n k | dl t k id.. | sz | sv | rf t id | ls t | rp t id
//!
//! Mode `seq`: one case line = `<seed> <hotcold 0/1> <n> op...`; a repository is built over a
//! permissive map store behind `RecBackend`; every op is a public entry point run on a fresh
//! handle; output per op `name:ao=<0/1>,c=<0/1>,h=<0/1/->:<ok|refused|err>:lost=<n>:<effect classes>` joined by ` ; `.
//!   op tokens: `<name> <flag> <dry> <variant>`
//!   `<hotcold>` is a mode: 0 one store, 1 hot/cold, 2 one store with 64-byte fixed-size chunks
//!   (`bigbackup` then stores 60 000 blobs, more than the indexer holds before it saves by itself).
//!   `config_fault` = apply_config (options variant % 10) on a fresh handle with a storage fault at
//!   one of its config writes (variant / 10: 0 cold fails, 1 hot fails, 2 cold stored but error,
//!   3 hot stored but error); the handle is kept and ops named `h_<op>` run on it; `keep` keeps a
//!   fresh handle.  Per op three views of the flag are printed: `ao` what a fresh `open` reads
//!   (the hot copy for hot/cold), `c` the stored cold config, `h` the kept handle's memory.
use std::collections::{BTreeMap, BTreeSet};
use std::sync::{Arc, RwLock};

use anyhow::{Result, anyhow};
use bytes::Bytes;
use rustic_core::repofile::{MasterKey, SnapshotFile, SnapshotModification};
use rustic_core::{
    ALL_FILE_TYPES, BackupOptions, BytesList, ConfigOptions, ErrorKind, Excludes, FileType, Id, KeyOptions,
    LimitOption, PruneOptions, ReadBackend, RepairIndexOptions, RepairSnapshotsOptions, RewriteOptions,
    RewriteTreesOptions, RusticError, RusticResult, StringList, WriteBackend, last_modified_node,
};
use verif_harness::e2e::*;
use verif_harness::{SplitMix, Toks, for_each_case, id_from_u64};

// ---------------------------------------------------------------- permissive store
/// A map store that behaves like a real file backend: a write to an existing name replaces the
/// file, the config file has one fixed name.
#[derive(Debug, Default)]
struct MapBackend {
    map: RwLock<BTreeMap<(u8, Id), Bytes>>,
    /// removing a missing file succeeds (wrap mode: `delete_list` stops at the first error, which
    /// would make the number of forwarded removes depend on the store content)
    lenient_remove: bool,
    /// fault on the next writes of the config file: 1 = fail, nothing stored; 2 = stored, but an
    /// error is reported (a backend that persists the file and then loses the connection)
    config_fault: std::sync::atomic::AtomicU8,
}
fn tnum(t: FileType) -> u8 {
    match t {
        FileType::Config => 0,
        FileType::Index => 1,
        FileType::Key => 2,
        FileType::Snapshot => 3,
        FileType::Pack => 4,
    }
}
fn tof(n: u64) -> FileType {
    match n {
        0 => FileType::Config,
        1 => FileType::Index,
        2 => FileType::Key,
        3 => FileType::Snapshot,
        _ => FileType::Pack,
    }
}
fn key_of(t: FileType, id: &Id) -> (u8, Id) {
    if t == FileType::Config { (0, Id::default()) } else { (tnum(t), *id) }
}
impl MapBackend {
    fn snapshot(&self) -> BTreeMap<(u8, Id), Bytes> {
        self.map.read().unwrap().clone()
    }
    fn raw_remove(&self, t: FileType, id: &Id) -> bool {
        self.map.write().unwrap().remove(&key_of(t, id)).is_some()
    }
    fn raw_put(&self, t: FileType, id: &Id, b: Bytes) {
        let _ = self.map.write().unwrap().insert(key_of(t, id), b);
    }
    fn raw_get(&self, t: FileType, id: &Id) -> Option<Bytes> {
        self.map.read().unwrap().get(&key_of(t, id)).cloned()
    }
    fn ids(&self, t: FileType) -> Vec<Id> {
        self.map.read().unwrap().keys().filter(|k| k.0 == tnum(t)).map(|k| k.1).collect()
    }
}
fn nf(t: FileType, id: &Id) -> Box<RusticError> {
    RusticError::new(ErrorKind::Backend, format!("no such file {}/{}", t.dirname(), id.to_hex().as_str()))
}
impl ReadBackend for MapBackend {
    fn location(&self) -> String {
        "c15-map".into()
    }
    fn list_with_size(&self, tpe: FileType) -> RusticResult<Vec<(Id, u32)>> {
        Ok(self.map.read().unwrap().iter().filter(|(k, _)| k.0 == tnum(tpe)).map(|(k, v)| (k.1, v.len() as u32)).collect())
    }
    fn read_full(&self, tpe: FileType, id: &Id) -> RusticResult<Bytes> {
        self.raw_get(tpe, id).ok_or_else(|| nf(tpe, id))
    }
    fn read_partial(&self, tpe: FileType, id: &Id, _c: bool, offset: u32, length: u32) -> RusticResult<Bytes> {
        let b = self.raw_get(tpe, id).ok_or_else(|| nf(tpe, id))?;
        let (o, l) = (offset as usize, length as usize);
        if o + l > b.len() {
            return Err(RusticError::new(ErrorKind::Backend, "read beyond end"));
        }
        Ok(b.slice(o..o + l))
    }
    fn warmup_path(&self, tpe: FileType, id: &Id) -> String {
        format!("{}/{}", tpe.dirname(), id.to_hex().as_str())
    }
    fn needs_warm_up(&self) -> bool {
        false
    }
}
impl WriteBackend for MapBackend {
    fn create(&self) -> RusticResult<()> {
        Ok(())
    }
    fn write_bytes(&self, tpe: FileType, id: &Id, _c: bool, content: BytesList) -> RusticResult<()> {
        let mut v = Vec::new();
        for b in content.slice() {
            v.extend_from_slice(b);
        }
        if tpe == FileType::Config {
            match self.config_fault.load(std::sync::atomic::Ordering::SeqCst) {
                1 => return Err(RusticError::new(ErrorKind::Backend, "injected fault: config not written")),
                2 => {
                    self.raw_put(tpe, id, Bytes::from(v));
                    return Err(RusticError::new(ErrorKind::Backend, "injected fault: config written, error reported"));
                }
                _ => {}
            }
        }
        self.raw_put(tpe, id, Bytes::from(v));
        Ok(())
    }
    fn remove(&self, tpe: FileType, id: &Id, _c: bool) -> RusticResult<()> {
        if self.raw_remove(tpe, id) || self.lenient_remove { Ok(()) } else { Err(nf(tpe, id)) }
    }
}

// ---------------------------------------------------------------- effect classification
fn tname(t: u8) -> &'static str {
    ["config", "index", "key", "snapshot", "pack"][t as usize]
}

/// classes of the mutating calls in `log`, judged against the store content `pre` before the op
/// and `post` after it: W:<type>:new | W:<type>:same (existing name, identical bytes) |
/// W:<type>:over (existing name, bytes replaced) | R:<type>
/// `auth`: for the hot part of a hot/cold repository the content of the cold part after the op.
/// Replacing an incomplete hot copy by exactly the bytes of the cold file is class `resync`
/// (the hot/cold repair recreating the hot store), not `over`: no stored content is replaced.
fn classify(part: &str, log: &[Op], pre: &BTreeMap<(u8, Id), Bytes>, post: &BTreeMap<(u8, Id), Bytes>, out: &mut BTreeMap<String, usize>) {
    classify_auth(part, log, pre, post, None, out);
}
fn classify_auth(part: &str, log: &[Op], pre: &BTreeMap<(u8, Id), Bytes>, post: &BTreeMap<(u8, Id), Bytes>, auth: Option<&BTreeMap<(u8, Id), Bytes>>, out: &mut BTreeMap<String, usize>) {
    let mut live: BTreeSet<(u8, Id)> = pre.keys().copied().collect();
    for op in log {
        let k = key_of(op.tpe, &op.id);
        let c = match op.kind {
            OpKind::Write => {
                let cls = if live.contains(&k) {
                    // bytes replaced?  (a later remove hides the final content: count as over)
                    match (pre.get(&k), post.get(&k)) {
                        (Some(a), Some(b)) if a == b => "same",
                        (Some(_), Some(b)) if auth.is_some_and(|m| m.get(&k) == Some(b)) => "resync",
                        _ => "over",
                    }
                } else {
                    "new"
                };
                let _ = live.insert(k);
                format!("W:{part}{}:{cls}", tname(k.0))
            }
            OpKind::Remove => {
                let _ = live.remove(&k);
                format!("R:{part}{}", tname(k.0))
            }
            _ => continue,
        };
        *out.entry(c).or_default() += 1;
    }
}

// ---------------------------------------------------------------- wrap mode
fn wrap_case(line: &str) -> String {
    let mut t = Toks::new(line);
    let dry = t.u() == 1;
    let n = t.u();
    let store = Arc::new(MapBackend { lenient_remove: true, ..Default::default() });
    // a few files to read / remove / overwrite
    for ty in 0..5u64 {
        for i in 1..=4u64 {
            store.raw_put(tof(ty), &id_from_u64(i), Bytes::from(vec![ty as u8; 40]));
        }
    }
    let rec = RecBackend::new(store.clone(), "inner");
    rec.set_plan(FaultPlan { record_reads: true, ..Default::default() });
    let mut dr = rustic_core::verif_hooks::c15::dry_run_backend(rec.clone(), dry);
    let mut outs = Vec::new();
    for _ in 0..n {
        let c = t.s();
        let _ = match c {
            "wb" => { let ty = tof(t.u()); let id = id_from_u64(t.u()); dr.write_bytes(ty, &id, false, vec![7u8; 33]) }
            "rm" => { let ty = tof(t.u()); let id = id_from_u64(t.u()); dr.remove(ty, &id, false) }
            "cr" => dr.create(),
            "hw" => { let ty = tof(t.u()); dr.hash_write_full(ty, b"{\"x\":1}").is_some() }
            "hu" => { let ty = tof(t.u()); dr.hash_write_full_uncompressed(ty, b"{\"x\":1}").is_some() }
            "sf" => { let n = t.u(); dr.save_file_snapshot(n).is_some() }
            "su" => dr.save_file_uncompressed_config().is_some(),
            "sl" => { let n = t.u(); let k = t.u(); dr.save_list_snapshots(n, k) }
            "dl" => { let ty = tof(t.u()); let k = t.u(); let ids: Vec<Id> = (0..k).map(|_| id_from_u64(t.u())).collect(); dr.delete_list(ty, &ids) }
            "sz" => { dr.set_zstd(Some(3)); true }
            "sv" => { dr.set_extra_verify(false); true }
            "rf" => { let ty = tof(t.u()); let id = id_from_u64(t.u()); dr.read_full(ty, &id) }
            "ls" => { let ty = tof(t.u()); dr.list_with_size(ty) > 0 }
            "rp" => { let ty = tof(t.u()); let id = id_from_u64(t.u()); dr.read_partial(ty, &id, 1, 5) }
            x => panic!("unknown call {x}"),
        };
        // what reached the inner backend (delete_list / save_list run in parallel: sort)
        let mut v: Vec<String> = rec
            .take_log()
            .iter()
            .map(|o| match o.kind {
                OpKind::Write => {
                    let n = verif_harness::id_to_u64(&o.id);
                    // ids chosen by the caller are small numbers; hashed ids are not
                    if n >= 1 && n <= 1000 && o.id == id_from_u64(n) { format!("W{}:{}", tnum(o.tpe), n) } else { format!("W{}:H", tnum(o.tpe)) }
                }
                OpKind::Remove => format!("R{}:{}", tnum(o.tpe), verif_harness::id_to_u64(&o.id)),
                OpKind::ReadFull | OpKind::ReadPartial => format!("r{}:{}", tnum(o.tpe), verif_harness::id_to_u64(&o.id)),
                OpKind::List => format!("l{}", tnum(o.tpe)),
                OpKind::WarmUp => "wu".into(),
                OpKind::Create => "cr".into(),
            })
            .collect();
        v.sort();
        outs.push(if v.is_empty() { "-".to_string() } else { v.join(",") });
    }
    outs.join(" ")
}

// ---------------------------------------------------------------- seq mode
struct World {
    cold: Arc<MapBackend>,
    hot: Option<Arc<MapBackend>>,
    rec_cold: Arc<RecBackend>,
    rec_hot: Option<Arc<RecBackend>>,
    key: MasterKey,
    rng: SplitMix,
    dirs: Vec<tempfile::TempDir>,
    nbackup: usize,
    extra_key: Option<Id>,
    other: Option<Box<World>>,
    /// a handle that is kept across operations (ops named `h_<op>` run on it)
    kept: Option<RepoOpen>,
}

impl World {
    /// mode 0: one store; 1: hot/cold; 2: one store, fixed-size chunker with 64-byte chunks (a few
    /// MB of data give more blobs than the indexer holds before it saves an index file by itself)
    fn new(seed: u64, mode: u64) -> Result<Self> {
        let hotcold = mode == 1;
        let cold = Arc::new(MapBackend::default());
        let rec_cold = RecBackend::new(cold.clone(), "cold");
        let (hot, rec_hot) = if hotcold {
            let h = Arc::new(MapBackend::default());
            let r = RecBackend::new(h.clone(), "hot");
            (Some(h), Some(r))
        } else {
            (None, None)
        };
        let (repo, key) = init_repo(
            rec_cold.clone(),
            rec_hot.clone().map(|r| r as Arc<dyn WriteBackend>),
            &(if mode == 2 {
                ConfigOptions::default().set_chunker(rustic_core::repofile::Chunker::FixedSize).set_chunk_size(bytesize::ByteSize(64))
            } else {
                small_pack_config(6_000, 1_500)
            }),
            &repo_opts(),
        )?;
        drop(repo);
        Ok(Self { cold, hot, rec_cold, rec_hot, key, rng: SplitMix(seed), dirs: Vec::new(), nbackup: 0, extra_key: None, other: None, kept: None })
    }
    fn open(&self) -> Result<RepoOpen> {
        open_repo(self.rec_cold.clone(), self.rec_hot.clone().map(|r| r as Arc<dyn WriteBackend>), &self.key, &repo_opts())
    }
    /// append_only in the stored config of the cold part (read through `open_only_cold`)
    fn cold_ao(&self) -> Option<bool> {
        let bes = rustic_core::RepositoryBackends::new(self.rec_cold.clone(), self.rec_hot.clone().map(|r| r as Arc<dyn WriteBackend>));
        let repo = rustic_core::Repository::new(&repo_opts(), &bes).ok()?;
        let repo = repo.open_only_cold(&rustic_core::Credentials::Masterkey(self.key.clone())).ok()?;
        Some(repo.config().append_only == Some(true))
    }
    /// the handle an op runs on: the kept one for `h_` ops, a fresh one otherwise
    fn take(&mut self, same: bool) -> Result<RepoOpen> {
        if same { self.kept.take().ok_or_else(|| anyhow!("no kept handle")) } else { self.open() }
    }
    fn give(&mut self, same: bool, repo: RepoOpen) {
        if same { self.kept = Some(repo); }
    }
    fn new_source(&mut self) -> Result<std::path::PathBuf> {
        let tp = TreeParams { max_entries: 8, max_depth: 3, max_file: 9_000, odd_names: false, symlinks: true, hardlinks: false };
        let mut entries = gen_tree(&mut self.rng, &tp);
        // always at least two files with data so that packs exist
        for k in 0..2 {
            entries.push(Entry {
                path: format!("fix{k}_{}", self.nbackup).into(),
                kind: Kind::File(Content::Random { seed: self.rng.next(), len: 3000 + 2000 * k }),
                mode: 0o644,
                mtime: (1_600_000_000 + self.nbackup as i64, 0),
            });
        }
        let d = tempfile::tempdir()?;
        materialize(d.path(), &entries)?;
        let p = d.path().to_path_buf();
        self.dirs.push(d);
        self.nbackup += 1;
        Ok(p)
    }
    fn snaps(&self) -> Result<Vec<SnapshotFile>> {
        let mut s = self.open()?.get_all_snapshots()?;
        s.sort_by(|a, b| a.time.cmp(&b.time).then(a.id.cmp(&b.id)));
        Ok(s)
    }
}

fn refused(e: &anyhow::Error) -> bool {
    let s = format!("{e:?} {e}");
    s.contains("append-only")
}

/// run one op; Ok(()) / Err(e)
fn config_opts(variant: u64) -> ConfigOptions {
    match variant {
        0 => ConfigOptions::default().set_extra_verify(false),
        1 => ConfigOptions::default().set_append_only(false),
        2 => ConfigOptions::default().set_append_only(true),
        3 => ConfigOptions::default().set_append_only(false).set_compression(5),
        4 => ConfigOptions::default().set_compression(7),
        _ => ConfigOptions::default().set_treepack_size(bytesize::ByteSize(2_000u64 + variant)),
    }
}

fn run_op(w: &mut World, full_name: &str, flag: bool, dry: bool, variant: u64) -> Result<()> {
    let same = full_name.starts_with("h_");
    let name = full_name.strip_prefix("h_").unwrap_or(full_name);
    match name {
        "keep" => {
            w.kept = Some(w.open()?);
            Ok(())
        }
        "config_fault" => {
            // apply_config (options = variant % 10) on a fresh handle with a fault at one of its
            // config writes (variant / 10: 0 cold fails, 1 hot fails, 2 cold stored but error,
            // 3 hot stored but error); the handle is kept for the following `h_` ops
            use std::sync::atomic::Ordering::SeqCst;
            let k = variant / 10;
            if k % 2 == 1 && w.hot.is_none() { return Err(anyhow!("no hot part")); }
            let mut repo = w.open()?;
            let (part, code) = match k { 0 => (w.cold.clone(), 1), 1 => (w.hot.clone().unwrap(), 1), 2 => (w.cold.clone(), 2), _ => (w.hot.clone().unwrap(), 2) };
            part.config_fault.store(code, SeqCst);
            let r = repo.apply_config(&config_opts(variant % 10));
            part.config_fault.store(0, SeqCst);
            w.kept = Some(repo);
            let _ = r?;
            Ok(())
        }
        "bigbackup" => {
            // one file of 60 000 pairwise different 64-byte chunks
            let d = tempfile::tempdir()?;
            let mut data = Vec::with_capacity(64 * 60_000);
            for i in 0..60_000u64 {
                let mut c = [0u8; 64];
                c[..8].copy_from_slice(&(i ^ (variant << 40)).to_le_bytes());
                data.extend_from_slice(&c);
            }
            std::fs::write(d.path().join("big"), &data)?;
            let mut o = BackupOptions::default();
            o.dry_run = dry;
            let p = d.path().to_path_buf();
            w.dirs.push(d);
            let _ = backup_dir(w.open()?, &p, "big", Some(o))?;
            Ok(())
        }
        "backup" if variant == 2 || variant == 3 => {
            // the stdin branches of `backup`: source `-` with a stdin command (2) or the process' stdin (3;
            // the check runs the harness with an empty stdin)
            let mut o = BackupOptions::default().stdin_filename("stdin-c15");
            o.dry_run = dry;
            if variant == 2 {
                let cmd = format!("echo c15-stdin-data-{}-{}", w.nbackup, w.rng.next());
                o.stdin_command = Some(cmd.parse().map_err(|e| anyhow!("{e:?}"))?);
            }
            if flag {
                o.parent_opts.force = true;
            }
            w.nbackup += 1;
            let repo = w.open()?.to_indexed_ids()?;
            let _ = repo.backup(&o, &rustic_core::PathList::from_string("-")?, SnapshotFile::default())?;
            Ok(())
        }
        "backup" => {
            let src = if variant == 1 && !w.dirs.is_empty() { w.dirs[w.dirs.len() - 1].path().to_path_buf() } else { w.new_source()? };
            let mut o = BackupOptions::default();
            o.dry_run = dry;
            if flag {
                o.parent_opts.force = true;
            }
            let _ = backup_dir(w.open()?, &src, "src", Some(o))?;
            Ok(())
        }
        "forget" => {
            let s = w.snaps()?;
            let ids: Vec<_> = match variant {
                0 => s.iter().take(1).map(|x| x.id).collect(),
                1 => s.iter().map(|x| x.id).collect(),
                _ => s.iter().rev().take(1).map(|x| x.id).collect(),
            };
            if ids.is_empty() {
                return Err(anyhow!("nothing to forget"));
            }
            let repo = w.take(same)?;
            let r = repo.delete_snapshots(&ids);
            w.give(same, repo);
            r?;
            Ok(())
        }
        "prune" => {
            let z = rustic_core::jiff::Span::new();
            let o = match variant {
                0 => PruneOptions::default(),
                1 => PruneOptions::default().instant_delete(true),
                2 => PruneOptions::default().instant_delete(true).early_delete_index(true),
                3 => PruneOptions::default().keep_delete(z).keep_pack(z).max_unused(LimitOption::Percentage(0)).max_repack(LimitOption::Unlimited),
                4 => PruneOptions::default().repack_all(true).max_repack(LimitOption::Unlimited).keep_pack(z),
                5 => PruneOptions::default().keep_delete(z).keep_pack(z).instant_delete(true).max_unused(LimitOption::Percentage(0)).max_repack(LimitOption::Unlimited).fast_repack(true),
                _ => PruneOptions::default().max_unused(LimitOption::Unlimited).keep_delete(z),
            };
            let repo = w.take(same)?;
            let r = repo.prune_plan(&o).and_then(|plan| repo.prune(&o, plan));
            w.give(same, repo);
            r?;
            Ok(())
        }
        "repair_index" => {
            let o = RepairIndexOptions::default().read_all(flag);
            let repo = w.take(same)?;
            let r = repo.repair_index(&o, dry);
            w.give(same, repo);
            r?;
            Ok(())
        }
        "repair_snapshots" => {
            let repo = w.take(same)?.to_indexed()?;
            let o = RepairSnapshotsOptions::default().delete(flag);
            let r = repo.get_all_snapshots().and_then(|snaps| repo.repair_snapshots(&o, snaps, dry));
            w.give(same, repo.drop_index());
            r?;
            Ok(())
        }
        "rewrite" => {
            let m = SnapshotModification::default().add_tags(vec!["c15tag".parse::<StringList>().map_err(|e| anyhow!("{e:?}"))?]).set_label(format!("l{variant}"));
            let mut o = RewriteOptions::default().modification(m).forget(flag);
            o.dry_run = dry;
            if variant % 2 == 0 {
                let repo = w.take(same)?;
                let r = repo.get_all_snapshots().and_then(|snaps| repo.rewrite_snapshots(snaps, &o));
                w.give(same, repo);
                let _ = r?;
            } else {
                let repo = w.take(same)?.to_indexed()?;
                let to = RewriteTreesOptions::default().excludes(Excludes::default().globs(vec!["!fix0*".to_string(), "!**/fix0*".to_string()]));
                let r = repo.get_all_snapshots().and_then(|snaps| repo.rewrite_snapshots_and_trees(snaps, &o, &to));
                w.give(same, repo.drop_index());
                let _ = r?;
            }
            Ok(())
        }
        "config" => {
            let o = config_opts(variant);
            let mut repo = w.take(same)?;
            let r = repo.apply_config(&o);
            w.give(same, repo);
            let _ = r?;
            Ok(())
        }
        "add_key" => {
            let id = w.open()?.add_key("pw-c15", &KeyOptions::default())?;
            w.extra_key = Some(*id);
            Ok(())
        }
        "delete_key" => {
            let id = match w.extra_key.take() {
                Some(i) => i,
                None => {
                    // not counted as part of the op under test
                    let i = w.open()?.add_key("pw-c15", &KeyOptions::default())?;
                    let _ = w.rec_cold.take_log();
                    if let Some(h) = &w.rec_hot { let _ = h.take_log(); }
                    *i
                }
            };
            w.open()?.delete_key(&id.into())?;
            Ok(())
        }
        "copy" => {
            // copy INTO this repository from a second one
            if w.other.is_none() || variant == 1 {
                let mut o = World::new(w.rng.next(), 0)?;
                for _ in 0..2 {
                    let src = o.new_source()?;
                    let _ = backup_dir(o.open()?, &src, "src", None)?;
                }
                w.other = Some(Box::new(o));
            }
            let o = w.other.as_ref().unwrap();
            let src = o.open()?.to_indexed()?;
            let snaps = src.get_all_snapshots()?;
            let dst = w.open()?.to_indexed_ids()?;
            src.copy(&dst, snaps.iter())?;
            Ok(())
        }
        "merge" => {
            let repo = w.open()?.to_indexed()?;
            let snaps = repo.get_all_snapshots()?;
            if snaps.is_empty() {
                return Err(anyhow!("nothing to merge"));
            }
            let _ = repo.merge_snapshots(&snaps, &last_modified_node, SnapshotFile::default())?;
            Ok(())
        }
        "save_snapshots" => {
            let repo = w.open()?;
            let mut snaps = repo.get_all_snapshots()?;
            snaps.truncate(2);
            for s in &mut snaps {
                s.label = format!("saved{variant}");
            }
            repo.save_snapshots(snaps)?;
            Ok(())
        }
        "hotcold" => {
            let repo = w.open()?;
            if flag { repo.repair_hotcold_packs(dry)?; } else { repo.repair_hotcold_except_packs(dry)?; }
            Ok(())
        }
        "init_hot" => {
            w.open()?.init_hot()?;
            Ok(())
        }
        // ---- damage (not library operations: applied to the store directly, never recorded)
        "dmg_pack" => {
            // remove one pack file (variant picks which); with hot/cold from both parts
            let ids = w.cold.ids(FileType::Pack);
            if ids.is_empty() { return Err(anyhow!("no pack")); }
            let id = ids[(variant as usize) % ids.len()];
            let _ = w.cold.raw_remove(FileType::Pack, &id);
            if let Some(h) = &w.hot { let _ = h.raw_remove(FileType::Pack, &id); }
            Ok(())
        }
        "dmg_index" => {
            let ids = w.cold.ids(FileType::Index);
            if ids.is_empty() { return Err(anyhow!("no index")); }
            let id = ids[(variant as usize) % ids.len()];
            let _ = w.cold.raw_remove(FileType::Index, &id);
            if let Some(h) = &w.hot { let _ = h.raw_remove(FileType::Index, &id); }
            Ok(())
        }
        "dmg_junkpack" => {
            let id = id_from_u64(0xDEAD_0000 + variant);
            w.cold.raw_put(FileType::Pack, &id, Bytes::from(vec![1u8; 100]));
            Ok(())
        }
        "dmg_hot_missing" => {
            // remove snapshot / index / tree-pack files from the hot part only
            let Some(h) = &w.hot else { return Err(anyhow!("no hot part")); };
            for t in [FileType::Snapshot, FileType::Index, FileType::Pack, FileType::Key] {
                let ids = h.ids(t);
                if let Some(id) = ids.get((variant as usize) % ids.len().max(1)) { let _ = h.raw_remove(t, id); }
            }
            Ok(())
        }
        "dmg_cold_missing" => {
            let Some(_) = &w.hot else { return Err(anyhow!("no hot part")); };
            for t in [FileType::Snapshot, FileType::Index] {
                let ids = w.cold.ids(t);
                if ids.len() > 1 { let _ = w.cold.raw_remove(t, &ids[(variant as usize) % ids.len()]); }
            }
            Ok(())
        }
        "dmg_hot_truncate" => {
            // a hot copy whose size differs from the cold file (interrupted upload)
            let Some(h) = &w.hot else { return Err(anyhow!("no hot part")); };
            let t = if flag { FileType::Index } else { FileType::Snapshot };
            let ids = h.ids(t);
            if ids.is_empty() { return Err(anyhow!("nothing")); }
            let id = ids[(variant as usize) % ids.len()];
            let b = h.raw_get(t, &id).unwrap();
            h.raw_put(t, &id, b.slice(0..b.len() / 2));
            Ok(())
        }
        x => Err(anyhow!("unknown op {x}")),
    }
}

fn seq_case(line: &str) -> String {
    let mut t = Toks::new(line);
    let seed = t.u();
    let mode = t.u();
    let hotcold = mode == 1;
    let n = t.u();
    let mut w = match World::new(seed, mode) {
        Ok(w) => w,
        Err(e) => return format!("setup-failed {e:?}").replace('\n', " "),
    };
    let mut outs = Vec::new();
    for _ in 0..n {
        let name = t.s().to_string();
        let flag = t.u() == 1;
        let dry = t.u() == 1;
        let variant = t.u();
        // three views of the flag: what a fresh handle reads (the hot copy for hot/cold), what the
        // stored cold config says, what the kept handle holds in memory
        let ao = w.open().map(|r| r.config().append_only == Some(true)).unwrap_or(false);
        let cold_ao = w.cold_ao().map_or("x".to_string(), |b| u8::from(b).to_string());
        let handle_ao = w.kept.as_ref().map_or("-".to_string(), |r| u8::from(r.config().append_only == Some(true)).to_string());
        let _ = w.rec_cold.take_log();
        if let Some(h) = &w.rec_hot { let _ = h.take_log(); }
        let pre_c = w.cold.snapshot();
        let pre_h = w.hot.as_ref().map(|h| h.snapshot());
        let threads = || std::fs::read_dir("/proc/self/task").map(|d| d.count()).unwrap_or(0);
        let threads_before = threads();
        let r = std::panic::catch_unwind(std::panic::AssertUnwindSafe(|| run_op(&mut w, &name, flag, dry, variant)));
        // An operation that failed, and a dry-run, may leave detached packer threads behind that
        // still write a pack after the call returned.  Barrier: wait until the number of threads of
        // the process and the log are quiet; writes that arrive after the return are counted (`late`)
        // and attributed to the operation that caused them.
        let len = |w: &World| w.rec_cold.log.lock().unwrap().len() + w.rec_hot.as_ref().map_or(0, |h| h.log.lock().unwrap().len());
        let at_return = len(&w);
        if dry || !matches!(r, Ok(Ok(()))) {
            // every thread the operation spawned has exited (thread count back at the level before the
            // call): nothing can write any more - done.  Otherwise (a thread pool grew, or a detached
            // writer is still pending) wait until thread count and log have been quiet for 180 ms.
            let mut last = (threads(), len(&w));
            let mut stable = 0;
            for _ in 0..200 {
                if last.0 <= threads_before && stable >= 1 { break; }
                std::thread::sleep(std::time::Duration::from_millis(15));
                let now = (threads(), len(&w));
                if now == last { stable += 1; if stable >= 12 { break; } } else { stable = 0; last = now; }
            }
        }
        let late = len(&w) - at_return;
        let mut cls = BTreeMap::new();
        let post_c = w.cold.snapshot();
        let part = if hotcold { "cold." } else { "" };
        classify(part, &w.rec_cold.take_log(), &pre_c, &post_c, &mut cls);
        if let (Some(h), Some(rh), Some(pre_h)) = (&w.hot, &w.rec_hot, &pre_h) {
            classify_auth("hot.", &rh.take_log(), pre_h, &h.snapshot(), Some(&post_c), &mut cls);
        }
        // files of the protected classes that vanished or changed (independent of the log)
        let mut lost = 0usize;
        if !name.starts_with("dmg_") {
            for (k, v) in &pre_c {
                if matches!(k.0, 1 | 3 | 4) && post_c.get(k) != Some(v) { lost += 1; }
            }
            if let (Some(h), Some(pre_h)) = (&w.hot, &pre_h) {
                let post_h = h.snapshot();
                for (k, v) in pre_h {
                    // a hot copy that now equals the cold file was re-synchronised, not lost
                    if matches!(k.0, 1 | 3 | 4) && post_h.get(k) != Some(v) && !(post_h.get(k).is_some() && post_h.get(k) == post_c.get(k)) { lost += 1; }
                }
            }
        }
        let res = match &r {
            Ok(Ok(())) => "ok".to_string(),
            Ok(Err(e)) if refused(e) => "refused".to_string(),
            Ok(Err(e)) => {
                if std::env::var("C15_DEBUG").is_ok() { eprintln!("op {name}: {e:?}"); }
                "err".to_string()
            }
            Err(_) => "panic".to_string(),
        };
        let eff: Vec<String> = cls.iter().map(|(k, v)| format!("{k}*{v}")).collect();
        outs.push(format!("{name}:ao={},c={cold_ao},h={handle_ao}:{res}:lost={lost},late={late}:{}", u8::from(ao), if eff.is_empty() { "-".to_string() } else { eff.join(",") }));
    }
    outs.join(" ; ")
}

fn main() {
    let mode = std::env::args().nth(2).unwrap_or_else(|| "seq".into());
    if mode == "wrap" { for_each_case(wrap_case) } else { for_each_case(seq_case) }
}
