//! C02 end to end: histories of backup / forget / resurrect / prune on a real
//! repository (in-memory backend, public API only).  After every step the
//! repository must pass `check --read-data` and every remaining snapshot must
//! restore to exactly the bytes recorded from the source directory.
//!
//! One case per line, integers only:
//!
//! seed pack_size chunk_size nops OP*
//! OP := 0 mseed nmut                      backup after nmut random mutations
//!     | 3                                 collision backup (emptydir + file with the empty-tree bytes)
//!     | 5                                 backup after making sure the empty directory `emptydir` exists (only that)
//!     | 6                                 backup after making sure the file `treebytes` (empty-tree bytes) exists (only that)
//!     | 1 mask                            forget the remaining snapshots selected by mask
//!     | 4 k                               resurrect forgotten snapshot k (verification deferred to the next prune)
//!     | 2 instant early fast unc all noresize cacheable mu_kind mu_val mr_kind mr_val keep_pack_s keep_delete_s
//!     | 8 size                            add a new file of `size` random bytes, backup
//!     | 7                                 remove the file added last by op 8 (if any), backup
//!     | 9 ms                              sleep
//!
//! Besides check + restore, every prune is watched for the second sentence of the property ("packs that
//! prune only marks for deletion stay available at least for the configured keep-delete time and are
//! brought back if a snapshot needs them again"):
//!   early_delete      a pack file disappears in a prune without instant-delete although it was not marked
//!                     before, or was marked by a prune that started less than keep_delete before this one ended
//!   mark_time         an entry that is NEW in `packs_to_delete` carries no time, or a time outside
//!                     [start of the prune that wrote it, end of that prune call] (keep-delete would be counted from
//!                     somewhere else; both the plan time and the time the index is written are inside); an entry
//!                     that STAYS in `packs_to_delete` changed its time
//!   index_entry_lost  a pack file that exists after the prune and was listed by the index before is listed in
//!                     neither section afterwards (it can never be brought back)
//! These three are "soft": the history goes on, a later check/restore/prune failure is reported instead (with
//! `after=<soft finding>`), otherwise the soft finding is reported at the end.
//!
//! Result: `ok steps=.. snaps=.. prunes=.. packs_removed=.. packs_marked_max=.. recovered=.. repacked=..`
//!      or `FAIL step=.. op=.. what=.. lost=.. lost_collide=.. detail=..`
use bytesize::ByteSize;
use rustic_core::jiff::Span;
use rustic_core::repofile::{Chunker, IndexFile, MasterKey, Metadata, Node, NodeType, PackId, SnapshotFile};
use rustic_core::{
    BackupOptions, CheckOptions, ConfigOptions, Credentials, KeyOptions, LimitOption, LocalSourceSaveOptions,
    LsOptions, OpenStatus, PathList, PruneOptions, Repository, RepositoryBackends, RepositoryOptions, TimeOption,
};
use rustic_testing::backend::in_memory_backend::InMemoryBackend;
use std::collections::{BTreeMap, BTreeSet};
use std::ffi::OsStr;
use std::fs;
use std::panic::{AssertUnwindSafe, catch_unwind};
use std::path::{Path, PathBuf};
use std::sync::Arc;
use std::time::{Duration, SystemTime};
use verif_harness::*;

/// name of the snapshot root directory (`as_path`), so that trees do not depend on the tempdir name
const ROOT: &str = "r";
/// the serialisation of an empty tree: as a file content it gives a data blob with the id of the empty tree blob
const EMPTY_TREE: &[u8] = b"{\"nodes\":[]}\n";
const BASE_TIME: u64 = 1_700_000_000;

type Blob = (bool, String); // (is_tree, id hex)
type Files = BTreeMap<String, Option<Vec<u8>>>;

struct Rec {
    snap: SnapshotFile,
    files: Files,
    blobs: BTreeSet<Blob>,
    /// while forgotten: some prune since then was allowed to delete its data for good
    /// (instant-delete, or a keep-delete shorter than the history can last)
    maybe_gone: bool,
}

/// One index file reduced to what the diagnosis needs.
#[derive(Default)]
struct IndexView {
    packs: Vec<(String, Vec<Blob>)>,
    to_delete: Vec<(String, Vec<Blob>)>,
    /// mark time (ms since the epoch) of the entries in `to_delete`
    del_time: BTreeMap<String, Option<i64>>,
}

fn short(e: impl std::fmt::Display) -> String {
    let s: String = e
        .to_string()
        .chars()
        .map(|c| if c.is_whitespace() { '_' } else { c })
        .collect();
    let mut out = String::new();
    let mut last_us = false;
    for c in s.chars() {
        if c == '_' && last_us {
            continue;
        }
        last_us = c == '_';
        out.push(c);
        if out.len() >= 200 {
            break;
        }
    }
    if out.is_empty() { "-".into() } else { out }
}

fn guard<T>(f: impl FnOnce() -> Result<T, String>) -> Result<T, String> {
    match catch_unwind(AssertUnwindSafe(f)) {
        Ok(r) => r,
        Err(p) => {
            let msg = p
                .downcast_ref::<String>()
                .cloned()
                .or_else(|| p.downcast_ref::<&str>().map(|s| (*s).to_string()))
                .unwrap_or_else(|| "?".into());
            Err(format!("panic:{msg}"))
        }
    }
}

// ------------------------------------------------------------------ source dir

struct Source {
    dir: tempfile::TempDir,
    names: u64,
    tick: u64,
    chunk: u64,
}

impl Source {
    fn root(&self) -> &Path {
        self.dir.path()
    }
    fn stamp(&mut self, p: &Path) {
        self.tick += 1;
        let t = SystemTime::UNIX_EPOCH + Duration::from_secs(BASE_TIME + self.tick);
        let f = fs::OpenOptions::new().write(true).open(p).expect("open for stamp");
        f.set_modified(t).expect("set mtime");
    }
    fn write(&mut self, p: &Path, data: &[u8]) {
        fs::write(p, data).expect("write");
        self.stamp(p);
    }
    fn fresh_name(&mut self) -> String {
        self.names += 1;
        format!("f{}", self.names)
    }
    /// sorted relative paths below the root: (rel, is_dir)
    fn walk(&self) -> Vec<(String, bool)> {
        fn rec(base: &Path, rel: &str, out: &mut Vec<(String, bool)>) {
            let mut es: Vec<_> = fs::read_dir(base).expect("read_dir").map(|e| e.expect("entry")).collect();
            es.sort_by_key(|e| e.file_name());
            for e in es {
                let name = e.file_name().into_string().expect("utf8 name");
                let r = if rel.is_empty() { name.clone() } else { format!("{rel}/{name}") };
                let is_dir = e.file_type().expect("ft").is_dir();
                out.push((r.clone(), is_dir));
                if is_dir {
                    rec(&e.path(), &r, out);
                }
            }
        }
        let mut out = Vec::new();
        rec(self.root(), "", &mut out);
        out
    }
    fn files(&self) -> Vec<String> {
        self.walk().into_iter().filter(|x| !x.1).map(|x| x.0).collect()
    }
    fn dirs(&self) -> Vec<String> {
        self.walk().into_iter().filter(|x| x.1).map(|x| x.0).collect()
    }
    fn random_bytes(&self, rng: &mut SplitMix, n: u64) -> Vec<u8> {
        let mut v = Vec::with_capacity(n as usize + 8);
        // one case in four: a repeated chunk, so that one file contains duplicate blobs
        if n > self.chunk && rng.below(4) == 0 {
            let pat: Vec<u8> = (0..self.chunk).map(|_| rng.next() as u8).collect();
            while (v.len() as u64) < n {
                v.extend_from_slice(&pat);
            }
        } else {
            while (v.len() as u64) < n {
                v.extend_from_slice(&rng.next().to_le_bytes());
            }
        }
        v.truncate(n as usize);
        v
    }
    fn new_content(&self, rng: &mut SplitMix) -> Vec<u8> {
        let files = self.files();
        if !files.is_empty() && rng.below(4) == 0 {
            let f = &files[rng.below(files.len() as u64) as usize];
            return fs::read(self.root().join(f)).expect("read");
        }
        let n = rng.below(6 * self.chunk + 1);
        self.random_bytes(rng, n)
    }
    fn create_file_in(&mut self, rng: &mut SplitMix, dir_rel: &str) {
        let data = self.new_content(rng);
        let name = self.fresh_name();
        let p = self.root().join(dir_rel).join(name);
        self.write(&p, &data);
    }
    fn mutate(&mut self, rng: &mut SplitMix) {
        let files = self.files();
        let dirs = self.dirs();
        let pick = |rng: &mut SplitMix, v: &[String]| v[rng.below(v.len() as u64) as usize].clone();
        match rng.below(11) {
            0..=2 => {
                // create a file in the root or in an existing directory
                let k = rng.below(dirs.len() as u64 + 1) as usize;
                let d = if k == 0 { String::new() } else { dirs[k - 1].clone() };
                self.create_file_in(rng, &d);
            }
            3 => {
                if files.is_empty() {
                    return self.create_file_in(rng, "");
                }
                // overwrite with new content of another length
                let f = self.root().join(pick(rng, &files));
                let old = fs::metadata(&f).expect("meta").len();
                let mut n = rng.below(6 * self.chunk + 1);
                if n == old {
                    n += 1;
                }
                let data = self.random_bytes(rng, n);
                self.write(&f, &data);
            }
            4 => {
                if files.is_empty() {
                    return self.create_file_in(rng, "");
                }
                let f = self.root().join(pick(rng, &files));
                let mut data = fs::read(&f).expect("read");
                let n = 1 + rng.below(2 * self.chunk);
                let add = self.random_bytes(rng, n);
                data.extend_from_slice(&add);
                self.write(&f, &data);
            }
            5 => {
                if files.is_empty() {
                    return self.create_file_in(rng, "");
                }
                let f = self.root().join(pick(rng, &files));
                let mut data = fs::read(&f).expect("read");
                if data.is_empty() {
                    let n = 1 + rng.below(self.chunk);
                    data = self.random_bytes(rng, n);
                } else {
                    let n = rng.below(data.len() as u64) as usize;
                    data.truncate(n);
                }
                self.write(&f, &data);
            }
            6 | 7 => {
                if files.is_empty() {
                    return self.create_file_in(rng, "");
                }
                fs::remove_file(self.root().join(pick(rng, &files))).expect("rm");
            }
            8 | 9 => {
                // a sub directory (depth <= 2) with files inside
                let tops: Vec<String> = dirs.iter().filter(|d| !d.contains('/')).cloned().collect();
                let parent = if !tops.is_empty() && rng.below(2) == 0 { pick(rng, &tops) } else { String::new() };
                let name = format!("d{}", rng.below(3));
                let rel = if parent.is_empty() { name } else { format!("{parent}/{name}") };
                fs::create_dir_all(self.root().join(&rel)).expect("mkdir");
                for _ in 0..rng.below(3) {
                    self.create_file_in(rng, &rel);
                }
            }
            _ => {
                if dirs.is_empty() {
                    return self.create_file_in(rng, "");
                }
                fs::remove_dir_all(self.root().join(pick(rng, &dirs))).expect("rmdir");
            }
        }
    }
    /// directory times do not carry information here: make them constant
    fn normalise_dirs(&self) {
        let t = SystemTime::UNIX_EPOCH + Duration::from_secs(BASE_TIME);
        let mut ds: Vec<PathBuf> = self.dirs().into_iter().map(|d| self.root().join(d)).collect();
        ds.push(self.root().to_path_buf());
        for d in ds {
            if let Ok(f) = fs::File::open(&d) {
                let _ = f.set_modified(t);
            }
        }
    }
    /// the expected content of a snapshot taken now, keyed by the path inside the snapshot
    fn record(&self) -> Files {
        let mut m = Files::new();
        let entries = self.walk();
        if entries.is_empty() {
            // the backup of an empty directory gives a snapshot with an empty root tree
            // (no node for the directory itself)
            return m;
        }
        let _ = m.insert(ROOT.to_string(), None);
        for (rel, is_dir) in entries {
            let key = format!("{ROOT}/{rel}");
            let v = if is_dir { None } else { Some(fs::read(self.root().join(&rel)).expect("read")) };
            let _ = m.insert(key, v);
        }
        m
    }
}

// ------------------------------------------------------------------ repository access

struct Ctx {
    be: Arc<InMemoryBackend>,
    cred: Credentials,
}

impl Ctx {
    /// a handle as a new process would get it
    fn open(&self) -> Result<Repository<OpenStatus>, String> {
        let bes = RepositoryBackends::new(self.be.clone(), None);
        let opts = RepositoryOptions::default().no_cache(true);
        Repository::new(&opts, &bes)
            .map_err(|e| short(format!("new:{e}")))?
            .open(&self.cred)
            .map_err(|e| short(format!("open:{e}")))
    }

    fn index(&self) -> Result<Vec<IndexView>, String> {
        let repo = self.open()?;
        let mut out = Vec::new();
        for r in repo.stream_files::<IndexFile>().map_err(short)? {
            let (_, f) = r.map_err(short)?;
            let conv = |ps: &Vec<rustic_core::repofile::IndexPack>| {
                ps.iter()
                    .map(|p| {
                        (
                            p.id.to_hex().as_str().to_string(),
                            p.blobs
                                .iter()
                                .map(|b| {
                                    (
                                        b.tpe == rustic_core::repofile::BlobType::Tree,
                                        b.id.to_hex().as_str().to_string(),
                                    )
                                })
                                .collect::<Vec<Blob>>(),
                        )
                    })
                    .collect::<Vec<_>>()
            };
            let del_time = f
                .packs_to_delete
                .iter()
                .map(|p| (p.id.to_hex().as_str().to_string(), p.time.map(|t| t.as_millisecond())))
                .collect();
            out.push(IndexView { packs: conv(&f.packs), to_delete: conv(&f.packs_to_delete), del_time });
        }
        Ok(out)
    }

    fn pack_list(&self) -> Result<BTreeSet<String>, String> {
        let repo = self.open()?;
        Ok(repo
            .list::<PackId>()
            .map_err(short)?
            .map(|p| p.to_hex().as_str().to_string())
            .collect())
    }
}

fn root_node(snap: &SnapshotFile) -> Node {
    let mut node = Node::new_node(OsStr::new(""), NodeType::Dir, Metadata::default());
    node.subtree = Some(snap.tree);
    node
}

fn path_str(p: &Path) -> String {
    p.to_string_lossy().replace('\\', "/")
}

// ------------------------------------------------------------------ differential run of the planner/executor
use rustic_core::verif_hooks::c02 as hook;

/// real 256-bit ids -> small integers (the model's ids), in order of first appearance
#[derive(Default)]
struct Maps {
    index: BTreeMap<String, u64>,
    pack: BTreeMap<String, u64>,
    blob: BTreeMap<String, u64>,
}
fn num(m: &mut BTreeMap<String, u64>, base: u64, k: String) -> u64 {
    let n = m.len() as u64;
    *m.entry(k).or_insert(base + n)
}
fn hexs(id: &rustic_core::Id) -> String {
    id.to_hex().as_str().to_string()
}
const NS: i64 = 1_000_000_000;

/// Builds the planner input from the repository as it is, returns (case line for the model, id maps, output, plan).
/// Times are in nanoseconds.
fn hook_plan(
    ctx: &Ctx,
    repo: &Repository<OpenStatus>,
    v: &[u64],
    used: &BTreeSet<Blob>,
) -> Result<(String, Maps, hook::PlanOutput, hook::PrunePlan), String> {
    use rustic_core::ReadBackend;
    let mut maps = Maps::default();
    let now = rustic_core::jiff::Timestamp::now();
    let mut files: Vec<(hook::IndexId, IndexFile)> = Vec::new();
    for r in repo.stream_files::<IndexFile>().map_err(short)? {
        files.push(r.map_err(short)?);
    }
    files.sort_by_key(|(i, _)| hexs(i));
    let existing: Vec<(rustic_core::Id, u32)> = ctx.be.list_with_size(rustic_core::FileType::Pack).map_err(short)?;
    let config = repo.config();
    let (pmin, pmax) = config.packsize_ok_percents();
    let sz = |t| {
        let (size, _grow, limit) = config.packsize(t);
        (size.min(limit), pmin, if pmax == u32::MAX { 0 } else { pmax })
    };
    let sizer = [sz(hook::BlobType::Tree), sz(hook::BlobType::Data)];
    let mut t: Vec<String> = Vec::new();
    t.push(now.as_nanosecond().to_string());
    t.push((v[11] as i64 * NS).to_string());
    t.push((v[12] as i64 * NS).to_string());
    let cacheable_only = v[6] == 2;
    for b in [cacheable_only, v[3] == 1, v[4] == 1, v[5] == 1, v[0] == 1] {
        t.push(u8::from(b).to_string());
    }
    for x in [v[7], v[8], v[9], v[10]] {
        t.push(x.to_string());
    }
    for s in sizer {
        t.extend([s.0.to_string(), s.1.to_string(), s.2.to_string()]);
    }
    t.push(used.len().to_string());
    let mut used_typed = Vec::new();
    for (is_tree, id) in used {
        let n = num(&mut maps.blob, 1, id.clone());
        t.push(if *is_tree { "0".into() } else { "1".into() });
        t.push(n.to_string());
        let bid = hook::BlobId::from(rustic_core::Id::from_hex(id).map_err(short)?);
        used_typed.push((if *is_tree { hook::BlobType::Tree } else { hook::BlobType::Data }, bid));
    }
    t.push(existing.len().to_string());
    for (id, size) in &existing {
        t.push(num(&mut maps.pack, 100, hexs(id)).to_string());
        t.push(size.to_string());
    }
    t.push(files.len().to_string());
    for (fid, f) in &files {
        t.push(num(&mut maps.index, 500, hexs(fid)).to_string());
        for sec in [&f.packs, &f.packs_to_delete] {
            t.push(sec.len().to_string());
            for p in sec {
                t.push(num(&mut maps.pack, 100, hexs(&p.id)).to_string());
                t.push(p.pack_size().to_string());
                match p.time {
                    Some(tm) => {
                        t.push("1".into());
                        t.push(tm.as_nanosecond().to_string());
                    }
                    None => t.push("0".into()),
                }
                t.push(p.blobs.len().to_string());
                for b in &p.blobs {
                    t.push(num(&mut maps.blob, 1, hexs(&b.id)).to_string());
                    t.push(if b.tpe == hook::BlobType::Tree { "0".into() } else { "1".into() });
                    t.push(b.location.length.to_string());
                    t.push(u8::from(b.location.uncompressed_length.is_some()).to_string());
                }
            }
        }
    }
    let limit_of = |k: u64, x: u64| limit(k, x);
    let input = hook::PlanInput {
        index_files: files,
        used: used_typed,
        existing: existing.into_iter().map(|(i, s)| (hook::PackId::from(i), s)).collect(),
        now,
        keep_pack: Span::new().seconds(v[11] as i64),
        keep_delete: Span::new().seconds(v[12] as i64),
        repack_cacheable_only: cacheable_only,
        repack_uncompressed: v[3] == 1,
        repack_all: v[4] == 1,
        max_repack: limit_of(v[9], v[10]),
        max_unused: limit_of(v[7], v[8]),
        no_resize: v[5] == 1,
        instant_delete: v[0] == 1,
        sizer,
    };
    let (out, plan) = hook::plan(input).map_err(|e| short(format!("{e:?}")))?;
    Ok((t.join(" "), maps, out, plan))
}

/// what the public `PrunePlan` shows: statistics and the packs to repack
fn plan_summary(plan: &hook::PrunePlan) -> (Vec<u64>, BTreeSet<String>) {
    let s = &plan.stats;
    let (bt, bd) = (s.blobs[hook::BlobType::Tree], s.blobs[hook::BlobType::Data]);
    let (st, sd) = (s.size[hook::BlobType::Tree], s.size[hook::BlobType::Data]);
    (
        vec![bt.used, bt.unused, bd.used, bd.unused, st.used, st.unused, sd.used, sd.unused,
             s.packs.used, s.packs.partly_used, s.packs.unused, s.packs.keep, s.packs.repack, s.packs_unref, s.size_unref],
        plan.repack_packs().iter().map(|p| hexs(p)).collect(),
    )
}
fn out_summary(o: &hook::PlanOutput, _maps: &Maps) -> (Vec<u64>, BTreeSet<String>) {
    (
        vec![o.blobs[0].0, o.blobs[0].1, o.blobs[1].0, o.blobs[1].1, o.sizes[0].0, o.sizes[0].1, o.sizes[1].0, o.sizes[1].1,
             o.packs_used, o.packs_partly_used, o.packs_unused, o.packs_keep, o.packs_repack, o.packs_unref, o.size_unref],
        o.decisions.iter().filter(|d| hook::todo_name(d.todo) == "Repack").map(|d| hexs(&d.pack)).collect(),
    )
}
fn decisions_str(o: &hook::PlanOutput, maps: &Maps) -> String {
    let d: Vec<String> = o
        .decisions
        .iter()
        .map(|d| format!("{}:{}:{}:{}", maps.index[&hexs(&d.index)], maps.pack[&hexs(&d.pack)], u8::from(d.delete_mark), hook::todo_name(d.todo)))
        .collect();
    let rw: Vec<String> = o.rewritten.iter().map(|i| maps.index[&hexs(i)].to_string()).collect();
    format!("d={} rw={}", d.join(","), rw.join(","))
}

/// the repository after the run, in the model's vocabulary: entries of old packs per section with their times
/// (ns), removed old packs, untouched old index files, and the (type, blob) content of the packs written
fn post_state(ctx: &Ctx, maps: &Maps) -> Result<String, String> {
    let repo = ctx.open()?;
    let packs_now: BTreeSet<String> = ctx.pack_list()?;
    let (mut xp, mut xd, mut xnew, mut kept) = (Vec::new(), Vec::new(), Vec::new(), 0u64);
    for r in repo.stream_files::<IndexFile>().map_err(short)? {
        let (fid, f) = r.map_err(short)?;
        if maps.index.contains_key(&hexs(&fid)) {
            kept += 1;
            continue;
        }
        let ent = |p: &rustic_core::repofile::IndexPack| {
            format!("{}:{}", maps.pack[&hexs(&p.id)], p.time.map_or("n".to_string(), |t| t.as_nanosecond().to_string()))
        };
        for p in &f.packs {
            if maps.pack.contains_key(&hexs(&p.id)) {
                xp.push(ent(p));
            } else {
                for b in &p.blobs {
                    xnew.push(format!("{}:{}", u8::from(b.tpe != hook::BlobType::Tree), maps.blob.get(&hexs(&b.id)).copied().unwrap_or(0)));
                }
            }
        }
        for p in &f.packs_to_delete {
            if maps.pack.contains_key(&hexs(&p.id)) {
                xd.push(ent(p));
            } else {
                xd.push("new_pack_marked".into());
            }
        }
    }
    let mut xrm: Vec<u64> = maps.pack.iter().filter(|(k, _)| !packs_now.contains(*k)).map(|(_, v)| *v).collect();
    xp.sort();
    xd.sort();
    xnew.sort();
    xrm.sort_unstable();
    Ok(format!(
        "xp={} xd={} xrm={} xnew={} xkept={kept}",
        xp.join(","),
        xd.join(","),
        xrm.iter().map(u64::to_string).collect::<Vec<_>>().join(","),
        xnew.join(",")
    ))
}

// ------------------------------------------------------------------ the history

struct State {
    ctx: Ctx,
    src: Source,
    remaining: Vec<Rec>,
    forgotten: Vec<Rec>,
    collide: BTreeSet<String>,
    defer_verify: bool,
    prunes: u64,
    packs_removed: u64,
    packs_marked_max: u64,
    recovered: u64,
    repacked: u64,
    /// files added by op 8 (most recent last)
    added: Vec<PathBuf>,
    add_ctr: u64,
    /// pack id -> start (ms since the epoch) of the prune after which it was first seen marked
    marked_at: BTreeMap<String, i64>,
    /// first soft finding (what, step, detail)
    soft: Option<(&'static str, u64, String)>,
    step: u64,
    marks_checked: u64,
}

fn now_ms() -> i64 {
    SystemTime::now().duration_since(SystemTime::UNIX_EPOCH).map(|d| d.as_millis() as i64).unwrap_or(0)
}

struct Failure {
    what: &'static str,
    detail: String,
}

fn fail(what: &'static str, detail: impl Into<String>) -> Failure {
    Failure { what, detail: detail.into() }
}

impl State {
    fn backup(&mut self) -> Result<(), Failure> {
        self.src.normalise_dirs();
        let files = self.src.record();
        let ctx = &self.ctx;
        let src_path = self.src.root().to_path_buf();
        let snap = guard(|| {
            let repo = ctx.open()?.to_indexed_ids().map_err(short)?;
            let save = LocalSourceSaveOptions::default().set_ctime(TimeOption::Mtime);
            let opts = BackupOptions::default().as_path(PathBuf::from(ROOT)).ignore_save_opts(save);
            repo.backup(&opts, &PathList::from_iter(Some(src_path)), SnapshotFile::default())
                .map_err(short)
        })
        .map_err(|e| fail("backup_error", e))?;
        // referenced blobs, from a fresh handle
        // A snapshot that cannot be listed right after the backup is left to the
        // verification (it reports `check`/`restore`); the ids seen so far are kept
        // so that the diagnosis knows what is referenced.
        let mut blobs: BTreeSet<Blob> = BTreeSet::new();
        let _ = blobs.insert((true, snap.tree.to_hex().as_str().to_string()));
        // (tree walk by hand, equivalent to a recursive `ls` but going on after an
        // unreadable subtree)
        let _ = guard(|| {
            let repo = ctx.open()?.to_indexed().map_err(short)?;
            let mut todo = vec![snap.tree];
            while let Some(tid) = todo.pop() {
                let Ok(Ok(tree)) = catch_unwind(AssertUnwindSafe(|| repo.get_tree(&tid))) else {
                    continue;
                };
                for node in &tree.nodes {
                    if let Some(t) = node.subtree {
                        if blobs.insert((true, t.to_hex().as_str().to_string())) {
                            todo.push(t);
                        }
                    }
                    if let Some(c) = &node.content {
                        for id in c {
                            let _ = blobs.insert((false, id.to_hex().as_str().to_string()));
                        }
                    }
                }
            }
            Ok(())
        });
        self.remaining.push(Rec { snap, files, blobs, maybe_gone: false });
        Ok(())
    }

    fn op_backup(&mut self, mseed: u64, nmut: u64) -> Result<(), Failure> {
        let mut rng = SplitMix(mseed);
        for _ in 0..nmut {
            self.src.mutate(&mut rng);
        }
        self.backup()
    }

    /// `dir`: make sure the empty directory exists; `file`: make sure the file with
    /// the empty-tree bytes exists (the other one is left as it is)
    fn op_collision(&mut self, dir: bool, file: bool) -> Result<(), Failure> {
        if dir {
            let d = self.src.root().join("emptydir");
            if d.exists() {
                fs::remove_dir_all(&d).expect("rm emptydir");
            }
            fs::create_dir(&d).expect("mkdir emptydir");
        }
        if file {
            let f = self.src.root().join("treebytes");
            let same = fs::read(&f).map(|b| b == EMPTY_TREE).unwrap_or(false);
            if !same {
                self.src.write(&f, EMPTY_TREE);
            }
        }
        self.backup()
    }

    fn op_add(&mut self, size: u64) -> Result<(), Failure> {
        self.add_ctr += 1;
        let mut rng = SplitMix(0x5eed_0000 ^ self.add_ctr.wrapping_mul(0x9E37_79B9));
        let data: Vec<u8> = (0..size).map(|_| (rng.next() & 0xff) as u8).collect();
        let name = self.src.fresh_name();
        let p = self.src.root().join(name);
        self.src.write(&p, &data);
        self.added.push(p);
        self.backup()
    }

    fn op_remove_added(&mut self) -> Result<(), Failure> {
        if let Some(p) = self.added.pop() {
            let _ = fs::remove_file(&p);
        }
        self.backup()
    }

    fn soft_finding(&mut self, what: &'static str, detail: String) {
        // keep the finding closest to the property text: early_delete > index_entry_lost > mark_time
        let rank = |w: &str| match w {
            "early_delete" => 3,
            "index_entry_lost" => 2,
            _ => 1,
        };
        if self.soft.as_ref().is_none_or(|(w, _, _)| rank(w) < rank(what)) {
            self.soft = Some((what, self.step, detail));
        }
    }

    fn op_forget(&mut self, mask: u64) -> Result<(), Failure> {
        let mut keep = Vec::new();
        let mut del = Vec::new();
        for (i, r) in std::mem::take(&mut self.remaining).into_iter().enumerate() {
            if i < 64 && (mask >> i) & 1 == 1 {
                let mut r = r;
                r.maybe_gone = false;
                del.push(r);
            } else {
                keep.push(r);
            }
        }
        self.remaining = keep;
        if del.is_empty() {
            return Ok(());
        }
        let ids: Vec<_> = del.iter().map(|r| r.snap.id).collect();
        let ctx = &self.ctx;
        let res = guard(|| ctx.open()?.delete_snapshots(&ids).map_err(short));
        self.forgotten.extend(del);
        res.map_err(|e| fail("prune_error", format!("forget:{e}")))
    }

    fn op_resurrect(&mut self, k: u64) -> Result<bool, Failure> {
        if self.forgotten.is_empty() {
            return Ok(false);
        }
        let idx = (k % self.forgotten.len() as u64) as usize;
        // A snapshot whose blobs are already gone (neither indexed nor in a pack marked
        // for deletion that still exists) cannot be brought back by the user: putting
        // its snapshot file back would be a broken repository by construction, not a
        // finding about prune.  Such a resurrection is skipped.
        // (Only when a prune since the forget was ALLOWED to delete the data: otherwise the packs must
        // still be there, at least marked, and the resurrection has to work.)
        if self.forgotten[idx].maybe_gone {
            let index = self.ctx.index().map_err(|e| fail("restore", format!("resurrect_read_index:{e}")))?;
            let packs = self.ctx.pack_list().map_err(|e| fail("restore", format!("resurrect_list:{e}")))?;
            let mut have: BTreeSet<&Blob> = BTreeSet::new();
            for f in &index {
                for (pid, blobs) in f.packs.iter().chain(f.to_delete.iter()) {
                    if packs.contains(pid) {
                        have.extend(blobs.iter());
                    }
                }
            }
            if !self.forgotten[idx].blobs.iter().all(|b| have.contains(b)) {
                return Ok(false);
            }
        }
        let mut rec = self.forgotten.remove(idx);
        let ctx = &self.ctx;
        let known: BTreeSet<String> = self.remaining.iter().map(|r| r.snap.id.to_hex().as_str().to_string()).collect();
        let found = guard(|| {
            let repo = ctx.open()?;
            repo.save_snapshots(vec![rec.snap.clone()]).map_err(short)?;
            let all = ctx.open()?.get_all_snapshots().map_err(short)?;
            let hit = all
                .iter()
                .find(|s| s.tree == rec.snap.tree && s.time.timestamp() == rec.snap.time.timestamp() && !known.contains(s.id.to_hex().as_str()))
                .or_else(|| all.iter().find(|s| s.tree == rec.snap.tree && !known.contains(s.id.to_hex().as_str())))
                .cloned();
            hit.ok_or_else(|| "resurrected_snapshot_not_listed".to_string())
        })
        .map_err(|e| fail("restore", format!("resurrect:{e}")))?;
        rec.snap = found;
        self.remaining.push(rec);
        Ok(true)
    }

    fn note_collisions(&mut self, idx: &[IndexView]) {
        let mut seen: BTreeMap<&str, (bool, bool)> = BTreeMap::new();
        for f in idx {
            for (_, blobs) in f.packs.iter().chain(f.to_delete.iter()) {
                for (is_tree, id) in blobs {
                    let e = seen.entry(id.as_str()).or_insert((false, false));
                    if *is_tree {
                        e.0 = true;
                    } else {
                        e.1 = true;
                    }
                }
            }
        }
        for (id, (t, d)) in seen {
            if t && d {
                let _ = self.collide.insert(id.to_string());
            }
        }
    }

    fn op_prune(&mut self, opts: &PruneOptions, v: &[u64]) -> Result<(), Failure> {
        let (instant, keep_delete_s) = (v[0] == 1, v[12]);
        if instant || keep_delete_s < 600 {
            for r in &mut self.forgotten {
                r.maybe_gone = true;
            }
        }
        let start = now_ms();
        let before_idx = self.ctx.index().map_err(|e| fail("prune_error", format!("read_index:{e}")))?;
        self.note_collisions(&before_idx);
        let before_packs = self.ctx.pack_list().map_err(|e| fail("prune_error", format!("list:{e}")))?;
        let marked_before: BTreeSet<String> =
            before_idx.iter().flat_map(|f| f.to_delete.iter().map(|p| p.0.clone())).collect();
        self.packs_marked_max = self.packs_marked_max.max(marked_before.len() as u64);

        let ctx = &self.ctx;
        // the blobs the remaining snapshots reference, as recorded at backup time (walk by hand)
        let used: BTreeSet<Blob> = self.remaining.iter().flat_map(|r| r.blobs.iter().cloned()).collect();
        let trace_path = std::env::var("C02_E2E_TRACE").ok();
        let mut trace: Option<(String, Maps)> = None;
        let mut plan_differs: Option<String> = None;
        guard(|| {
            let repo = ctx.open()?;
            // the real planner (real find_used_blobs)
            let plan = repo.prune_plan(opts).map_err(|e| short(format!("plan:{e}")))?;
            // the same planner steps through the hook on what THIS harness read: index files, pack listing,
            // used blobs from its own tree walk, a clock
            let hooked = hook_plan(ctx, &repo, v, &used);
            match hooked {
                Ok((case, maps, out, hplan)) => {
                    let same = plan_summary(&plan) == out_summary(&out, &maps);
                    if same {
                        // execute the hook-built plan: its inputs are known, the model can predict the outcome
                        trace = Some((format!("{case} || {}", decisions_str(&out, &maps)), maps));
                        repo.prune(opts, hplan).map_err(|e| short(format!("prune:{e}")))
                    } else {
                        plan_differs = Some(short(format!("real_plan_{:?}_hook_plan_on_walked_used_ids_{:?}", plan_summary(&plan), out_summary(&out, &maps))));
                        repo.prune(opts, plan).map_err(|e| short(format!("prune:{e}")))
                    }
                }
                Err(e) => {
                    plan_differs = Some(short(format!("hook_plan_failed_while_real_plan_succeeded:{e}")));
                    repo.prune(opts, plan).map_err(|e| short(format!("prune:{e}")))
                }
            }
        })
        .map_err(|e| fail("prune_error", e))?;
        self.prunes += 1;
        if let Some(d) = plan_differs {
            self.soft_finding("plan_differs", d);
        }
        if let (Some(path), Some((line, maps))) = (trace_path, trace) {
            if let Ok(post) = post_state(&self.ctx, &maps) {
                use std::io::Write;
                if let Ok(mut f) = fs::OpenOptions::new().create(true).append(true).open(path) {
                    let _ = writeln!(f, "{line} {post}");
                }
            }
        }

        let end = now_ms();
        // statistics: best effort, a broken index shows up in the verification
        if let (Ok(after_idx), Ok(after_packs)) = (self.ctx.index(), self.ctx.pack_list()) {
            // --- two-phase delete (see the header)
            let listed_before: BTreeSet<&String> =
                before_idx.iter().flat_map(|f| f.packs.iter().chain(f.to_delete.iter()).map(|p| &p.0)).collect();
            let listed_after: BTreeSet<&String> =
                after_idx.iter().flat_map(|f| f.packs.iter().chain(f.to_delete.iter()).map(|p| &p.0)).collect();
            let time_before: BTreeMap<&String, Option<i64>> =
                before_idx.iter().flat_map(|f| f.del_time.iter().map(|(k, v)| (k, *v))).collect();
            let time_after: BTreeMap<&String, Option<i64>> =
                after_idx.iter().flat_map(|f| f.del_time.iter().map(|(k, v)| (k, *v))).collect();
            let mut soft: Vec<(&'static str, String)> = Vec::new();
            if !instant {
                for p in before_packs.difference(&after_packs) {
                    match self.marked_at.get(p) {
                        None if !marked_before.contains(p) && listed_before.contains(p) => {
                            soft.push(("early_delete", format!("pack_{}_removed_without_having_been_marked", &p[..8])));
                        }
                        Some(s) if end - s < (keep_delete_s as i64) * 1000 => {
                            soft.push(("early_delete", format!("pack_{}_removed_{}ms_after_the_start_of_the_prune_that_marked_it_keep_delete_{}s", &p[..8], end - s, keep_delete_s)));
                        }
                        _ => {}
                    }
                }
                for (p, t) in &time_after {
                    self.marks_checked += 1;
                    match time_before.get(*p) {
                        None => match t {
                            // times are serialised with full precision; 2 ms slack for the clock
                            Some(t) if *t + 2 >= start && *t <= end + 2 => {}
                            Some(t) if *t > end + 2 => soft.push(("mark_time", format!("pack_{}_newly_marked_with_a_time_{}ms_after_the_prune_returned", &p[..8], t - end))),
                            Some(t) => soft.push(("mark_time", format!("pack_{}_newly_marked_with_time_{}ms_before_the_prune_started", &p[..8], start - t))),
                            None => soft.push(("mark_time", format!("pack_{}_newly_marked_without_time", &p[..8]))),
                        },
                        Some(Some(old)) => {
                            if *t != Some(*old) {
                                soft.push(("mark_time", format!("pack_{}_stays_marked_but_its_mark_time_changed", &p[..8])));
                            }
                        }
                        Some(None) => {}
                    }
                }
            }
            for p in &after_packs {
                if listed_before.contains(p) && !listed_after.contains(p) {
                    soft.push(("index_entry_lost", format!("pack_{}_exists_but_is_no_longer_listed_by_any_index_file", &p[..8])));
                }
            }
            for (w, d) in soft {
                self.soft_finding(w, d);
            }
            // bookkeeping of mark times
            let marked_after_set: BTreeSet<String> = time_after.keys().map(|k| (*k).clone()).collect();
            self.marked_at.retain(|k, _| marked_after_set.contains(k));
            for p in marked_after_set {
                let _ = self.marked_at.entry(p).or_insert(start);
            }
            self.note_collisions(&after_idx);
            self.packs_removed += before_packs.difference(&after_packs).count() as u64;
            if after_packs.difference(&before_packs).next().is_some() {
                self.repacked += 1;
            }
            let marked_after: BTreeSet<&String> = after_idx.iter().flat_map(|f| f.to_delete.iter().map(|p| &p.0)).collect();
            self.packs_marked_max = self.packs_marked_max.max(marked_after.len() as u64);
            let live_after: BTreeSet<&String> = after_idx.iter().flat_map(|f| f.packs.iter().map(|p| &p.0)).collect();
            self.recovered += marked_before.iter().filter(|p| live_after.contains(p)).count() as u64;
        }
        Ok(())
    }

    fn verify(&self) -> Result<(), Failure> {
        let ctx = &self.ctx;
        // 1. check --read-data
        guard(|| {
            let repo = ctx.open()?;
            let res = repo.check(CheckOptions::default().read_data(true)).map_err(|e| short(format!("check_err:{e}")))?;
            if res.is_ok().is_err() {
                let first = res
                    .0
                    .iter()
                    .find(|(lvl, _)| format!("{lvl:?}") == "Error")
                    .map(|(_, e)| e.to_string())
                    .unwrap_or_default();
                let n = res.0.iter().filter(|(lvl, _)| format!("{lvl:?}") == "Error").count();
                return Err(short(format!("{n}_errors:{first}")));
            }
            Ok(())
        })
        .map_err(|e| fail("check", e))?;

        // 2. every remaining snapshot restores to the recorded bytes
        for (i, rec) in self.remaining.iter().enumerate() {
            guard(|| {
                let repo = ctx.open()?.to_indexed().map_err(|e| short(format!("index:{e}")))?;
                let sid = rec.snap.id.to_hex().as_str().to_string();
                let mut listed = BTreeSet::new();
                for item in repo.ls(&root_node(&rec.snap), &LsOptions::default()).map_err(|e| short(format!("snap{i}_ls:{e}")))? {
                    let (p, _) = item.map_err(|e| short(format!("snap{i}_ls_item:{e}")))?;
                    let _ = listed.insert(path_str(&p));
                }
                let expected: BTreeSet<String> = rec.files.keys().cloned().collect();
                if listed != expected {
                    let missing: Vec<_> = expected.difference(&listed).take(3).cloned().collect();
                    let extra: Vec<_> = listed.difference(&expected).take(3).cloned().collect();
                    return Err(short(format!("snap{i}_paths_differ_missing={missing:?}_extra={extra:?}")));
                }
                for (path, want) in &rec.files {
                    let node = repo
                        .node_from_snapshot_path(&format!("{sid}:{path}"), |_| true)
                        .map_err(|e| short(format!("snap{i}_node_{path}:{e}")))?;
                    match want {
                        None => {
                            if !node.is_dir() {
                                return Err(short(format!("snap{i}_{path}_not_a_dir")));
                            }
                        }
                        Some(bytes) => {
                            if !node.is_file() {
                                return Err(short(format!("snap{i}_{path}_not_a_file")));
                            }
                            let mut out = Vec::new();
                            repo.dump(&node, &mut out).map_err(|e| short(format!("snap{i}_dump_{path}:{e}")))?;
                            if &out != bytes {
                                return Err(short(format!(
                                    "snap{i}_{path}_content_differs_len_{}_vs_{}",
                                    out.len(),
                                    bytes.len()
                                )));
                            }
                        }
                    }
                }
                Ok(())
            })
            .map_err(|e| fail("restore", e))?;
        }
        Ok(())
    }

    /// (|lost|, lost_collide)
    fn diagnose(&mut self) -> (usize, u8) {
        let idx = self.ctx.index().unwrap_or_default();
        self.note_collisions(&idx);
        let packs = self.ctx.pack_list().unwrap_or_default();
        if std::env::var_os("C02_E2E_DEBUG").is_some() {
            for (i, f) in idx.iter().enumerate() {
                for (pid, blobs) in &f.packs {
                    eprintln!("index{i} pack {} present={} {:?}", &pid[..8], packs.contains(pid), blobs.iter().map(|b| format!("{}{}", if b.0 { "T" } else { "D" }, &b.1[..8])).collect::<Vec<_>>());
                }
                for (pid, blobs) in &f.to_delete {
                    eprintln!("index{i} DEL  {} present={} {:?}", &pid[..8], packs.contains(pid), blobs.iter().map(|b| format!("{}{}", if b.0 { "T" } else { "D" }, &b.1[..8])).collect::<Vec<_>>());
                }
            }
            for (i, r) in self.remaining.iter().enumerate() {
                eprintln!("snap{i} refs {:?}", r.blobs.iter().map(|b| format!("{}{}", if b.0 { "T" } else { "D" }, &b.1[..8])).collect::<Vec<_>>());
            }
        }
        let mut avail: BTreeSet<&Blob> = BTreeSet::new();
        for f in &idx {
            for (pid, blobs) in &f.packs {
                if packs.contains(pid) {
                    avail.extend(blobs.iter());
                }
            }
        }
        let mut lost: BTreeSet<&Blob> = BTreeSet::new();
        for r in &self.remaining {
            for b in &r.blobs {
                if !avail.contains(b) {
                    let _ = lost.insert(b);
                }
            }
        }
        // a lost blob counts as collision-related if its id was ever indexed with both
        // types, or is still available with the other type
        let lc = !lost.is_empty()
            && lost
                .iter()
                .all(|b| self.collide.contains(&b.1) || avail.contains(&(!b.0, b.1.clone())));
        (lost.len(), u8::from(lc))
    }
}

fn limit(kind: u64, val: u64) -> LimitOption {
    match kind {
        0 => LimitOption::Unlimited,
        1 => LimitOption::Percentage(val),
        _ => LimitOption::Size(ByteSize::b(val)),
    }
}

fn run_case(line: &str) -> String {
    let mut t = Toks::new(line);
    let seed = t.u();
    let pack_size = t.u();
    let chunk_size = t.u();
    let nops = t.u();

    // repository
    let be = Arc::new(InMemoryBackend::new());
    let cred = Credentials::Masterkey(MasterKey::new());
    {
        let bes = RepositoryBackends::new(be.clone(), None);
        let config = ConfigOptions::default()
            .set_chunker(Chunker::FixedSize)
            .set_chunk_size(ByteSize::b(chunk_size))
            .set_datapack_size(ByteSize::b(pack_size))
            .set_treepack_size(ByteSize::b(pack_size))
            .set_datapack_growfactor(0u32)
            .set_treepack_growfactor(0u32);
        let opts = RepositoryOptions::default().no_cache(true);
        let _ = Repository::new(&opts, &bes)
            .expect("repository")
            .init(&cred, &KeyOptions::default(), &config)
            .expect("init");
    }

    // source
    let mut src = Source { dir: tempfile::tempdir().expect("tempdir"), names: 0, tick: 0, chunk: chunk_size.max(1) };
    {
        let mut rng = SplitMix(seed);
        for _ in 0..3 {
            let n = rng.below(2 * src.chunk + 1);
            let data = src.random_bytes(&mut rng, n);
            let name = src.fresh_name();
            let p = src.root().join(name);
            src.write(&p, &data);
        }
    }

    let mut st = State {
        ctx: Ctx { be, cred },
        src,
        remaining: Vec::new(),
        forgotten: Vec::new(),
        collide: BTreeSet::new(),
        defer_verify: false,
        prunes: 0,
        packs_removed: 0,
        packs_marked_max: 0,
        recovered: 0,
        repacked: 0,
        added: Vec::new(),
        add_ctr: 0,
        marked_at: BTreeMap::new(),
        soft: None,
        step: 0,
        marks_checked: 0,
    };

    let mut steps = 0u64;
    for step in 0..nops {
        let kind = t.u();
        st.step = step;
        let res: Result<(), Failure> = match kind {
            0 => {
                let (mseed, nmut) = (t.u(), t.u());
                st.op_backup(mseed, nmut)
            }
            3 => st.op_collision(true, true),
            8 => {
                let size = t.u();
                st.op_add(size)
            }
            7 => st.op_remove_added(),
            9 => {
                std::thread::sleep(Duration::from_millis(t.u()));
                steps += 1;
                continue;
            }
            5 => st.op_collision(true, false),
            6 => st.op_collision(false, true),
            1 => {
                let mask = t.u();
                st.op_forget(mask)
            }
            4 => {
                let k = t.u();
                match st.op_resurrect(k) {
                    Ok(done) => {
                        if done {
                            st.defer_verify = true;
                        }
                        Ok(())
                    }
                    Err(f) => Err(f),
                }
            }
            2 => {
                let v: Vec<u64> = (0..13).map(|_| t.u()).collect();
                if v[3] == 1 && v[2] == 1 {
                    // repack_uncompressed conflicts with fast_repack: not a history step
                    steps += 1;
                    continue;
                }
                let opts = PruneOptions::default()
                    .instant_delete(v[0] == 1)
                    .early_delete_index(v[1] == 1)
                    .fast_repack(v[2] == 1)
                    .repack_uncompressed(v[3] == 1)
                    .repack_all(v[4] == 1)
                    .no_resize(v[5] == 1)
                    .repack_cacheable_only(match v[6] {
                        0 => None,
                        1 => Some(false),
                        _ => Some(true),
                    })
                    .max_unused(limit(v[7], v[8]))
                    .max_repack(limit(v[9], v[10]))
                    .keep_pack(Span::new().seconds(v[11] as i64))
                    .keep_delete(Span::new().seconds(v[12] as i64));
                let r = st.op_prune(&opts, &v);
                st.defer_verify = false;
                r
            }
            other => panic!("unknown op {other}"),
        };
        let res = match res {
            Ok(()) if !st.defer_verify => st.verify(),
            r => r,
        };
        if let Err(f) = res {
            let (lost, lc) = st.diagnose();
            let after = st.soft.as_ref().map_or(String::new(), |(w, s, _)| format!(" after={w}@{s}"));
            return format!(
                "FAIL step={step} op={kind} what={} lost={lost} lost_collide={lc}{after} detail={}",
                f.what,
                short(&f.detail)
            );
        }
        steps += 1;
    }
    if let Some((what, step, detail)) = st.soft.take() {
        let (lost, lc) = st.diagnose();
        return format!("FAIL step={step} op=2 what={what} lost={lost} lost_collide={lc} detail={}", short(&detail));
    }
    format!(
        "ok steps={steps} snaps={} prunes={} packs_removed={} packs_marked_max={} recovered={} repacked={} marks_checked={}",
        st.remaining.len(),
        st.prunes,
        st.packs_removed,
        st.packs_marked_max,
        st.recovered,
        st.repacked,
        st.marks_checked
    )
}

fn main() {
    for_each_case(run_case);
}
