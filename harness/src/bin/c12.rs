//! C12: copy, merge, rewrite and repair preserve all content they keep.
//!
//! Case lines (first token selects the mode):
//!
//!   M <cmp> <k> <tree>*k          crate-private `tree::merge_trees`/`merge_nodes` (hook, in-memory saver)
//!                                 on hand-built trees stored in a fresh in-memory repository.
//!                                 cmp: 0 = by mtime (`last_modified_node`), 1 = by tag (uid),
//!                                      2 = always Equal, 3 = directories first then mtime
//!      <tree> = <n> <node>*n ;  <node> = <namehex> <kind> <mtime> <tag> <nc> <content>*nc [<tree> if kind=1]
//!      kind: 0 file, 1 dir, 2 symlink, 3 fifo; names = hex of the raw (unescaped) bytes.  Output: `ok <tree>` in the same grammar.
//!   G <seed> <k> <odd>            e2e merge: k seeded source dirs with clashing names/types backed up,
//!                                 `merge_snapshots(last_modified_node)`; prints the k input trees and the result
//!                                 (`ok check=<0/1> | T <tree> | ... | R <tree>`, tag = hash of the node without
//!                                 name/subtree, content = 48-bit id prefixes).
//!   C <seed> <variant>            e2e copy between two repositories (different key, compression, pack sizes);
//!                                 variant bit 32: afterwards the destination loses one pack that holds no snapshot root tree
//!                                 (bit 64: a tree pack) + repair_index, and all snapshots are copied again (partial closure).
//!   W <seed> <variant>            e2e rewrite with exclude globs (the `ignore` matcher is an oracle input); variant bit 4:
//!                                 directories of hard links sharing ONE tree blob at several paths + anchored excludes
//!                                 below one occurrence only.
//!   R <seed> <variant>            e2e repair_snapshots: undamaged (nothing changes), then one pack removed.
//!   F <seed> <op> <k>           the k-th pack upload of copy (0) / merge (1) / rewrite (2) / repair (3) fails (tiny packs):
//!                                 the command must return an error, or every snapshot it wrote must be complete.
//! e2e output: `ok key=value ...` (all oracle flags) or `fail what=<text>`.
use std::collections::{BTreeMap, BTreeSet};
use std::ffi::OsStr;
use std::io::Write as _;
use std::os::unix::ffi::OsStrExt;
use std::path::{Path, PathBuf};
use std::sync::Arc;

use anyhow::{Result, anyhow, bail};
use rustic_core::repofile::{BlobType, IndexFile, Metadata, Node, NodeType, SnapshotFile, Tree};
use rustic_core::{
    CheckOptions, ConfigOptions, DataId, Excludes, FileType, Id, LsOptions, NodeModification, ReadBackend,
    RepairIndexOptions, RepairSnapshotsOptions, RestoreOptions, RewriteOptions, RewriteTreesOptions, TimeOption,
    TreeId, WriteBackend, last_modified_node,
};
use sha2::{Digest, Sha256};
use verif_harness::e2e::*;
use verif_harness::*;

// ------------------------------------------------------------------ tree rendering

#[derive(Clone, Copy, PartialEq)]
enum Style {
    /// tag = meta.uid, content = leading u64 of the id (hand-built trees)
    Synthetic,
    /// tag = 44-bit hash of the node without name and subtree, content = 44-bit id prefix
    Real,
}

fn kind_of(n: &Node) -> u8 {
    match n.node_type {
        NodeType::File => 0,
        NodeType::Dir => 1,
        NodeType::Symlink { .. } => 2,
        _ => 3,
    }
}

fn mtime_of(n: &Node) -> i128 {
    n.meta.mtime.map_or(0, |t| t.as_nanosecond())
}

fn node_tag(n: &Node, st: Style) -> u64 {
    match st {
        Style::Synthetic => u64::from(n.meta.uid.unwrap_or(0)),
        Style::Real => {
            let mut m = n.clone();
            m.name = String::new();
            m.subtree = None;
            let s = serde_json::to_vec(&m).unwrap();
            let h = Sha256::digest(&s);
            u64::from_be_bytes(h[..8].try_into().unwrap()) >> 20
        }
    }
}

fn render(get: &dyn Fn(&TreeId) -> Result<Tree>, id: &TreeId, st: Style, out: &mut String) -> Result<()> {
    let t = get(id)?;
    out.push_str(&format!(" {}", t.nodes.len()));
    for n in &t.nodes {
        let c = n.content.clone().unwrap_or_default();
        out.push_str(&format!(
            " {} {} {} {} {}",
            if n.name.is_empty() { "-".to_string() } else { hex::encode(n.name().as_bytes()) },
            kind_of(n),
            mtime_of(n),
            node_tag(n, st),
            c.len()
        ));
        for d in &c {
            let v = match st {
                Style::Synthetic => id_to_u64(&Id::from(**d)),
                Style::Real => id_to_u64(&Id::from(**d)) >> 20,
            };
            out.push_str(&format!(" {v}"));
        }
        if n.is_dir() {
            match &n.subtree {
                Some(s) => render(get, s, st, out)?,
                None => bail!("directory without subtree"),
            }
        }
    }
    Ok(())
}

// ------------------------------------------------------------------ mode M

fn parse_tree(t: &mut Toks, flat: &mut Vec<Tree>) -> TreeId {
    let n = t.u();
    let mut tree = Tree::default();
    for _ in 0..n {
        let name = hex::decode(t.s()).expect("hex");
        let kind = t.u();
        let mtime = t.i();
        let tag = t.u();
        let nc = t.u();
        let content: Vec<DataId> = (0..nc).map(|_| DataId::from(id_from_u64(t.u()))).collect();
        let node_type = match kind {
            0 => NodeType::File,
            1 => NodeType::Dir,
            2 => NodeType::from_link(Path::new("target")),
            _ => NodeType::Fifo,
        };
        let mut meta = Metadata::default();
        meta.mtime = if mtime == 0 { None } else { Some(rustic_core::jiff::Timestamp::from_nanosecond(i128::from(mtime)).unwrap()) };
        meta.uid = Some(tag as u32);
        let mut node = Node::new_node(OsStr::from_bytes(&name), node_type, meta);
        if kind == 0 {
            node.content = Some(content);
        }
        if kind == 1 {
            node.subtree = Some(parse_tree(t, flat));
        }
        tree.nodes.push(node);
    }
    let (_, id) = tree.serialize().unwrap();
    flat.push(tree);
    id
}

fn cmp_of(mode: u64) -> impl Fn(&Node, &Node) -> std::cmp::Ordering {
    move |a: &Node, b: &Node| match mode {
        0 => last_modified_node(a, b),
        1 => a.meta.uid.cmp(&b.meta.uid),
        2 => std::cmp::Ordering::Equal,
        _ => (a.is_dir(), a.meta.mtime).cmp(&(b.is_dir(), b.meta.mtime)),
    }
}

fn mode_m(t: &mut Toks) -> Result<String> {
    let cmpmode = t.u();
    let k = t.u();
    let mut flat = Vec::new();
    let roots: Vec<TreeId> = (0..k).map(|_| parse_tree(t, &mut flat)).collect();
    let (repo, _key) = init_repo(mem(), None, &ConfigOptions::default(), &repo_opts())?;
    let repo = repo.to_indexed_ids()?;
    let ids = rustic_core::verif_hooks::c12::save_trees(&repo, &flat)?;
    drop(ids);
    let repo = repo.drop_index().to_indexed_ids()?;
    let cmp = cmp_of(cmpmode);
    let (root, saved) = rustic_core::verif_hooks::c12::merge_trees_mem(&repo, &roots, &cmp)?;
    let get = |id: &TreeId| -> Result<Tree> {
        match saved.get(id) {
            Some(t) => Ok(t.clone()),
            None => Ok(repo.get_tree(id)?),
        }
    };
    let mut out = String::from("ok");
    render(&get, &root, Style::Synthetic, &mut out)?;
    Ok(out)
}

// ------------------------------------------------------------------ e2e helpers

type Listing = Vec<(PathBuf, Node)>;

fn listing<S: rustic_core::IndexedFull>(repo: &rustic_core::Repository<S>, snap: &SnapshotFile) -> Result<Listing> {
    let node = repo.node_from_snapshot_path(&snap.id.to_hex(), |_| true)?;
    let mut v = Vec::new();
    for item in repo.ls(&node, &LsOptions::default())? {
        v.push(item?);
    }
    Ok(v)
}

/// sha256 of the dumped bytes of every regular file of a listing (None = dump failed)
fn dumps<S: rustic_core::IndexedFull>(repo: &rustic_core::Repository<S>, l: &Listing) -> BTreeMap<PathBuf, Option<String>> {
    let mut m = BTreeMap::new();
    for (p, n) in l {
        if n.is_file() {
            let mut buf = Vec::new();
            let r = repo.dump(n, &mut buf);
            let _ = m.insert(p.clone(), r.ok().map(|()| hex::encode(Sha256::digest(&buf))));
        }
    }
    m
}

/// the (is_tree, id) pairs listed by the index files of a repository (read from the backend, not from memory)
fn index_set<S: rustic_core::Open>(repo: &rustic_core::Repository<S>) -> Result<BTreeSet<(bool, Id)>> {
    let mut r = BTreeSet::new();
    for f in repo.stream_files::<IndexFile>()? {
        let (_, f) = f?;
        for p in f.packs {
            let t = p.blob_type() == BlobType::Tree;
            for b in &p.blobs {
                let _ = r.insert((t, Id::from(*b.id)));
            }
        }
    }
    Ok(r)
}

fn strip_sub(n: &Node) -> Node {
    let mut m = n.clone();
    m.subtree = None;
    m
}

fn cfg(dp: u32, tp: u32, comp: Option<i32>) -> ConfigOptions {
    let c = small_pack_config(dp, tp);
    match comp {
        Some(l) => c.set_compression(l),
        None => c,
    }
}

fn path_hex(p: &Path) -> String {
    p.components().map(|c| hex::encode(c.as_os_str().as_bytes())).collect::<Vec<_>>().join("/")
}

fn flat(s: &str) -> String {
    s.replace(['\n', ' ', '|'], "_")
}

// ------------------------------------------------------------------ mode C (copy)

fn mode_c(seed: u64, variant: u64) -> Result<String> {
    let mut r = SplitMix(seed);
    let tp = TreeParams { max_entries: 24, max_depth: 3, max_file: 40_000, odd_names: true, symlinks: true, hardlinks: true };
    let base = gen_tree(&mut r, &tp);
    let extra = gen_tree(&mut r, &TreeParams { max_entries: 10, ..tp.clone() });
    let other = gen_tree(&mut r, &TreeParams { max_entries: 12, ..tp.clone() });
    let td = tempfile::tempdir()?;
    let (d1, d2, d3) = (td.path().join("d1"), td.path().join("d2"), td.path().join("d3"));
    let mut e1 = base.clone();
    let coll = variant & 1 == 1;
    if coll {
        // a data blob whose bytes are the serialisation of the empty tree, next to an empty directory
        e1.push(Entry { path: "coll_empty_tree".into(), kind: Kind::File(Content::Literal(b"{\"nodes\":[]}\n".to_vec())), mode: 0o644, mtime: (1_600_000_000, 0) });
        e1.push(Entry { path: "coll_dir".into(), kind: Kind::Dir, mode: 0o755, mtime: (1_600_000_000, 0) });
    }
    materialize(&d1, &e1)?;
    // d2: about two thirds of the base entries (shared blobs) plus new ones below n2/
    let mut e2: Vec<Entry> = Vec::new();
    let mut kept_dirs: BTreeSet<PathBuf> = BTreeSet::new();
    for e in &base {
        let parent_ok = e.path.parent().is_none_or(|p| p.as_os_str().is_empty() || kept_dirs.contains(p));
        let link_ok = match &e.kind {
            Kind::Hardlink(to) => e2.iter().any(|x| &x.path == to),
            _ => true,
        };
        if parent_ok && link_ok && r.below(3) != 0 {
            if matches!(e.kind, Kind::Dir) {
                let _ = kept_dirs.insert(e.path.clone());
            }
            e2.push(e.clone());
        }
    }
    for e in &extra {
        let mut e = e.clone();
        e.path = Path::new("n2").join(&e.path);
        if let Kind::Hardlink(to) = &e.kind {
            e.kind = Kind::Hardlink(Path::new("n2").join(to));
        }
        e2.push(e);
    }
    materialize(&d2, &e2)?;
    materialize(&d3, &other)?;

    let comps = [None, Some(1), Some(3), Some(12), Some(-3)];
    let sizes = [1u32, 2_000, 30_000, 400_000];
    let (cs, cd) = (comps[r.below(5) as usize], comps[r.below(5) as usize]);
    let (sdp, stp) = (sizes[r.below(4) as usize], sizes[r.below(4) as usize]);
    let (ddp, dtp) = if variant & 2 == 2 { (1, 1) } else { (sizes[r.below(4) as usize], sizes[r.below(4) as usize]) };
    let (src, _ks) = init_repo(mem(), None, &cfg(sdp, stp, cs), &repo_opts())?;
    let dst_store = mem();
    let (dst, kd) = init_repo(dst_store.clone(), None, &cfg(ddp, dtp, cd), &repo_opts())?;
    let (src, s1) = backup_dir(src, &d1, "src", None)?;
    // general cross-type collision: a file whose bytes are one of the tree blobs stored by the first backup
    let mut coll_tree = 0;
    let src = if variant & 4 == 4 {
        let srci = src.to_indexed()?;
        let l = listing(&srci, &s1)?;
        let mut done = false;
        for (_, n) in &l {
            if let (true, Some(t)) = (n.is_dir(), &n.subtree) {
                if !done || r.below(3) == 0 {
                    let bytes = srci.cat_blob(BlobType::Tree, &t.to_hex())?;
                    std::fs::write(d2.join(format!("coll_tree_bytes_{coll_tree}")), &bytes)?;
                    coll_tree += 1;
                    done = true;
                }
            }
        }
        srci.drop_index()
    } else {
        src
    };
    let (src, s2) = backup_dir(src, &d2, "src", None)?;
    let (src, s3) = backup_dir(src, &d3, "other", None)?;
    // blobs already present in the destination
    let mut dst = dst;
    let prepop = variant & 8 == 8;
    if prepop {
        let (d, _) = backup_dir(dst, &d2, "src", None)?;
        dst = d;
    }
    let src = src.to_indexed()?;
    let snaps = [s1.clone(), s2.clone(), s3.clone()];
    let lists: Vec<Listing> = snaps.iter().map(|s| listing(&src, s)).collect::<Result<_>>()?;
    let src_dumps: Vec<_> = lists.iter().map(|l| dumps(&src, l)).collect();
    if src_dumps.iter().any(|m| m.values().any(Option::is_none)) {
        return Ok("fail what=source_dump_failed".into());
    }
    // how many needed blobs does the destination already have?
    let dsti = dst.to_indexed()?;
    let mut present = 0;
    for l in &lists {
        for (_, n) in l {
            for d in n.content.iter().flatten() {
                if dsti.get_index_entry::<DataId>(d).is_ok() {
                    present += 1;
                }
            }
            if let Some(t) = &n.subtree {
                if dsti.get_index_entry::<TreeId>(t).is_ok() {
                    present += 1;
                }
            }
        }
    }
    // copy overlapping sets: {s1,s2} then {s2,s3}; the destination index is reloaded in between.
    // Model of copy.rs (`needed`): the blobs a run adds to the destination index are exactly
    // reachable(snapshots) minus the destination's TYPED index before the run.
    let reach = |idx: &[usize]| -> BTreeSet<(bool, Id)> {
        let mut r = BTreeSet::new();
        for &i in idx {
            let _ = r.insert((true, Id::from(*snaps[i].tree)));
            for (_, n) in &lists[i] {
                for d in n.content.iter().flatten() {
                    let _ = r.insert((false, Id::from(**d)));
                }
                if let (true, Some(t)) = (n.is_dir(), &n.subtree) {
                    let _ = r.insert((true, Id::from(**t)));
                }
            }
        }
        r
    };
    let mut needed_ok = true;
    let mut needed_total = 0;
    let ix0 = index_set(&dsti)?;
    let dsti = dsti.drop_index().to_indexed_ids()?;
    src.copy(&dsti, [&s1, &s2])?;
    let ix1 = index_set(&dsti)?;
    let dsti = dsti.drop_index().to_indexed_ids()?;
    src.copy(&dsti, [&s2, &s3])?;
    let ix2 = index_set(&dsti)?;
    let mut runs = vec![(ix0.clone(), ix1.clone(), vec![0usize, 1]), (ix1.clone(), ix2.clone(), vec![1usize, 2])];
    // PARTIAL closure in the destination: it keeps the root trees of the copied snapshots but loses one pack
    // (data or non-root trees) + repair_index; copying the snapshots again has to bring back what is missing
    let (mut damaged, mut lost_blobs, mut lost_tree_pack) = (0, 0, 0);
    let dsti = if variant & 32 == 32 {
        let roots: BTreeSet<Id> = snaps.iter().map(|s| Id::from(*s.tree)).collect();
        let all_reach = reach(&[0, 1, 2]);
        let mut cands: Vec<(Id, bool, usize)> = Vec::new();
        for f in dsti.stream_files::<IndexFile>()? {
            let (_, f) = f?;
            for p in f.packs {
                let is_tree = p.blob_type() == BlobType::Tree;
                let ids: Vec<Id> = p.blobs.iter().map(|b| Id::from(*b.id)).collect();
                if (is_tree && ids.iter().any(|i| roots.contains(i))) || !ids.iter().any(|i| all_reach.contains(&(is_tree, *i))) {
                    continue;
                }
                cands.push((Id::from(*p.id), is_tree, ids.len()));
            }
        }
        cands.sort();
        let want_tree = variant & 64 == 64;
        let typed: Vec<_> = cands.iter().filter(|c| c.1 == want_tree).copied().collect();
        let pool = if typed.is_empty() { cands } else { typed };
        if pool.is_empty() {
            dsti
        } else {
            let (victim, is_tree, n) = pool[r.below(pool.len() as u64) as usize];
            dst_store.remove(FileType::Pack, &victim, false)?;
            damaged = 1;
            lost_blobs = n;
            lost_tree_pack = usize::from(is_tree);
            let d = dsti.drop_index();
            d.repair_index(&RepairIndexOptions::default(), false)?;
            drop(d);
            let d = open_repo(dst_store.clone(), None, &kd, &repo_opts())?;
            let ix3 = index_set(&d)?;
            let d = d.to_indexed_ids()?;
            src.copy(&d, [&s1, &s2, &s3])?;
            let ix4 = index_set(&d)?;
            runs.push((ix3, ix4, vec![0usize, 1, 2]));
            d
        }
    } else {
        dsti
    };
    // material for the extracted copy model (`needed`): the snapshot trees with their tree ids, and per run the
    // relevant part of the destination index before it and the (type, id) pairs the run added
    let mut extra = String::new();
    {
        let get = |id: &TreeId| -> Result<Tree> { Ok(src.get_tree(id)?) };
        let short = |id: &Id| id_to_u64(id) >> 20;
        for (i, s) in snaps.iter().enumerate() {
            extra.push_str(" | T");
            render(&get, &s.tree, Style::Real, &mut extra)?;
            let dirs: Vec<String> = lists[i]
                .iter()
                .filter_map(|(p, n)| match (n.is_dir(), &n.subtree) {
                    (true, Some(t)) => Some(format!("{} {}", path_hex(p), short(&Id::from(**t)))),
                    _ => None,
                })
                .collect();
            extra.push_str(&format!(" | I {i} {} {} {}", short(&Id::from(*s.tree)), dirs.len(), dirs.join(" ")));
        }
        let all_reach = reach(&[0, 1, 2]);
        for (k, (before, after, which)) in runs.iter().enumerate() {
            let b: Vec<String> = before.intersection(&all_reach).map(|(t, i)| format!("{} {}", u8::from(*t), short(i))).collect();
            let d: Vec<String> = after.difference(before).map(|(t, i)| format!("{} {}", u8::from(*t), short(i))).collect();
            extra.push_str(&format!(
                " | Q {k} {} {} | B {k} {} {} | D {k} {} {}",
                which.len(), which.iter().map(usize::to_string).collect::<Vec<_>>().join(" "),
                b.len(), b.join(" "), d.len(), d.join(" ")
            ));
        }
    }
    for (before, after, which) in &runs {
        let expected: BTreeSet<(bool, Id)> = reach(which).difference(before).copied().collect();
        let added: BTreeSet<(bool, Id)> = after.difference(before).copied().collect();
        needed_total += expected.len();
        if expected != added {
            needed_ok = false;
        }
    }
    let dst = dsti.drop_index();
    let check = check_clean(&dst)?;
    let dst = dst.to_indexed()?;
    let dsnaps = dst.get_all_snapshots()?;
    let (mut ls_equal, mut dump_equal, mut found, mut copies) = (true, true, true, 0);
    let mut detail = String::new();
    for (i, s) in snaps.iter().enumerate() {
        let cands: Vec<&SnapshotFile> = dsnaps.iter().filter(|d| d.tree == s.tree && d.time == s.time && d.paths == s.paths).collect();
        if cands.is_empty() {
            found = false;
            detail = format!("snapshot_{i}_not_in_destination");
        }
        for d in cands {
            copies += 1;
            match listing(&dst, d) {
                Ok(l) => {
                    if l != lists[i] {
                        ls_equal = false;
                        detail = format!("listing_of_snapshot_{i}_differs");
                    }
                    if dumps(&dst, &l) != src_dumps[i] {
                        dump_equal = false;
                        detail = format!("dump_of_snapshot_{i}_differs");
                    }
                }
                Err(e) => {
                    ls_equal = false;
                    detail = format!("listing_of_snapshot_{i}_fails:{}", flat(&e.to_string()));
                }
            }
        }
    }
    // one real restore from both repositories
    let mut restore_equal = true;
    if variant & 16 == 16 && found {
        let (ra, rb) = (td.path().join("ra"), td.path().join("rb"));
        let d = dsnaps.iter().find(|d| d.tree == s2.tree && d.time == s2.time).unwrap();
        let _ = restore_to(src.drop_index(), &s2.id.to_hex(), &ra, RestoreOptions::default())?;
        let r2 = restore_to(dst.drop_index(), &d.id.to_hex(), &rb, RestoreOptions::default());
        match r2 {
            Ok(_) => {
                let diffs = compare_dirs(&ra, &rb, CmpOpts { dir_mtime: false, ..CmpOpts::default() })?; // directory mtimes after a restore are C14's business
                if !diffs.is_empty() {
                    restore_equal = false;
                    detail = flat(&format!("restore_differs:{}", diffs[0]));
                }
            }
            Err(e) => {
                restore_equal = false;
                detail = flat(&format!("restore_from_destination_fails:{e}"));
            }
        }
    }
    if !needed_ok && detail.is_empty() {
        detail = "blobs_added_to_the_destination_index_are_not_exactly_reachable_minus_present".into();
    }
    let ok = check && ls_equal && dump_equal && found && restore_equal && needed_ok;
    Ok(format!(
        "{} check={} found={} ls_equal={} dump_equal={} restore_equal={} needed_ok={} needed={needed_total} damaged={damaged} lost_blobs={lost_blobs} lost_tree_pack={lost_tree_pack} copies={} present_before={} coll={} coll_tree={} prepop={} files={} detail={}{extra}",
        if ok { "ok" } else { "fail what=copy" },
        u8::from(check), u8::from(found), u8::from(ls_equal), u8::from(dump_equal), u8::from(restore_equal), u8::from(needed_ok), copies, present,
        u8::from(coll), coll_tree, u8::from(prepop), lists.iter().map(Vec::len).sum::<usize>(), if detail.is_empty() { "-".into() } else { detail }
    ))
}

// ------------------------------------------------------------------ mode G (merge e2e)

fn gen_clash(r: &mut SplitMix, odd: bool, depth: usize, prefix: &Path, out: &mut Vec<Entry>) {
    let mut pool: Vec<&[u8]> = vec![b"a", b"b", b"c", b"d0", b"d", b"e"];
    if odd {
        // names whose order changes under escaping (tab -> "\t", 0xff -> "\xff")
        pool.extend_from_slice(&[b"x\ty", b"xAy", b"q\xffz", b"qzz"]);
    }
    for name in pool {
        if r.below(10) >= 6 {
            continue;
        }
        let path = prefix.join(OsStr::from_bytes(name));
        let mtime = (1_600_000_000 + r.below(3) as i64, 0);
        match r.below(7) {
            0 | 1 if depth > 0 => {
                out.push(Entry { path: path.clone(), kind: Kind::Dir, mode: 0o755, mtime });
                gen_clash(r, odd, depth - 1, &path, out);
            }
            2 => out.push(Entry { path, kind: Kind::Symlink(format!("t{}", r.below(3)).into_bytes()), mode: 0o777, mtime }),
            _ => {
                let c = Content::Random { seed: r.below(4), len: 10 + r.below(3) as usize * 700 };
                out.push(Entry { path, kind: Kind::File(c), mode: [0o644, 0o600][r.below(2) as usize], mtime });
            }
        }
    }
}

fn mode_g(seed: u64, k: u64, odd: bool) -> Result<String> {
    let mut r = SplitMix(seed);
    let td = tempfile::tempdir()?;
    let (mut repo, _key) = init_repo(mem(), None, &small_pack_config(3_000, 1_000), &repo_opts())?;
    let mut snaps = Vec::new();
    for i in 0..k {
        let mut es = Vec::new();
        gen_clash(&mut r, odd, 2, Path::new(""), &mut es);
        let d = td.path().join(format!("s{i}"));
        materialize(&d, &es)?;
        // the source root itself gets one of three mtimes, too
        set_mtime(&d, (1_600_000_000 + r.below(3) as i64, 0))?;
        let (rp, s) = backup_dir(repo, &d, "src", None)?;
        repo = rp;
        snaps.push(s);
    }
    let repo = repo.to_indexed()?;
    let merged = repo.merge_snapshots(&snaps, &last_modified_node, SnapshotFile::default())?;
    let repo = repo.drop_index();
    let check = check_clean(&repo)?;
    let repo = repo.to_indexed()?;
    let get = |id: &TreeId| -> Result<Tree> { Ok(repo.get_tree(id)?) };
    let mut out = format!("ok check={}", u8::from(check));
    for s in &snaps {
        out.push_str(" | T");
        render(&get, &s.tree, Style::Real, &mut out)?;
    }
    out.push_str(" | R");
    render(&get, &merged.tree, Style::Real, &mut out)?;
    // every file of the merged snapshot must dump
    let l = listing(&repo, &merged)?;
    let bad = dumps(&repo, &l).values().filter(|v| v.is_none()).count();
    out.push_str(&format!(" | dump_failures={bad}"));
    Ok(out)
}

// ------------------------------------------------------------------ mode W (rewrite)

fn mode_w(seed: u64, variant: u64) -> Result<String> {
    let mut r = SplitMix(seed);
    let tp = TreeParams { max_entries: 40, max_depth: 4, max_file: 20_000, odd_names: false, symlinks: true, hardlinks: true };
    let mut es = gen_tree(&mut r, &TreeParams { max_entries: if variant & 4 == 4 { 12 } else { 40 }, ..tp.clone() });
    // variant bit 4: ONE tree blob referenced from several paths.  Directories that hold hard links to the same
    // files have identical nodes, hence one tree blob: sa, sb, sc (flat) and sp/sub, sq/sub (nested).
    let shared = variant & 4 == 4;
    let mut anchored: Vec<String> = Vec::new();
    if shared {
        let t = (1_600_000_000, 0);
        let names = ["x.txt", "y.txt", "z.bin"];
        for (i, n) in names.iter().enumerate() {
            es.push(Entry { path: Path::new("sa").join(n), kind: Kind::File(Content::Random { seed: 77 + i as u64, len: 100 + 3000 * i }), mode: 0o644, mtime: t });
        }
        for dir in ["sb", "sc", "sp/sub", "sq/sub"] {
            for n in names {
                es.push(Entry { path: Path::new(dir).join(n), kind: Kind::Hardlink(Path::new("sa").join(n)), mode: 0o644, mtime: t });
            }
        }
        // anchored excludes below exactly one (or two) of the occurrences; the walk visits sa < sb < sc < sp < sq
        let occ = ["sa", "sb", "sc", "sp/sub", "sq/sub"];
        let k = 1 + r.below(2);
        for _ in 0..k {
            let dir = occ[r.below(5) as usize];
            let n = names[r.below(3) as usize];
            anchored.push(format!("!/src/{dir}/{n}"));
        }
    }
    let td = tempfile::tempdir()?;
    let d = td.path().join("d");
    materialize(&d, &es)?;
    let (repo, _key) = init_repo(mem(), None, &small_pack_config(10_000, 1_500), &repo_opts())?;
    let (repo, snap) = backup_dir(repo, &d, "src", None)?;
    let repo = repo.to_indexed()?;
    let before = listing(&repo, &snap)?;
    let before_dumps = dumps(&repo, &before);
    // how many directories share their tree blob with another directory?
    let mut by_tree: BTreeMap<String, usize> = BTreeMap::new();
    for (_, n) in &before {
        if let (true, Some(t)) = (n.is_dir(), &n.subtree) {
            *by_tree.entry(t.to_hex().to_string()).or_default() += 1;
        }
    }
    let shared_dirs: usize = by_tree.values().filter(|c| **c > 1).sum();
    // exclude globs: literal paths of existing entries, bare names, name prefixes with a star
    let mut globs = anchored.clone();
    let ng = if variant & 1 == 1 { 0 } else if shared { r.below(2) } else { 1 + r.below(3) };
    for _ in 0..ng {
        if before.is_empty() {
            break;
        }
        let (p, _) = &before[r.below(before.len() as u64) as usize];
        let ps = p.to_string_lossy().to_string();
        let name = p.file_name().map(|n| n.to_string_lossy().to_string()).unwrap_or_default();
        globs.push(match r.below(5) {
            0 | 1 => format!("!/{ps}"),
            2 => format!("!{name}"),
            3 => format!("!{}*", &name[..name.len().min(2)]),
            _ => format!("!{ps}/*"),
        });
    }
    // variant bit 8: globs that may match the ROOT path itself (the empty path handed to Rewriter::rewrite_tree)
    if variant & 8 == 8 {
        globs = vec![["!*", "!**", "!/**", "!/*", "!**/*"][r.below(5) as usize].to_string()];
    }
    let excludes = Excludes::default().globs(globs.clone());
    let matcher = excludes.as_override()?;
    let root_ignored = matcher.matched(Path::new(""), true).is_ignore();
    let ident = NodeModification::default()
        .set_atime(TimeOption::Yes)
        .set_ctime(TimeOption::Yes)
        .set_devid(rustic_core::DevIdOption::Yes)
        .set_xattrs(rustic_core::XattrOption::Yes);
    let mut topts = RewriteTreesOptions::default().excludes(excludes);
    if variant & 2 == 2 {
        topts = topts.node_modification(ident);
    }
    let before_ids: BTreeSet<String> = repo.get_all_snapshots()?.iter().map(|s| s.id.to_hex().to_string()).collect();
    let res = repo.rewrite_snapshots_and_trees(vec![snap.clone()], &RewriteOptions::default(), &topts)?;
    let repo = repo.drop_index();
    let check = check_clean(&repo)?;
    let repo = repo.to_indexed()?;
    let after_snaps = repo.get_all_snapshots()?;
    let new: Vec<&SnapshotFile> = after_snaps.iter().filter(|s| !before_ids.contains(s.id.to_hex().as_str())).collect();
    // oracle: exactly the paths with an ignored prefix (the matcher decides) disappear
    let mut isdir: BTreeMap<PathBuf, bool> = BTreeMap::new();
    for (p, n) in &before {
        let _ = isdir.insert(p.clone(), n.is_dir());
    }
    let excluded = |p: &Path| -> bool {
        let mut q = PathBuf::new();
        for c in p.components() {
            q.push(c);
            if matcher.matched(&q, *isdir.get(&q).unwrap_or(&false)).is_ignore() {
                return true;
            }
        }
        false
    };
    let expect: Vec<(PathBuf, Node)> = before.iter().filter(|(p, _)| !excluded(p)).map(|(p, n)| (p.clone(), strip_sub(n))).collect();
    let nexcl = before.len() - expect.len();
    let (mut paths_ok, mut nodes_ok, mut dumps_ok) = (true, true, true);
    let mut detail = String::from("-");
    if new.is_empty() {
        if nexcl != 0 {
            paths_ok = false;
            detail = format!("{nexcl}_paths_are_excluded_but_no_snapshot_was_written");
        }
    } else {
        if new.len() != 1 || res.len() != 1 {
            paths_ok = false;
            detail = format!("{}_new_snapshots", new.len());
        }
        let after = listing(&repo, new[0])?;
        let got: Vec<(PathBuf, Node)> = after.iter().map(|(p, n)| (p.clone(), strip_sub(n))).collect();
        if got.iter().map(|x| &x.0).collect::<Vec<_>>() != expect.iter().map(|x| &x.0).collect::<Vec<_>>() {
            paths_ok = false;
            detail = flat(&format!("paths_differ:got_{}_expected_{}", got.len(), expect.len()));
        } else if got != expect {
            nodes_ok = false;
            let i = got.iter().zip(&expect).position(|(a, b)| a != b).unwrap();
            detail = flat(&format!("node_differs:{:?}", got[i].0));
        }
        let ad = dumps(&repo, &after);
        for (p, h) in &ad {
            if before_dumps.get(p) != Some(h) || h.is_none() {
                dumps_ok = false;
                detail = flat(&format!("dump_differs:{p:?}"));
            }
        }
        if nexcl == 0 && new[0].tree != snap.tree {
            nodes_ok = false;
            detail = "tree_id_changed_without_exclusion".into();
        }
    }
    let ok = check && paths_ok && nodes_ok && dumps_ok;
    // material for the extracted TreeModifier/rewrite model: original tree, the matcher's verdict per node, new tree
    let get = |id: &TreeId| -> Result<Tree> { Ok(repo.get_tree(id)?) };
    let mut extra = String::from(" | O");
    render(&get, &snap.tree, Style::Real, &mut extra)?;
    let ign: Vec<String> = before.iter().filter(|(p, n)| matcher.matched(p, n.is_dir()).is_ignore()).map(|(p, _)| path_hex(p)).collect();
    extra.push_str(&format!(" | X {} {}", ign.len(), ign.join(" ")));
    if new.len() == 1 {
        extra.push_str(" | N");
        render(&get, &new[0].tree, Style::Real, &mut extra)?;
    }
    Ok(format!(
        "{} check={} paths_ok={} nodes_ok={} dumps_ok={} entries={} excluded={} root_ignored={} shared_dirs={shared_dirs} new_snapshots={} globs={} detail={}{extra}",
        if ok { "ok" } else { "fail what=rewrite" },
        u8::from(check), u8::from(paths_ok), u8::from(nodes_ok), u8::from(dumps_ok), before.len(), nexcl, u8::from(root_ignored), new.len(),
        flat(&globs.join(",")), detail
    ))
}

// ------------------------------------------------------------------ mode R (repair)

fn mode_r(seed: u64, variant: u64) -> Result<String> {
    let mut r = SplitMix(seed);
    let tp = TreeParams { max_entries: 30, max_depth: 4, max_file: 30_000, odd_names: variant & 4 == 4, symlinks: true, hardlinks: false };
    let mut es = gen_tree(&mut r, &tp);
    // variant bit 8: a file `k` whose marked name `k.repaired` sorts AFTER its siblings `k+`, `k-1` ('+', '-' < '.'):
    // losing k's data renames it in place, the repaired tree is then out of order
    let out_of_order = variant & 8 == 8;
    if out_of_order {
        let t = (1_600_000_000, 0);
        es.push(Entry { path: "m/k".into(), kind: Kind::File(Content::Random { seed: seed ^ 0x5151, len: 3000 }), mode: 0o644, mtime: t });
        es.push(Entry { path: "m/k+".into(), kind: Kind::File(Content::Random { seed: seed ^ 0x5252, len: 50 }), mode: 0o644, mtime: t });
        es.push(Entry { path: "m/k-1".into(), kind: Kind::File(Content::Random { seed: seed ^ 0x5353, len: 60 }), mode: 0o644, mtime: t });
    }
    let es2 = gen_tree(&mut r, &TreeParams { max_entries: 8, ..tp.clone() });
    let td = tempfile::tempdir()?;
    let (d1, d2) = (td.path().join("d1"), td.path().join("d2"));
    materialize(&d1, &es)?;
    let mut e2 = es.clone();
    for e in &es2 {
        let mut e = e.clone();
        e.path = Path::new("zz").join(&e.path);
        e2.push(e);
    }
    materialize(&d2, &e2)?;
    let store = mem();
    let sizes = [1u32, 4_000, 20_000];
    let (repo, key) = init_repo(store.clone(), None, &small_pack_config(sizes[r.below(3) as usize], sizes[r.below(3) as usize]), &repo_opts())?;
    let (repo, s1) = backup_dir(repo, &d1, "src", None)?;
    let (repo, s2) = backup_dir(repo, &d2, "src", None)?;
    let repo = repo.to_indexed()?;
    let snaps = vec![s1.clone(), s2.clone()];
    let lists: Vec<Listing> = snaps.iter().map(|s| listing(&repo, s)).collect::<Result<_>>()?;
    let orig_dumps: Vec<_> = lists.iter().map(|l| dumps(&repo, l)).collect();
    let mut extra = String::new();
    {
        let get = |id: &TreeId| -> Result<Tree> { Ok(repo.get_tree(id)?) };
        for s in &snaps {
            extra.push_str(" | O");
            render(&get, &s.tree, Style::Real, &mut extra)?;
        }
    }
    // phase 1: undamaged repository -> nothing changes (not one byte of the store)
    let store_before = dump_store(store.as_ref());
    repo.repair_snapshots(&RepairSnapshotsOptions::default(), snaps.clone(), false)?;
    let store_after = dump_store(store.as_ref());
    let intact_unchanged = store_before == store_after;
    // phase 2: remove one pack of the chosen type, repair the index, repair the snapshots
    let want_tree = variant & 1 == 1;
    let mut packs: Vec<(Id, usize)> = Vec::new();
    for f in repo.stream_files::<IndexFile>()? {
        let (_, f) = f?;
        for p in f.packs {
            if (p.blob_type() == BlobType::Tree) == want_tree {
                packs.push((Id::from(*p.id), p.blobs.len()));
            }
        }
    }
    if packs.is_empty() {
        return Ok(format!("ok intact_unchanged={} damaged=0", u8::from(intact_unchanged)));
    }
    packs.sort();
    let (mut victim, mut nblobs) = packs[r.below(packs.len() as u64) as usize];
    if out_of_order {
        // lose the data of src/m/k
        if let Some((_, n)) = lists[0].iter().find(|(p, _)| p == Path::new("src/m/k")) {
            if let Some(d) = n.content.iter().flatten().next() {
                let pack = Id::from(*repo.get_index_entry::<DataId>(d)?.pack);
                victim = pack;
                nblobs = packs.iter().find(|p| p.0 == pack).map_or(1, |p| p.1);
            }
        }
    }
    store.remove(FileType::Pack, &victim, false)?;
    let repo = repo.drop_index();
    repo.repair_index(&RepairIndexOptions::default(), false)?;
    drop(repo);
    let repo = open_repo(store.clone(), None, &key, &repo_opts())?.to_indexed()?;
    let before_ids: BTreeSet<String> = repo.get_all_snapshots()?.iter().map(|s| s.id.to_hex().to_string()).collect();
    let opts = RepairSnapshotsOptions::default().delete(variant & 2 == 2);
    // what is missing now: data blobs (L), directories whose subtree cannot be loaded (U, by path; "-" = the root tree)
    {
        let mut lost: BTreeSet<u64> = BTreeSet::new();
        for (oi, l) in lists.iter().enumerate() {
            let mut un: Vec<String> = Vec::new();
            if repo.get_index_entry::<TreeId>(&snaps[oi].tree).is_err() {
                un.push("-".into());
            }
            for (p, n) in l {
                for d in n.content.iter().flatten() {
                    if repo.get_index_entry::<DataId>(d).is_err() {
                        let _ = lost.insert(id_to_u64(&Id::from(**d)) >> 20);
                    }
                }
                if let (true, Some(t)) = (n.is_dir(), &n.subtree) {
                    if repo.get_index_entry::<TreeId>(t).is_err() {
                        un.push(path_hex(p));
                    }
                }
            }
            extra.push_str(&format!(" | U {oi} {} {}", un.len(), un.join(" ")));
        }
        extra.push_str(&format!(" | L {} {}", lost.len(), lost.iter().map(u64::to_string).collect::<Vec<_>>().join(" ")));
    }
    let cur = repo.get_all_snapshots()?;
    repo.repair_snapshots(&opts, cur, false)?;
    drop(repo);
    let repo = open_repo(store.clone(), None, &key, &repo_opts())?;
    let check = check_clean(&repo).unwrap_or(false);
    let repo = repo.to_indexed()?;
    let after = repo.get_all_snapshots()?;
    let (mut kept_ok, mut ls_ok) = (true, true);
    let (mut repaired, mut marked, mut unmarked_files, mut unsorted) = (0, 0, 0, 0);
    let mut detail = String::from("-");
    // originals that got a repaired replacement (they stay in the repository when `delete` is off and
    // are not results of the repair)
    let replaced: BTreeSet<String> = after
        .iter()
        .filter(|s| !before_ids.contains(s.id.to_hex().as_str()))
        .filter_map(|s| s.original.map(|o| o.to_hex().to_string()))
        .collect();
    for s in &after {
        let is_new = !before_ids.contains(s.id.to_hex().as_str());
        if is_new {
            repaired += 1;
        } else if replaced.contains(s.id.to_hex().as_str()) {
            continue;
        }
        // which original does it stem from?
        let oi = match (is_new, &s.original) {
            (true, Some(o)) => snaps.iter().position(|x| x.id == *o),
            (false, _) => snaps.iter().position(|x| x.id == s.id),
            _ => None,
        };
        let Some(oi) = oi else {
            kept_ok = false;
            detail = "repaired_snapshot_without_original".into();
            continue;
        };
        if is_new {
            let get = |id: &TreeId| -> Result<Tree> { Ok(repo.get_tree(id)?) };
            let mut t = format!(" | N {oi}");
            if render(&get, &s.tree, Style::Real, &mut t).is_ok() {
                extra.push_str(&t);
            }
        }
        if !is_new && opts.delete {
            // an untouched snapshot must still be fully intact
        }
        let l = match listing(&repo, s) {
            Ok(l) => l,
            Err(e) => {
                // a snapshot that was left in place although damaged is only acceptable when nothing new replaced it
                ls_ok = false;
                detail = flat(&format!("listing_fails:{e}"));
                continue;
            }
        };
        let orig: BTreeMap<&PathBuf, &Node> = lists[oi].iter().map(|(p, n)| (p, n)).collect();
        let d = dumps(&repo, &l);
        let mut prev: Option<(PathBuf, std::ffi::OsString)> = None;
        for (p, n) in &l {
            let parent = p.parent().map(Path::to_path_buf).unwrap_or_default();
            if let Some((pp, pn)) = &prev {
                if *pp == parent && pn.as_os_str() >= &*n.name() {
                    unsorted += 1;
                }
            }
            prev = Some((parent, n.name().into_owned()));
            if !n.is_file() {
                continue;
            }
            let is_marked = n.name.ends_with(".repaired") && orig.get(p).is_none_or(|o| o.content != n.content);
            if is_marked {
                marked += 1;
                continue;
            }
            unmarked_files += 1;
            match orig.get(p) {
                None => {
                    kept_ok = false;
                    detail = flat(&format!("unmarked_file_not_in_original:{p:?}"));
                }
                Some(o) => {
                    if o.content != n.content {
                        kept_ok = false;
                        detail = flat(&format!("unmarked_file_with_changed_chunk_list:{p:?}"));
                    } else if d.get(p).cloned().flatten().is_none() || d.get(p) != orig_dumps[oi].get(p) {
                        kept_ok = false;
                        detail = flat(&format!("unmarked_file_does_not_dump_to_its_original_content:{p:?}"));
                    }
                }
            }
        }
    }
    // a repaired snapshot is a snapshot like any other: every entry must be found by path, and merging it with
    // itself must give back its paths (the marker suffix can put a renamed file out of order in its tree)
    let new_snaps: Vec<SnapshotFile> = after.iter().filter(|s| !before_ids.contains(s.id.to_hex().as_str())).cloned().collect();
    let (mut lookup_ok, mut merge_self_ok) = (true, true);
    for s in &new_snaps {
        if let Ok(l) = listing(&repo, s) {
            for (p, n) in &l {
                match repo.node_from_path(s.tree, p) {
                    Ok(m) if m == *n => {}
                    _ => lookup_ok = false,
                }
            }
        }
    }
    let mut merged = Vec::new();
    for s in &new_snaps {
        merged.push((s.clone(), repo.merge_snapshots(&[s.clone(), s.clone()], &last_modified_node, SnapshotFile::default())?));
    }
    let repo = repo.drop_index().to_indexed()?;
    for (s, m) in &merged {
        let mut a: Vec<PathBuf> = listing(&repo, s)?.into_iter().map(|x| x.0).collect();
        let mut b: Vec<PathBuf> = listing(&repo, m)?.into_iter().map(|x| x.0).collect();
        a.sort();
        b.sort();
        if a != b {
            merge_self_ok = false;
            if detail == "-" {
                detail = format!("merging_a_repaired_snapshot_with_itself_gives_{}_paths_instead_of_{}", b.len(), a.len());
            }
        }
    }
    if !lookup_ok && detail == "-" {
        detail = "entry_of_a_repaired_snapshot_not_found_by_path".into();
    }
    // with `delete` the damaged originals are gone, so the whole repository must check clean again
    let base_ok = intact_unchanged && kept_ok && ls_ok && lookup_ok && merge_self_ok;
    let ok = base_ok && (!opts.delete || check);
    if ok != base_ok {
        detail = "check_reports_errors_after_repair_with_delete".into();
    }
    Ok(format!(
        "{} intact_unchanged={} damaged=1 tree_pack={} blobs_lost={} kept_ok={} ls_ok={} check={} repaired={} marked={} unmarked_files={} unsorted={} lookup_ok={} merge_self_ok={} snapshots_after={} detail={}{extra}",
        if ok { "ok" } else { "fail what=repair" },
        u8::from(intact_unchanged), u8::from(want_tree), nblobs, u8::from(kept_ok), u8::from(ls_ok), u8::from(check), repaired, marked,
        unmarked_files, unsorted, u8::from(lookup_ok), u8::from(merge_self_ok), after.len(), detail
    ))
}

// ------------------------------------------------------------------ mode S (copy from a damaged source)

/// S <seed>: the SOURCE loses one data pack (+ repair_index); its snapshots are copied into a fresh destination.
/// copy.rs skips needed ids the source index does not know (`filter_map`): the copy must succeed, add exactly
/// `needed` (reachable - present in destination, known to the source) and every file whose chunks the source
/// still has must dump identically from the destination.
fn mode_s(seed: u64) -> Result<String> {
    let mut r = SplitMix(seed);
    let tp = TreeParams { max_entries: 20, max_depth: 3, max_file: 20_000, odd_names: false, symlinks: true, hardlinks: false };
    let es = gen_tree(&mut r, &tp);
    let td = tempfile::tempdir()?;
    let d1 = td.path().join("d1");
    materialize(&d1, &es)?;
    let sstore = mem();
    let (src, skey) = init_repo(sstore.clone(), None, &small_pack_config(3_000, 1_000), &repo_opts())?;
    let (src, s1) = backup_dir(src, &d1, "src", None)?;
    let srci = src.to_indexed()?;
    let l = listing(&srci, &s1)?;
    let orig = dumps(&srci, &l);
    let get = |id: &TreeId| -> Result<Tree> { Ok(srci.get_tree(id)?) };
    let short = |id: &Id| id_to_u64(id) >> 20;
    let mut extra = String::from(" | T");
    render(&get, &s1.tree, Style::Real, &mut extra)?;
    let dirs: Vec<String> = l
        .iter()
        .filter_map(|(p, n)| match (n.is_dir(), &n.subtree) {
            (true, Some(t)) => Some(format!("{} {}", path_hex(p), short(&Id::from(**t)))),
            _ => None,
        })
        .collect();
    extra.push_str(&format!(" | I 0 {} {} {}", short(&Id::from(*s1.tree)), dirs.len(), dirs.join(" ")));
    let mut reach: BTreeSet<(bool, Id)> = BTreeSet::new();
    let _ = reach.insert((true, Id::from(*s1.tree)));
    for (_, n) in &l {
        for d in n.content.iter().flatten() {
            let _ = reach.insert((false, Id::from(**d)));
        }
        if let (true, Some(t)) = (n.is_dir(), &n.subtree) {
            let _ = reach.insert((true, Id::from(**t)));
        }
    }
    // lose one data pack of the source
    let mut packs: Vec<Id> = Vec::new();
    for f in srci.stream_files::<IndexFile>()? {
        let (_, f) = f?;
        for p in f.packs {
            if p.blob_type() == BlobType::Data {
                packs.push(Id::from(*p.id));
            }
        }
    }
    packs.sort();
    if packs.is_empty() {
        return Ok("ok damaged=0".into());
    }
    let victim = packs[r.below(packs.len() as u64) as usize];
    drop(get);
    let src = srci.drop_index();
    sstore.remove(FileType::Pack, &victim, false)?;
    src.repair_index(&RepairIndexOptions::default(), false)?;
    drop(src);
    let src = open_repo(sstore.clone(), None, &skey, &repo_opts())?.to_indexed()?;
    let six: BTreeSet<(bool, Id)> = index_set(&src)?.intersection(&reach).copied().collect();
    let (dst, _dkey) = init_repo(mem(), None, &small_pack_config(5_000, 2_000), &repo_opts())?;
    let dst = dst.to_indexed_ids()?;
    let before = index_set(&dst)?;
    let res = src.copy(&dst, [&s1]);
    let after = index_set(&dst)?;
    let added: BTreeSet<(bool, Id)> = after.difference(&before).copied().collect();
    let fmt = |st: &BTreeSet<(bool, Id)>| st.iter().map(|(t, i)| format!("{} {}", u8::from(*t), short(i))).collect::<Vec<_>>().join(" ");
    extra.push_str(&format!(" | Q 0 1 0 | B 0 0  | S 0 {} {} | D 0 {} {}", six.len(), fmt(&six), added.len(), fmt(&added)));
    let needed_ok = added == six;
    // files whose chunks the source still has dump identically from the destination
    let mut kept_ok = true;
    let mut intact_files = 0;
    if res.is_ok() {
        let dst = dst.drop_index().to_indexed()?;
        for d in dst.get_all_snapshots()? {
            let dl = listing(&dst, &d)?;
            let dd = dumps(&dst, &dl);
            for (p, n) in &dl {
                if n.is_file() && n.content.iter().flatten().all(|c| six.contains(&(false, Id::from(**c)))) {
                    intact_files += 1;
                    if dd.get(p).cloned().flatten().is_none() || dd.get(p) != orig.get(p) {
                        kept_ok = false;
                    }
                }
            }
        }
    }
    let ok = res.is_ok() && needed_ok && kept_ok;
    Ok(format!(
        "{} damaged=1 copy_ok={} needed_ok={} kept_ok={} lost={} intact_files={intact_files}{extra}",
        if ok { "ok" } else { "fail what=copy_damaged_source" },
        u8::from(res.is_ok()), u8::from(needed_ok), u8::from(kept_ok), reach.len() - six.len()
    ))
}

// ------------------------------------------------------------------ mode F (a pack upload fails)

/// Backend wrapper that fails the k-th `write_bytes(Pack, ..)` after it was armed (the inner backend is not called).
#[derive(Debug)]
struct FailPack {
    inner: Arc<dyn WriteBackend>,
    seen: std::sync::atomic::AtomicUsize,
    fail_at: std::sync::atomic::AtomicUsize,
}
impl FailPack {
    fn new(inner: Arc<dyn WriteBackend>) -> Arc<Self> {
        Arc::new(Self { inner, seen: 0.into(), fail_at: usize::MAX.into() })
    }
    fn arm(&self, k: usize) {
        self.seen.store(0, std::sync::atomic::Ordering::SeqCst);
        self.fail_at.store(k, std::sync::atomic::Ordering::SeqCst);
    }
    fn disarm(&self) -> usize {
        self.fail_at.store(usize::MAX, std::sync::atomic::Ordering::SeqCst);
        self.seen.load(std::sync::atomic::Ordering::SeqCst)
    }
}
impl ReadBackend for FailPack {
    fn location(&self) -> String {
        self.inner.location()
    }
    fn list_with_size(&self, tpe: FileType) -> rustic_core::RusticResult<Vec<(Id, u32)>> {
        self.inner.list_with_size(tpe)
    }
    fn read_full(&self, tpe: FileType, id: &Id) -> rustic_core::RusticResult<bytes::Bytes> {
        self.inner.read_full(tpe, id)
    }
    fn read_partial(&self, tpe: FileType, id: &Id, cacheable: bool, offset: u32, length: u32) -> rustic_core::RusticResult<bytes::Bytes> {
        self.inner.read_partial(tpe, id, cacheable, offset, length)
    }
    fn warmup_path(&self, tpe: FileType, id: &Id) -> String {
        self.inner.warmup_path(tpe, id)
    }
}
impl WriteBackend for FailPack {
    fn create(&self) -> rustic_core::RusticResult<()> {
        self.inner.create()
    }
    fn write_bytes(&self, tpe: FileType, id: &Id, cacheable: bool, buf: rustic_core::BytesList) -> rustic_core::RusticResult<()> {
        if tpe == FileType::Pack {
            let n = self.seen.fetch_add(1, std::sync::atomic::Ordering::SeqCst);
            if n == self.fail_at.load(std::sync::atomic::Ordering::SeqCst) {
                return Err(rustic_core::RusticError::new(rustic_core::ErrorKind::Backend, "injected fault: pack upload failed"));
            }
        }
        self.inner.write_bytes(tpe, id, cacheable, buf)
    }
    fn remove(&self, tpe: FileType, id: &Id, cacheable: bool) -> rustic_core::RusticResult<()> {
        self.inner.remove(tpe, id, cacheable)
    }
}

/// every snapshot of the repository lists, every file dumps, check(read_data) is clean
fn repo_complete(be: Arc<dyn WriteBackend>, key: &rustic_core::repofile::MasterKey) -> Result<(bool, usize)> {
    let repo = open_repo(be.clone(), None, key, &repo_opts())?;
    let clean = check_clean(&repo).unwrap_or(false);
    let repo = repo.to_indexed()?;
    let mut ok = clean;
    let snaps = repo.get_all_snapshots()?;
    for s in &snaps {
        match listing(&repo, s) {
            Ok(l) => {
                if dumps(&repo, &l).values().any(Option::is_none) {
                    ok = false;
                }
            }
            Err(_) => ok = false,
        }
    }
    Ok((ok, snaps.len()))
}

/// F <seed> <op> <k>: op 0 copy, 1 merge, 2 rewrite, 3 repair; the k-th pack upload of the command fails.
/// Oracle: the command returns an error, or every snapshot of the repository it wrote to is complete.
fn mode_f(seed: u64, op: u64, k: u64) -> Result<String> {
    let mut r = SplitMix(seed);
    let td = tempfile::tempdir()?;
    // sources: several incompressible files and nested directories, so that tiny packs give many pack files
    let mut es: Vec<Entry> = Vec::new();
    let t = (1_600_000_000, 0);
    for i in 0..6u64 {
        es.push(Entry { path: format!("f{i}").into(), kind: Kind::File(Content::Random { seed: seed ^ (i * 7919), len: 3000 + 500 * i as usize }), mode: 0o644, mtime: t });
        es.push(Entry { path: format!("d{}/e{}/g{i}", i % 3, i % 2).into(), kind: Kind::File(Content::Random { seed: seed ^ (i * 104_729), len: 700 }), mode: 0o644, mtime: t });
    }
    let (d1, d2) = (td.path().join("d1"), td.path().join("d2"));
    materialize(&d1, &es)?;
    let mut es2 = es.clone();
    es2.truncate(8);
    es2.push(Entry { path: "d0/e0/new".into(), kind: Kind::File(Content::Random { seed: seed ^ 5, len: 900 }), mode: 0o600, mtime: (1_600_000_009, 0) });
    materialize(&d2, &es2)?;
    let small = small_pack_config(2_000, 1);
    let store = mem();
    let fp = FailPack::new(store.clone());
    let (repo, key) = init_repo(fp.clone(), None, &small, &repo_opts())?;
    let (repo, s1) = backup_dir(repo, &d1, "src", None)?;
    let (repo, s2) = backup_dir(repo, &d2, "src", None)?;
    let _ = r.next();
    let (result, packs, target, tkey): (Result<()>, usize, Arc<dyn WriteBackend>, rustic_core::repofile::MasterKey) = match op {
        0 => {
            let dstore = mem();
            let dfp = FailPack::new(dstore.clone());
            let (dst, dkey) = init_repo(dfp.clone(), None, &small, &repo_opts())?;
            let src = repo.to_indexed()?;
            let dst = dst.to_indexed_ids()?;
            dfp.arm(k as usize);
            let res = src.copy(&dst, [&s1, &s2]).map_err(anyhow::Error::from);
            let n = dfp.disarm();
            (res, n, dstore, dkey)
        }
        1 => {
            let repo = repo.to_indexed()?;
            fp.arm(k as usize);
            let res = repo.merge_snapshots(&[s1.clone(), s2.clone()], &last_modified_node, SnapshotFile::default()).map(|_| ()).map_err(anyhow::Error::from);
            (res, fp.disarm(), store.clone(), key.clone())
        }
        2 => {
            let repo = repo.to_indexed()?;
            let topts = RewriteTreesOptions::default().excludes(Excludes::default().globs(vec!["!g1".to_string(), "!/src/d0/e0/g0".to_string(), "!f2".to_string()]));
            fp.arm(k as usize);
            let res = repo.rewrite_snapshots_and_trees(vec![s1.clone(), s2.clone()], &RewriteOptions::default(), &topts).map(|_| ()).map_err(anyhow::Error::from);
            (res, fp.disarm(), store.clone(), key.clone())
        }
        _ => {
            // lose the data of one nested file in both snapshots, repair the index, then repair the snapshots
            let repo = repo.to_indexed()?;
            let l = listing(&repo, &s1)?;
            let victim = l.iter().find(|(p, _)| p == Path::new("src/d1/e1/g1")).and_then(|(_, n)| n.content.iter().flatten().next().copied());
            if let Some(d) = victim {
                let pack = Id::from(*repo.get_index_entry::<DataId>(&d)?.pack);
                store.remove(FileType::Pack, &pack, false)?;
            }
            let repo = repo.drop_index();
            repo.repair_index(&RepairIndexOptions::default(), false)?;
            drop(repo);
            let repo = open_repo(fp.clone(), None, &key, &repo_opts())?.to_indexed()?;
            let cur = repo.get_all_snapshots()?;
            fp.arm(k as usize);
            let res = repo.repair_snapshots(&RepairSnapshotsOptions::default(), cur, false).map_err(anyhow::Error::from);
            (res, fp.disarm(), store.clone(), key.clone())
        }
    };
    let failed_one = (k as usize) < packs;
    let (complete, nsnaps) = match &result {
        Ok(()) => repo_complete(target, &tkey)?,
        Err(_) => (true, 0),
    };
    Ok(format!(
        "{} op={op} k={k} packs_attempted={packs} fault_hit={} returned={} complete={} snapshots={nsnaps}",
        if complete { "ok" } else { "fail what=fault" },
        u8::from(failed_one),
        if result.is_ok() { "ok" } else { "err" },
        u8::from(complete)
    ))
}

fn mode_f_watchdog(seed: u64, op: u64, k: u64) -> Result<String> {
    let (tx, rx) = std::sync::mpsc::channel();
    let _h = std::thread::spawn(move || {
        let r = std::panic::catch_unwind(|| mode_f(seed, op, k));
        let _ = tx.send(r);
    });
    match rx.recv_timeout(std::time::Duration::from_secs(90)) {
        Err(_) => Ok(format!("fail what=fault op={op} k={k} hang=1")),
        Ok(Err(_)) => Ok(format!("fail what=fault op={op} k={k} panic=1")),
        Ok(Ok(r)) => r,
    }
}

// ------------------------------------------------------------------ main

fn case(line: &str) -> String {
    let mut t = Toks::new(line);
    let mode = t.s();
    let r = match mode {
        "M" => mode_m(&mut t),
        "G" => {
            let (seed, k, odd) = (t.u(), t.u(), t.u());
            mode_g(seed, k, odd == 1)
        }
        "C" => {
            let (seed, v) = (t.u(), t.u());
            mode_c(seed, v)
        }
        "W" => {
            let (seed, v) = (t.u(), t.u());
            mode_w(seed, v)
        }
        "R" => {
            let (seed, v) = (t.u(), t.u());
            mode_r(seed, v)
        }
        "S" => mode_s(t.u()),
        "F" => {
            let (seed, op, k) = (t.u(), t.u(), t.u());
            mode_f_watchdog(seed, op, k)
        }
        _ => Err(anyhow!("unknown mode")),
    };
    match r {
        Ok(s) => s,
        Err(e) => format!("err {}", flat(&format!("{e:#}"))),
    }
}

fn main() {
    let _ = std::io::stderr().flush();
    for_each_case(case);
}
