//! C16 correspondence: the real `HotColdBackend` (via verif hook) over two recording
//! in-memory backends with injected inner failures.
//!
//! Mode `ops` (default): one case per line
//!   `n  op*`  with op =
//!     0 ft id cacheable len seed o1 o2   write_bytes (content = pattern(len, seed); o = outcome of the 1st/2nd inner call)
//!     1 ft id cacheable o1 o2            remove
//!     2 ft id                            read_full
//!     3 ft id cacheable off len          read_partial
//!     4 ft                               list_with_size
//!   ft: 0 Config 1 Index 2 Key 3 Snapshot 4 Pack; outcome: 0 ok, 1 fails without effect, 2 fails after taking effect.
//!   Output: per op `result;state;state…` (one state dump after every inner mutating call), ops joined by ` | `.
//! Mode `e2e`: see `e2e_case`.
use bytes::Bytes;
use rustic_core::verif_hooks::c16::hotcold_backend;
use rustic_core::{BytesList, ErrorKind, FileType, Id, ReadBackend, RusticError, RusticResult, WriteBackend};
use std::collections::{BTreeMap, BTreeSet, VecDeque};
use std::sync::{Arc, Mutex};
use verif_harness::*;


pub const FTS: [FileType; 5] = [FileType::Config, FileType::Index, FileType::Key, FileType::Snapshot, FileType::Pack];
pub fn ft_num(t: FileType) -> u8 {
    match t {
        FileType::Config => 0,
        FileType::Index => 1,
        FileType::Key => 2,
        FileType::Snapshot => 3,
        FileType::Pack => 4,
    }
}

/// One inner mutating call as seen by one of the two stores.
#[derive(Clone, Debug)]
pub struct Ev {
    pub hot: bool,
    pub write: bool,
    pub ft: u8,
    pub id: Id,
    pub cacheable: bool,
    pub data: Option<Bytes>,
    pub effect: bool,
}

/// Both stores, the fault schedule and what was observed.
#[derive(Default)]
pub struct World {
    pub maps: [BTreeMap<(u8, Id), Bytes>; 2], // 0 = hot, 1 = cold
    pub outcomes: VecDeque<u8>,
    pub dumps: Vec<String>,       // ops mode: state after every inner mutating call
    pub dump_states: bool,
    pub log: Vec<Ev>,             // e2e mode: every inner mutating call
    pub cold_rejects_unwarmed: bool,
    pub warm: BTreeSet<(u8, Id)>,
    pub unwarmed_reads: Vec<(u8, Id)>,
    pub cold_reads: Vec<(u8, Id, bool)>, // (ft, id, was warm)
    pub warm_calls: Vec<(u8, Id)>,
    pub normalise_config_id: bool,
    pub fail_at: Option<usize>, // e2e: the n-th inner mutating call (1-based) fails without effect
    /// warm-up by access (archive tier with restore-on-access): a rejected read warms the file, the
    /// explicit warm_up call of the store does nothing and the store does not ask for warm-up itself
    pub access_warms: bool,
    /// warm-up by command: the file the warm-up command appends `<tpe>/<id>` lines to; only those are warm
    pub warm_file: Option<std::path::PathBuf>,
    /// per command: what reached the cold store, in order: (kind, ft, id, served) with kind 0 = warm_up call of
    /// the store, 1 = read, 2 = one-byte probe read (WarmUpAccessBackend::warm_up), 3 = the store cooled down
    pub cold_ev: Vec<(u8, u8, Id, bool)>,
}

impl World {
    pub fn is_warm(&self, k: &(u8, Id)) -> bool {
        match &self.warm_file {
            None => self.warm.contains(k),
            Some(f) => {
                let txt = std::fs::read_to_string(f).unwrap_or_default();
                let tpe = FTS[k.0 as usize].to_string();
                if k.0 == 0 {
                    txt.lines().any(|l| l.starts_with(&format!("{tpe}/")))
                } else {
                    let want = format!("{tpe}/{}", k.1.to_hex().as_str());
                    txt.lines().any(|l| l == want)
                }
            }
        }
    }
    pub fn cool_down(&mut self) {
        self.cold_ev.push((3, 0, Id::default(), true));
        self.warm.clear();
        if let Some(f) = &self.warm_file {
            let _ = std::fs::write(f, b"");
        }
    }
    pub fn dump(&self) -> String {
        let side = |m: &BTreeMap<(u8, Id), Bytes>| {
            m.iter().map(|((ft, id), b)| format!("{}:{}:{}", ft, id_to_u64(id), hex::encode(b))).collect::<Vec<_>>().join(",")
        };
        format!("H{{{}}}C{{{}}}", side(&self.maps[0]), side(&self.maps[1]))
    }
}

#[derive(Clone)]
pub struct MemBe {
    pub w: Arc<Mutex<World>>,
    pub hot: bool,
}

impl std::fmt::Debug for MemBe {
    fn fmt(&self, f: &mut std::fmt::Formatter<'_>) -> std::fmt::Result {
        write!(f, "MemBe({})", if self.hot { "hot" } else { "cold" })
    }
}

fn err(msg: &'static str) -> Box<RusticError> {
    RusticError::new(ErrorKind::Backend, msg)
}

impl MemBe {
    fn idx(&self) -> usize {
        if self.hot { 0 } else { 1 }
    }
    fn key(&self, w: &World, tpe: FileType, id: &Id) -> (u8, Id) {
        if w.normalise_config_id && tpe == FileType::Config { (0, Id::default()) } else { (ft_num(tpe), *id) }
    }
    fn check_warm(&self, w: &mut World, k: (u8, Id), probe: bool) -> RusticResult<()> {
        if !self.hot {
            let warm = w.is_warm(&k);
            w.cold_reads.push((k.0, k.1, warm));
            let served = warm || !w.cold_rejects_unwarmed;
            w.cold_ev.push((if probe { 2 } else { 1 }, k.0, k.1, served));
            if w.cold_rejects_unwarmed && !warm {
                w.unwarmed_reads.push(k);
                if w.access_warms {
                    let _ = w.warm.insert(k);
                }
                return Err(err("file is not warmed-up"));
            }
        }
        Ok(())
    }
}

impl ReadBackend for MemBe {
    fn location(&self) -> String {
        if self.hot { "mem-hot".into() } else { "mem-cold".into() }
    }
    fn list_with_size(&self, tpe: FileType) -> RusticResult<Vec<(Id, u32)>> {
        let w = self.w.lock().unwrap();
        let t = ft_num(tpe);
        Ok(w.maps[self.idx()].iter().filter(|((ft, _), _)| *ft == t).map(|((_, id), b)| (*id, b.len() as u32)).collect())
    }
    fn read_full(&self, tpe: FileType, id: &Id) -> RusticResult<Bytes> {
        let mut w = self.w.lock().unwrap();
        let k = self.key(&w, tpe, id);
        self.check_warm(&mut w, k, false)?;
        w.maps[self.idx()].get(&k).cloned().ok_or_else(|| err("file does not exist"))
    }
    fn read_partial(&self, tpe: FileType, id: &Id, _cacheable: bool, offset: u32, length: u32) -> RusticResult<Bytes> {
        let mut w = self.w.lock().unwrap();
        let k = self.key(&w, tpe, id);
        self.check_warm(&mut w, k, offset == 0 && length == 1)?;
        let b = w.maps[self.idx()].get(&k).cloned().ok_or_else(|| err("file does not exist"))?;
        let (o, l) = (offset as usize, length as usize);
        if o + l > b.len() {
            return Err(err("read_partial out of range"));
        }
        Ok(b.slice(o..o + l))
    }
    fn needs_warm_up(&self) -> bool {
        let w = self.w.lock().unwrap();
        !self.hot && w.cold_rejects_unwarmed && !w.access_warms && w.warm_file.is_none()
    }
    fn warm_up(&self, tpe: FileType, id: &Id) -> RusticResult<()> {
        let mut w = self.w.lock().unwrap();
        let k = self.key(&w, tpe, id);
        if !self.hot {
            w.warm_calls.push(k);
            w.cold_ev.push((0, k.0, k.1, true));
            if !w.access_warms && w.warm_file.is_none() {
                let _ = w.warm.insert(k);
            }
        }
        Ok(())
    }
    fn warmup_path(&self, tpe: FileType, id: &Id) -> String {
        format!("{}/{}", tpe.dirname(), id.to_hex().as_str())
    }
}

impl WriteBackend for MemBe {
    fn create(&self) -> RusticResult<()> {
        Ok(())
    }
    fn write_bytes(&self, tpe: FileType, id: &Id, cacheable: bool, content: BytesList) -> RusticResult<()> {
        let mut w = self.w.lock().unwrap();
        let k = self.key(&w, tpe, id);
        let mut v = Vec::new();
        for b in content.slice() {
            v.extend_from_slice(b);
        }
        let data = Bytes::from(v);
        let o = if w.fail_at == Some(w.log.len() + 1) { 1 } else { w.outcomes.pop_front().unwrap_or(0) };
        let effect = o != 1;
        if effect {
            let _ = w.maps[self.idx()].insert(k, data.clone());
        }
        w.log.push(Ev { hot: self.hot, write: true, ft: k.0, id: k.1, cacheable, data: Some(data), effect });
        if w.dump_states {
            let d = w.dump();
            w.dumps.push(d);
        }
        if o == 0 { Ok(()) } else { Err(err("injected write failure")) }
    }
    fn remove(&self, tpe: FileType, id: &Id, cacheable: bool) -> RusticResult<()> {
        let mut w = self.w.lock().unwrap();
        let k = self.key(&w, tpe, id);
        let o = if w.fail_at == Some(w.log.len() + 1) { 1 } else { w.outcomes.pop_front().unwrap_or(0) };
        let present = w.maps[self.idx()].contains_key(&k);
        let effect = present && o != 1;
        if effect {
            let _ = w.maps[self.idx()].remove(&k);
        }
        w.log.push(Ev { hot: self.hot, write: false, ft: k.0, id: k.1, cacheable, data: None, effect });
        if w.dump_states {
            let d = w.dump();
            w.dumps.push(d);
        }
        if !present {
            return Err(err("file does not exist"));
        }
        if o == 0 { Ok(()) } else { Err(err("injected remove failure")) }
    }
}

pub fn pattern(len: u64, seed: u64) -> Vec<u8> {
    (0..len).map(|i| ((seed.wrapping_add(i.wrapping_mul(7))) % 256) as u8).collect()
}

fn ops_case(line: &str) -> String {
    let mut t = Toks::new(line);
    let n = t.u();
    let w = Arc::new(Mutex::new(World { dump_states: true, ..World::default() }));
    let hot = MemBe { w: w.clone(), hot: true };
    let cold = MemBe { w: w.clone(), hot: false };
    let hc = hotcold_backend(Arc::new(cold), Arc::new(hot));
    let mut out = Vec::new();
    for _ in 0..n {
        let kind = t.u();
        let mut res = String::new();
        match kind {
            0 | 1 => {
                let ft = FTS[t.u() as usize];
                let id = id_from_u64(t.u());
                let c = t.u() == 1;
                let data = if kind == 0 { Some(pattern(t.u(), t.u())) } else { None };
                let (o1, o2) = (t.u() as u8, t.u() as u8);
                {
                    let mut g = w.lock().unwrap();
                    g.outcomes = VecDeque::from(vec![o1, o2]);
                    g.dumps.clear();
                }
                let r = match data {
                    Some(d) => hc.write_bytes(ft, &id, c, BytesList::from(d)),
                    None => hc.remove(ft, &id, c),
                };
                res.push_str(if r.is_ok() { "ok" } else { "err" });
                for d in w.lock().unwrap().dumps.iter() {
                    res.push(';');
                    res.push_str(d);
                }
            }
            2 => {
                let ft = FTS[t.u() as usize];
                let id = id_from_u64(t.u());
                res = match hc.read_full(ft, &id) {
                    Ok(b) => format!("some:{}", hex::encode(b)),
                    Err(_) => "none".into(),
                };
            }
            3 => {
                let ft = FTS[t.u() as usize];
                let id = id_from_u64(t.u());
                let c = t.u() == 1;
                let (off, len) = (t.u() as u32, t.u() as u32);
                res = match hc.read_partial(ft, &id, c, off, len) {
                    Ok(b) => format!("some:{}", hex::encode(b)),
                    Err(_) => "none".into(),
                };
            }
            _ => {
                let ft = FTS[t.u() as usize];
                let mut l = hc.list_with_size(ft).unwrap();
                l.sort();
                res = format!("list:{}", l.iter().map(|(id, s)| format!("{}={}", id_to_u64(id), s)).collect::<Vec<_>>().join(","));
            }
        }
        out.push(res);
    }
    out.join(" | ")
}

// ------------------------------------------------------------------------------ e2e
// Case line: `seed rejects nsteps step* dmg_p dmg_cfg trunc fail_at [wmode]`   (wmode: see new_env)
//   rejects: 1 = the cold store rejects reads of files that were not warmed up first
//   step: 0 v   backup of source variant v
//         1 k   forget the k-th live snapshot (mod count)
//         2 m   prune (m = 0: instant delete, max-unused 0; m = 1: mark only, then delete with keep-delete 0;
//               m = 2: mark only with the default keep-delete, the marked packs stay; m + 3: the same with
//               repack_cacheable_only(false): data packs are repacked, read from the cold store)
//         3 c   config change (compression level c)
//         4     check
//         5     restore the latest snapshot and compare with its source
//         6     repair index --read-all
//         7     check --read-data (plus, on hot+cold, read_full(Pack) of every pack through the real wrapper)
//   dmg_p: per-mille probability with which each hot key/snapshot/index/pack file is removed before the repair
//   fail_at: n > 0: the n-th inner mutating call of the hot/cold run fails without effect (0 = no fault)
//   dmg_cfg: 1 = the hot config is removed too;  trunc: 1 = one remaining hot file is cut short (incomplete)
// The history is run on hot+cold (MemBe pair, every inner mutating call logged) and on a single MemBe store.
// Output: one JSON object per case.
use rustic_core::repofile::SnapshotFile;
use rustic_core::{
    BackupOptions, CheckOptions, ConfigOptions, Credentials, KeyOptions, LimitOption, LocalDestination, LsOptions,
    OpenStatus, PathList, PruneOptions, RepairIndexOptions, Repository, RepositoryBackends, RepositoryOptions,
    RestoreOptions,
};
use sha2::{Digest, Sha256};
use std::collections::HashMap;
use std::path::Path;

struct Env {
    w: Arc<Mutex<World>>,
    bes: RepositoryBackends,
    opts: RepositoryOptions,
    creds: Credentials,
    live: Vec<u64>, // variants of the live snapshots in time order
}

/// wmode 0: the cold store has a warm-up call of its own (`ReadBackend::warm_up`), repository options default;
/// wmode 1: warm-up by access - `RepositoryOptions::warm_up(true)` (the library's WarmUpAccessBackend), the cold
///          store rejects the first read of a file and is warm afterwards;
/// wmode 2: warm-up by command - `RepositoryOptions::warm_up_command("sh -c 'echo %tpe/%id >> FILE'")`, the cold
///          store serves only files listed in FILE.
fn new_env(hotcold: bool, rejects: bool, wmode: u64, tmp: &Path) -> Env {
    let rejects = rejects && hotcold;
    let mut world = World { normalise_config_id: true, cold_rejects_unwarmed: rejects, ..World::default() };
    let mut opts = RepositoryOptions::default().no_cache(true);
    if rejects && wmode == 1 {
        world.access_warms = true;
        opts = opts.warm_up(true);
    }
    if rejects && wmode == 2 {
        let f = tmp.join("warm.txt");
        std::fs::write(&f, b"").unwrap();
        let cmd = format!("sh -c 'echo %tpe/%id >> {}'", f.to_str().unwrap());
        opts = opts.warm_up_command(cmd.parse::<rustic_core::CommandInput>().expect("warm-up command"));
        world.warm_file = Some(f);
    }
    let w = Arc::new(Mutex::new(world));
    let cold: Arc<dyn WriteBackend> = Arc::new(MemBe { w: w.clone(), hot: false });
    let hot: Option<Arc<dyn WriteBackend>> = if hotcold { Some(Arc::new(MemBe { w: w.clone(), hot: true })) } else { None };
    Env { w, bes: RepositoryBackends::new(cold, hot), opts, creds: Credentials::password("pw"), live: vec![] }
}

fn open(e: &Env) -> RusticResult<Repository<OpenStatus>> {
    Repository::new(&e.opts, &e.bes)?.open(&e.creds)
}

fn rnd_bytes(seed: u64, len: usize) -> Vec<u8> {
    let mut r = SplitMix(seed);
    (0..len).map(|_| r.next() as u8).collect()
}

/// variant v: two files shared by all variants, one shared by the variants of the same parity, one of its own
fn mk_source(dir: &Path, v: u64) {
    std::fs::create_dir_all(dir.join("sub")).unwrap();
    std::fs::write(dir.join("c0"), rnd_bytes(1000, 3000)).unwrap();
    std::fs::write(dir.join("c1"), rnd_bytes(1001, 1700)).unwrap();
    std::fs::write(dir.join("sub").join(format!("p{}", v % 2)), rnd_bytes(2000 + v % 2, 4100)).unwrap();
    std::fs::write(dir.join(format!("own{v}")), rnd_bytes(3000 + v, 2500 + 100 * v as usize)).unwrap();
    std::fs::write(dir.join("empty"), b"").unwrap();
}

fn tree_digest(dir: &Path) -> String {
    fn walk(base: &Path, d: &Path, out: &mut Vec<String>) {
        let mut es: Vec<_> = std::fs::read_dir(d).unwrap().map(|e| e.unwrap().path()).collect();
        es.sort();
        for p in es {
            let rel = p.strip_prefix(base).unwrap().to_string_lossy().to_string();
            if p.is_dir() {
                out.push(format!("d {rel}"));
                walk(base, &p, out);
            } else {
                out.push(format!("f {rel} {}", hex::encode(Sha256::digest(std::fs::read(&p).unwrap()))));
            }
        }
    }
    let mut out = vec![];
    walk(dir, dir, &mut out);
    hex::encode(Sha256::digest(out.join("\n").as_bytes()))[..16].to_string()
}

fn res_str<T>(r: &RusticResult<T>) -> String {
    match r {
        Ok(_) => "ok".into(),
        Err(e) => format!("err:{}", e.to_string().lines().next().unwrap_or("").chars().take(160).collect::<String>()),
    }
}

/// The cold-store events of the command that just ran (ids numbered), and - warm-up by command - the packs the
/// command listed in the warm file.
fn take_cold_ev(e: &Env, ids: &mut IdMap) -> serde_json::Value {
    let mut w = e.w.lock().unwrap();
    let ev: Vec<(u8, u8, u64, u8)> = w.cold_ev.drain(..).map(|(k, ft, id, s)| (k, ft, if k == 3 { 0 } else { ids.get(&id) }, s as u8)).collect();
    let mut listed: Vec<u64> = vec![];
    if let Some(f) = &w.warm_file {
        for l in std::fs::read_to_string(f).unwrap_or_default().lines() {
            if let Some(h) = l.strip_prefix("Pack/") {
                if let Ok(id) = Id::from_hex(h) {
                    listed.push(ids.get(&id));
                }
            }
        }
    }
    listed.sort();
    listed.dedup();
    serde_json::json!({"ev": ev, "listed": listed})
}

fn do_step(e: &mut Env, tmp: &Path, step: &[u64]) -> String {
    e.w.lock().unwrap().cold_ev.clear();
    e.w.lock().unwrap().cool_down(); // every command starts with a cold cold store
    let r: RusticResult<String> = (|| {
        match step[0] {
            0 => {
                let v = step[1];
                let src = tmp.join(format!("src{v}"));
                if !src.exists() {
                    mk_source(&src, v);
                }
                let repo = open(e)?.to_indexed_ids()?;
                let opts = BackupOptions::default().as_path(std::path::PathBuf::from("data"));
                let sn = repo.backup(&opts, &PathList::from_string(src.to_str().unwrap())?, SnapshotFile::default())?;
                e.live.push(v);
                Ok(format!("ok tree={}", &sn.tree.to_hex().as_str()[..12]))
            }
            1 => {
                let repo = open(e)?;
                let mut snaps = repo.get_all_snapshots()?;
                if snaps.is_empty() {
                    return Ok("ok none".into());
                }
                snaps.sort_by(|a, b| a.time.cmp(&b.time));
                let k = (step[1] as usize) % snaps.len();
                repo.delete_snapshots(&[snaps[k].id])?;
                let _ = e.live.remove(k);
                Ok("ok".into())
            }
            2 => {
                let repo = open(e)?;
                // step[1] = mode + 3 * r; r = 1: data packs are repacked too (on a hot/cold repository prune repacks
                // only tree packs by default: repack_cacheable_only), so that the repacker reads from the cold store
                let repack_data = step[1] / 3 == 1;
                let step = [step[0], step[1] % 3];
                let instant = step[1] == 0;
                let mut po = PruneOptions::default()
                    .instant_delete(instant)
                    .max_unused(LimitOption::Percentage(0))
                    .keep_pack(rustic_core::jiff::Span::default());
                if repack_data {
                    po = po.repack_cacheable_only(false).max_repack(LimitOption::Unlimited);
                }
                if step[1] != 2 {
                    // mode 2 keeps the default keep-delete (23h): unused packs are only MARKED in the index
                    // (section packs_to_delete) and stay in both stores
                    po = po.keep_delete(rustic_core::jiff::Span::default());
                }
                let plan = repo.prune_plan(&po)?;
                repo.prune(&po, plan)?;
                if step[1] == 1 {
                    e.w.lock().unwrap().cool_down();
                    let repo = open(e)?;
                    let plan = repo.prune_plan(&po)?;
                    repo.prune(&po, plan)?;
                }
                Ok("ok".into())
            }
            3 => {
                let mut repo = open(e)?;
                let changed = repo.apply_config(&ConfigOptions::default().set_compression(step[1] as i32))?;
                Ok(format!("ok changed={changed}"))
            }
            4 => {
                let repo = open(e)?;
                let r = repo.check(CheckOptions::default())?;
                Ok(match r.is_ok() {
                    Ok(()) => "ok clean".into(),
                    Err(er) => format!("ok errors:{}", er.to_string().lines().next().unwrap_or("").chars().take(160).collect::<String>()),
                })
            }
            5 => {
                if e.live.is_empty() {
                    return Ok("ok none".into());
                }
                let repo = open(e)?.to_indexed()?;
                let node = repo.node_from_snapshot_path("latest", |_| true)?;
                let ls = repo.ls(&node, &LsOptions::default())?;
                let dest_dir = tempfile::tempdir_in(tmp).unwrap();
                let dest = LocalDestination::new(dest_dir.path().to_str().unwrap(), true, !node.is_dir())?;
                let ro = RestoreOptions::default();
                let plan = repo.prepare_restore(&ro, ls.clone(), &dest, false)?;
                repo.restore(plan, &ro, ls, &dest)?;
                let v = *e.live.last().unwrap();
                let want = tree_digest(&tmp.join(format!("src{v}")));
                let got = tree_digest(&dest_dir.path().join("data"));
                Ok(format!("ok same={}", want == got))
            }
            6 => {
                let repo = open(e)?;
                repo.repair_index(&RepairIndexOptions::default().read_all(true), false)?;
                Ok("ok".into())
            }
            _ => {
                // check --read-data; on hot+cold additionally read_full(Pack) of every pack through the real wrapper
                let repo = open(e)?;
                let r = repo.check(CheckOptions::default().read_data(true))?;
                let mut s: String = match r.is_ok() {
                    Ok(()) => "ok clean".into(),
                    Err(_) => "ok errors".into(),
                };
                if let Some(hot) = e.bes.repo_hot() {
                    let hc = hotcold_backend(e.bes.repository(), hot);
                    let trees: BTreeSet<Id> = e.w.lock().unwrap().log.iter().filter(|ev| ev.ft == 4 && ev.write && ev.cacheable).map(|ev| ev.id).collect();
                    let packs: Vec<Id> = e.w.lock().unwrap().maps[1].keys().filter(|k| k.0 == 4).map(|k| k.1).collect();
                    let (mut df, mut dn, mut tf, mut tn) = (0, 0, 0, 0);
                    for id in packs {
                        let _ = hc.warm_up(FileType::Pack, &id);
                        let ok = hc.read_full(FileType::Pack, &id).is_ok();
                        if trees.contains(&id) {
                            tn += 1;
                            tf += !ok as u32;
                        } else {
                            dn += 1;
                            df += !ok as u32;
                        }
                    }
                    s.push_str(&format!(" data_read_full_fail={df}/{dn} tree_read_full_fail={tf}/{tn}"));
                }
                Ok(s)
            }
        }
    })();
    match r {
        Ok(s) => s,
        Err(er) => res_str::<()>(&Err(er)),
    }
}

fn observe(e: &Env) -> serde_json::Value {
    // what a user sees: live snapshot trees (time order), number of files per type in the (cold) store
    let w = e.w.lock().unwrap();
    let mut counts = [0u64; 5];
    for ((ft, _), _) in w.maps[1].iter() {
        counts[*ft as usize] += 1;
    }
    serde_json::json!({ "counts": counts.to_vec() })
}

struct IdMap {
    m: HashMap<Id, u64>,
}
impl IdMap {
    fn get(&mut self, id: &Id) -> u64 {
        let n = self.m.len() as u64 + 1;
        *self.m.entry(*id).or_insert(n)
    }
}
fn abs_content(b: &Bytes) -> (u64, u64) {
    let d = Sha256::digest(b);
    (b.len() as u64, u32::from_be_bytes([d[0], d[1], d[2], d[3]]) as u64 >> 2)
}

fn log_line(w: &World, ids: &mut IdMap, from: usize) -> (String, Vec<u64>) {
    let mut trees: BTreeSet<u64> = BTreeSet::new();
    for ev in &w.log {
        if ev.ft == 4 && ev.write && ev.cacheable {
            let _ = trees.insert(ids.get(&ev.id));
        }
    }
    let mut t: Vec<String> = vec![trees.len().to_string()];
    t.extend(trees.iter().map(|x| x.to_string()));
    t.push(w.log.len().to_string());
    for ev in &w.log {
        let (len, h) = ev.data.as_ref().map(abs_content).unwrap_or((0, 0));
        t.push(format!("{} {} {} {} {} {} {}", if ev.hot { 0 } else { 1 }, ev.write as u8, ev.ft, ids.get(&ev.id), len, h, ev.effect as u8));
    }
    let _ = from;
    (t.join(" "), trees.into_iter().collect())
}

fn state_line(w: &World, ids: &mut IdMap, with_config: bool) -> String {
    let side = |m: &BTreeMap<(u8, Id), Bytes>, ids: &mut IdMap| {
        let mut v: Vec<(u8, u64, u64, u64)> = m
            .iter()
            .filter(|((ft, _), _)| with_config || *ft != 0)
            .map(|((ft, id), b)| {
                let (l, h) = abs_content(b);
                (*ft, ids.get(id), l, h)
            })
            .collect();
        v.sort();
        v
    };
    let h = side(&w.maps[0], ids);
    let c = side(&w.maps[1], ids);
    let f = |v: &Vec<(u8, u64, u64, u64)>| v.iter().map(|(a, b, c, d)| format!("{a}:{b}:{c}:{d}")).collect::<Vec<_>>().join(",");
    format!("H{{{}}}C{{{}}}", f(&h), f(&c))
}

fn e2e_case(line: &str) -> String {
    let mut t = Toks::new(line);
    let seed = t.u();
    let rejects = t.u() == 1;
    let n = t.u();
    let mut steps: Vec<Vec<u64>> = vec![];
    for _ in 0..n {
        let k = t.u();
        let mut s = vec![k];
        if k <= 3 {
            s.push(t.u());
        }
        steps.push(s);
    }
    let (dmg_p, dmg_cfg, trunc) = (t.u(), t.u() == 1, t.u() == 1);
    let fail_at = t.u() as usize;
    let wmode: u64 = t.opt_s().map(|x| x.parse().expect("wmode")).unwrap_or(0);
    let tmp = tempfile::tempdir().unwrap();
    let mut out = serde_json::Map::new();
    let mut hc = new_env(true, rejects, wmode, tmp.path());
    let mut single = new_env(false, false, 0, tmp.path());
    let mut step_res = vec![];
    for (name, e) in [("hc", &mut hc), ("single", &mut single)] {
        let r = Repository::new(&e.opts, &e.bes).and_then(|r| r.init(&e.creds, &KeyOptions::default(), &ConfigOptions::default()));
        let _ = out.insert(format!("init_{name}"), res_str(&r).into());
        // later opens use the master key (no scrypt per open); the key files are still listed and compared
        if let Ok(r) = r {
            e.creds = Credentials::Masterkey(r.key());
        }
    }
    if fail_at > 0 {
        hc.w.lock().unwrap().fail_at = Some(fail_at);
    }
    let mut marks = vec![];
    let mut ids = IdMap { m: HashMap::new() };
    for s in &steps {
        let a = do_step(&mut hc, tmp.path(), s);
        let cold = take_cold_ev(&hc, &mut ids);
        let b = do_step(&mut single, tmp.path(), s);
        marks.push(hc.w.lock().unwrap().log.len());
        step_res.push(serde_json::json!({"step": s, "hc": a, "single": b, "obs_hc": observe(&hc), "obs_single": observe(&single), "cold": cold}));
    }
    let _ = out.insert("steps".into(), step_res.into());
    let hist_len = hc.w.lock().unwrap().log.len();
    let _ = out.insert("hist_len".into(), hist_len.into());
    let _ = out.insert("marks".into(), marks.into());
    let _ = out.insert("unwarmed_reads_history".into(), hc.w.lock().unwrap().unwarmed_reads.len().into());
    {
        let w = hc.w.lock().unwrap();
        let cold_pack_reads = w.cold_reads.iter().filter(|(ft, _, _)| *ft == 4).count();
        let _ = out.insert("cold_pack_reads".into(), cold_pack_reads.into());
        let _ = out.insert("warm_up_calls".into(), w.warm_calls.len().into());
    }
    // ---- damage the hot store, then repair
    hc.w.lock().unwrap().fail_at = None;
    let mut r = SplitMix(seed ^ 0xC16);
    let hot_be = hc.bes.repo_hot().unwrap();
    let hot_files: Vec<(u8, Id)> = hc.w.lock().unwrap().maps[0].keys().copied().collect();
    let cold_before: BTreeMap<(u8, Id), Bytes> = hc.w.lock().unwrap().maps[1].clone();
    let mut removed = 0;
    let mut kept = vec![];
    for (ft, id) in &hot_files {
        let kill = if *ft == 0 { dmg_cfg } else { r.below(1000) < dmg_p };
        if kill {
            hot_be.remove(FTS[*ft as usize], id, true).unwrap();
            removed += 1;
        } else if *ft != 0 && *ft != 2 && cold_before.contains_key(&(*ft, *id)) {
            // candidates for truncation: hot copies of files the cold store holds
            kept.push((*ft, *id));
        }
    }
    let mut truncated = serde_json::Value::Null;
    if trunc && !kept.is_empty() {
        let (ft, id) = kept[r.below(kept.len() as u64) as usize];
        let b = hc.w.lock().unwrap().maps[0][&(ft, id)].clone();
        let cut = b.slice(0..b.len() / 2);
        hot_be.write_bytes(FTS[ft as usize], &id, true, BytesList::from(cut)).unwrap();
        truncated = serde_json::json!([ft, ids.get(&id)]);
    }
    let _ = out.insert("removed_hot".into(), removed.into());
    let _ = out.insert("truncated".into(), truncated);
    let (_, trees) = log_line(&hc.w.lock().unwrap(), &mut ids, 0);
    let before = state_line(&hc.w.lock().unwrap(), &mut ids, false);
    let mut rl_state: Vec<String> = vec![];
    {
        let w = hc.w.lock().unwrap();
        for m in [&w.maps[0], &w.maps[1]] {
            let es: Vec<_> = m.iter().filter(|((ft, _), _)| *ft != 0).collect();
            rl_state.push(es.len().to_string());
            for ((ft, id), b) in es {
                let (l, h) = abs_content(b);
                rl_state.push(format!("{} {} {} {}", ft, ids.get(id), l, h));
            }
        }
    }
    // tree packs by the cacheable flag of their write that the cold store holds now
    let tp_flags: Vec<u64> = {
        let w = hc.w.lock().unwrap();
        let held: BTreeSet<u64> = w.maps[1].keys().filter(|k| k.0 == 4).map(|k| ids.get(&k.1)).collect();
        trees.iter().copied().filter(|t| held.contains(t)).collect()
    };
    let _ = out.insert("tp_flags".into(), tp_flags.into());
    let _ = out.insert("state_before_repair".into(), before.into());
    hc.w.lock().unwrap().cool_down();
    hc.w.lock().unwrap().cold_ev.clear();
    let dmg_len = hc.w.lock().unwrap().log.len();
    let _ = out.insert("dmg_len".into(), dmg_len.into());
    let unw0 = hc.w.lock().unwrap().unwarmed_reads.len();
    let mut tp_index: Option<BTreeSet<Id>> = None;
    let mut index_entries: Option<Vec<(u8, Id, bool)>> = None;
    let rep: RusticResult<String> = (|| {
        let repo = Repository::new(&hc.opts, &hc.bes)?.open_only_cold(&Credentials::password("pw"))?;
        repo.init_hot()?;
        repo.repair_hotcold_except_packs(false)?;
        let repo = open(&hc)?;
        tp_index = Some(rustic_core::verif_hooks::c16::tree_packs(&repo)?);
        // independently of get_tree_packs: every pack the index files name, with its section and blob type
        let mut es = vec![];
        for f in repo.stream_files::<rustic_core::repofile::IndexFile>()? {
            let (_, ix) = f?;
            for (sec, ps) in [(0u8, &ix.packs), (1u8, &ix.packs_to_delete)] {
                for p in ps {
                    es.push((sec, p.id.into_inner(), p.blob_type() == rustic_core::repofile::BlobType::Tree));
                }
            }
        }
        index_entries = Some(es);
        repo.repair_hotcold_packs(false)?;
        let c = repo.check(CheckOptions::default())?;
        Ok(match c.is_ok() {
            Ok(()) => "ok clean".into(),
            Err(er) => format!("ok errors:{}", er.to_string().lines().next().unwrap_or("").chars().take(200).collect::<String>()),
        })
    })();
    let _ = out.insert("repair".into(), match rep { Ok(s) => s, Err(er) => res_str::<()>(&Err(er)) }.into());
    {
        // input of the model's repair: the tree packs the index names (what repair_hotcold_packs uses), then the state
        let tp: Vec<u64> = match &tp_index {
            Some(t) => {
                let mut v: Vec<u64> = t.iter().map(|i| ids.get(i)).collect();
                v.sort();
                v
            }
            None => trees.clone(),
        };
        // index entries (section, id, is_tree); without a readable index: what the cacheable flags say
        let mut es: Vec<(u8, u64, bool)> = match &index_entries {
            Some(v) => v.iter().map(|(s, i, t)| (*s, ids.get(i), *t)).collect(),
            None => trees.iter().map(|t| (0, *t, true)).collect(),
        };
        es.sort();
        let mut rl: Vec<String> = vec![es.len().to_string()];
        rl.extend(es.iter().map(|(s, i, t)| format!("{s} {i} {}", *t as u8)));
        rl.extend(rl_state.iter().cloned());
        let _ = out.insert("repair_in".into(), rl.join(" ").into());
        let _ = out.insert("index_entries".into(), serde_json::json!(es));
        let _ = out.insert("index_read".into(), index_entries.is_some().into());
        let _ = out.insert("tp_index".into(), tp.into());
    }
    let _ = out.insert("repair_cold".into(), take_cold_ev(&hc, &mut ids));
    let _ = out.insert("unwarmed_reads_repair".into(), (hc.w.lock().unwrap().unwarmed_reads.len() - unw0).into());
    let _ = out.insert("state_after_repair".into(), state_line(&hc.w.lock().unwrap(), &mut ids, false).into());
    {
        let w = hc.w.lock().unwrap();
        let lost: Vec<String> = cold_before
            .iter()
            .filter(|(k, b)| k.0 != 0 && w.maps[1].get(*k) != Some(*b))
            .map(|(k, _)| format!("{}:{}", k.0, ids.get(&k.1)))
            .collect();
        let _ = out.insert("cold_changed".into(), lost.into());
    }
    let (ll, _) = log_line(&hc.w.lock().unwrap(), &mut ids, 0);
    let _ = out.insert("log".into(), ll.into());
    serde_json::Value::Object(out).to_string()
}

fn main() {
    let mode = std::env::args().nth(2).unwrap_or_else(|| "ops".into());
    match mode.as_str() {
        "e2e" => for_each_case(e2e_case),
        _ => for_each_case(ops_case),
    }
}
