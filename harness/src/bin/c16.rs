//! C16 correspondence: the real `HotColdBackend` (via verif hook) over two recording
//! in-memory backends with injected inner failures.
//!
//! Mode `ops` (default): one case per line
//!   `n  op*`  with op =
//!     0 ft id cacheable len seed o1 o2   write_bytes (content = pattern(len, seed); o = outcome of the 1st/2nd inner call)
//!     1 ft id cacheable o1 o2            remove
//!     2 ft id                            read_full
//!     3 ft id cacheable off len          read_partial
//!     4 ft                               list_with_size
//!   ft: 0 Config 1 Index 2 Key 3 Snapshot 4 Pack; outcome: 0 ok, 1 fails without effect, 2 fails after taking effect.
//!   Output: per op `result;state;state…` (one state dump after every inner mutating call), ops joined by ` | `.
//! Mode `e2e`: see `e2e_case`.
use bytes::Bytes;
use rustic_core::verif_hooks::c16::hotcold_backend;
use rustic_core::{BytesList, ErrorKind, FileType, Id, ReadBackend, RusticError, RusticResult, WriteBackend};
use std::collections::{BTreeMap, BTreeSet, VecDeque};
use std::sync::{Arc, Mutex};
use verif_harness::*;


pub const FTS: [FileType; 5] = [FileType::Config, FileType::Index, FileType::Key, FileType::Snapshot, FileType::Pack];
pub fn ft_num(t: FileType) -> u8 {
    match t {
        FileType::Config => 0,
        FileType::Index => 1,
        FileType::Key => 2,
        FileType::Snapshot => 3,
        FileType::Pack => 4,
    }
}

/// One inner mutating call as seen by one of the two stores.
#[derive(Clone, Debug)]
pub struct Ev {
    pub hot: bool,
    pub write: bool,
    pub ft: u8,
    pub id: Id,
    pub cacheable: bool,
    pub data: Option<Bytes>,
    pub effect: bool,
}

/// Both stores, the fault schedule and what was observed.
#[derive(Default)]
pub struct World {
    pub maps: [BTreeMap<(u8, Id), Bytes>; 2], // 0 = hot, 1 = cold
    pub outcomes: VecDeque<u8>,
    pub dumps: Vec<String>,       // ops mode: state after every inner mutating call
    pub dump_states: bool,
    pub log: Vec<Ev>,             // e2e mode: every inner mutating call
    pub cold_rejects_unwarmed: bool,
    pub warm: BTreeSet<(u8, Id)>,
    pub unwarmed_reads: Vec<(u8, Id)>,
    pub cold_reads: Vec<(u8, Id, bool)>, // (ft, id, was warm)
    pub warm_calls: Vec<(u8, Id)>,
    pub normalise_config_id: bool,
}

impl World {
    pub fn dump(&self) -> String {
        let side = |m: &BTreeMap<(u8, Id), Bytes>| {
            m.iter().map(|((ft, id), b)| format!("{}:{}:{}", ft, id_to_u64(id), hex::encode(b))).collect::<Vec<_>>().join(",")
        };
        format!("H{{{}}}C{{{}}}", side(&self.maps[0]), side(&self.maps[1]))
    }
}

#[derive(Clone)]
pub struct MemBe {
    pub w: Arc<Mutex<World>>,
    pub hot: bool,
}

impl std::fmt::Debug for MemBe {
    fn fmt(&self, f: &mut std::fmt::Formatter<'_>) -> std::fmt::Result {
        write!(f, "MemBe({})", if self.hot { "hot" } else { "cold" })
    }
}

fn err(msg: &'static str) -> Box<RusticError> {
    RusticError::new(ErrorKind::Backend, msg)
}

impl MemBe {
    fn idx(&self) -> usize {
        if self.hot { 0 } else { 1 }
    }
    fn key(&self, w: &World, tpe: FileType, id: &Id) -> (u8, Id) {
        if w.normalise_config_id && tpe == FileType::Config { (0, Id::default()) } else { (ft_num(tpe), *id) }
    }
    fn check_warm(&self, w: &mut World, k: (u8, Id)) -> RusticResult<()> {
        if !self.hot {
            let warm = w.warm.contains(&k);
            w.cold_reads.push((k.0, k.1, warm));
            if w.cold_rejects_unwarmed && !warm {
                w.unwarmed_reads.push(k);
                return Err(err("file is not warmed-up"));
            }
        }
        Ok(())
    }
}

impl ReadBackend for MemBe {
    fn location(&self) -> String {
        if self.hot { "mem-hot".into() } else { "mem-cold".into() }
    }
    fn list_with_size(&self, tpe: FileType) -> RusticResult<Vec<(Id, u32)>> {
        let w = self.w.lock().unwrap();
        let t = ft_num(tpe);
        Ok(w.maps[self.idx()].iter().filter(|((ft, _), _)| *ft == t).map(|((_, id), b)| (*id, b.len() as u32)).collect())
    }
    fn read_full(&self, tpe: FileType, id: &Id) -> RusticResult<Bytes> {
        let mut w = self.w.lock().unwrap();
        let k = self.key(&w, tpe, id);
        self.check_warm(&mut w, k)?;
        w.maps[self.idx()].get(&k).cloned().ok_or_else(|| err("file does not exist"))
    }
    fn read_partial(&self, tpe: FileType, id: &Id, _cacheable: bool, offset: u32, length: u32) -> RusticResult<Bytes> {
        let mut w = self.w.lock().unwrap();
        let k = self.key(&w, tpe, id);
        self.check_warm(&mut w, k)?;
        let b = w.maps[self.idx()].get(&k).cloned().ok_or_else(|| err("file does not exist"))?;
        let (o, l) = (offset as usize, length as usize);
        if o + l > b.len() {
            return Err(err("read_partial out of range"));
        }
        Ok(b.slice(o..o + l))
    }
    fn needs_warm_up(&self) -> bool {
        !self.hot && self.w.lock().unwrap().cold_rejects_unwarmed
    }
    fn warm_up(&self, tpe: FileType, id: &Id) -> RusticResult<()> {
        let mut w = self.w.lock().unwrap();
        let k = self.key(&w, tpe, id);
        if !self.hot {
            w.warm_calls.push(k);
            let _ = w.warm.insert(k);
        }
        Ok(())
    }
    fn warmup_path(&self, tpe: FileType, id: &Id) -> String {
        format!("{}/{}", tpe.dirname(), id.to_hex().as_str())
    }
}

impl WriteBackend for MemBe {
    fn create(&self) -> RusticResult<()> {
        Ok(())
    }
    fn write_bytes(&self, tpe: FileType, id: &Id, cacheable: bool, content: BytesList) -> RusticResult<()> {
        let mut w = self.w.lock().unwrap();
        let k = self.key(&w, tpe, id);
        let mut v = Vec::new();
        for b in content.slice() {
            v.extend_from_slice(b);
        }
        let data = Bytes::from(v);
        let o = w.outcomes.pop_front().unwrap_or(0);
        let effect = o != 1;
        if effect {
            let _ = w.maps[self.idx()].insert(k, data.clone());
        }
        w.log.push(Ev { hot: self.hot, write: true, ft: k.0, id: k.1, cacheable, data: Some(data), effect });
        if w.dump_states {
            let d = w.dump();
            w.dumps.push(d);
        }
        if o == 0 { Ok(()) } else { Err(err("injected write failure")) }
    }
    fn remove(&self, tpe: FileType, id: &Id, cacheable: bool) -> RusticResult<()> {
        let mut w = self.w.lock().unwrap();
        let k = self.key(&w, tpe, id);
        let o = w.outcomes.pop_front().unwrap_or(0);
        let present = w.maps[self.idx()].contains_key(&k);
        let effect = present && o != 1;
        if effect {
            let _ = w.maps[self.idx()].remove(&k);
        }
        w.log.push(Ev { hot: self.hot, write: false, ft: k.0, id: k.1, cacheable, data: None, effect });
        if w.dump_states {
            let d = w.dump();
            w.dumps.push(d);
        }
        if !present {
            return Err(err("file does not exist"));
        }
        if o == 0 { Ok(()) } else { Err(err("injected remove failure")) }
    }
}

pub fn pattern(len: u64, seed: u64) -> Vec<u8> {
    (0..len).map(|i| ((seed.wrapping_add(i.wrapping_mul(7))) % 256) as u8).collect()
}

fn ops_case(line: &str) -> String {
    let mut t = Toks::new(line);
    let n = t.u();
    let w = Arc::new(Mutex::new(World { dump_states: true, ..World::default() }));
    let hot = MemBe { w: w.clone(), hot: true };
    let cold = MemBe { w: w.clone(), hot: false };
    let hc = hotcold_backend(Arc::new(cold), Arc::new(hot));
    let mut out = Vec::new();
    for _ in 0..n {
        let kind = t.u();
        let mut res = String::new();
        match kind {
            0 | 1 => {
                let ft = FTS[t.u() as usize];
                let id = id_from_u64(t.u());
                let c = t.u() == 1;
                let data = if kind == 0 { Some(pattern(t.u(), t.u())) } else { None };
                let (o1, o2) = (t.u() as u8, t.u() as u8);
                {
                    let mut g = w.lock().unwrap();
                    g.outcomes = VecDeque::from(vec![o1, o2]);
                    g.dumps.clear();
                }
                let r = match data {
                    Some(d) => hc.write_bytes(ft, &id, c, BytesList::from(d)),
                    None => hc.remove(ft, &id, c),
                };
                res.push_str(if r.is_ok() { "ok" } else { "err" });
                for d in w.lock().unwrap().dumps.iter() {
                    res.push(';');
                    res.push_str(d);
                }
            }
            2 => {
                let ft = FTS[t.u() as usize];
                let id = id_from_u64(t.u());
                res = match hc.read_full(ft, &id) {
                    Ok(b) => format!("some:{}", hex::encode(b)),
                    Err(_) => "none".into(),
                };
            }
            3 => {
                let ft = FTS[t.u() as usize];
                let id = id_from_u64(t.u());
                let c = t.u() == 1;
                let (off, len) = (t.u() as u32, t.u() as u32);
                res = match hc.read_partial(ft, &id, c, off, len) {
                    Ok(b) => format!("some:{}", hex::encode(b)),
                    Err(_) => "none".into(),
                };
            }
            _ => {
                let ft = FTS[t.u() as usize];
                let mut l = hc.list_with_size(ft).unwrap();
                l.sort();
                res = format!("list:{}", l.iter().map(|(id, s)| format!("{}={}", id_to_u64(id), s)).collect::<Vec<_>>().join(","));
            }
        }
        out.push(res);
    }
    out.join(" | ")
}

fn e2e_case(_line: &str) -> String {
    "todo".into()
}

fn main() {
    let mode = std::env::args().nth(2).unwrap_or_else(|| "ops".into());
    match mode.as_str() {
        "e2e" => for_each_case(e2e_case),
        _ => for_each_case(ops_case),
    }
}
