//! C18 correspondence: the real `ConfigOptions::apply`, `Repository::init/apply_config`,
//! `PackSizer`, `check_rabin_params` and end-to-end smoke runs (init + backup + check +
//! restore + config change + prune) on generated cases.
//!
//! Modes (argv[2]): `apply` (default), `sizer`, `rabin`, `repo`, `smoke`.
//! Optional values are written `-` (None) or a decimal number.
//!
//! config  = 19 tokens in `ConfigFile` field order:
//!   version id chunker chunker_polynomial chunk_size chunk_min_size chunk_max_size is_hot
//!   append_only compression treepack_size treepack_growfactor treepack_size_limit
//!   datapack_size datapack_growfactor datapack_size_limit min_packsize_tolerate_percent
//!   max_packsize_tolerate_percent extra_verify      (id, polynomial: plain numbers)
//! options = 16 tokens in `ConfigOptions` field order.
use bytesize::ByteSize;
use rustic_core::repofile::{Chunker, ConfigFile, MasterKey, SnapshotFile};
use rustic_core::verif_hooks::c18 as hook;
use rustic_core::{
    BackupOptions, CheckOptions, ConfigOptions, Credentials, KeyOptions, LimitOption,
    LocalDestination, LsOptions, PathList, PruneOptions, Repository, RepositoryBackends,
    RepositoryOptions, RestoreOptions, RusticError, RusticResult, BytesList, FileType, Id,
    ReadBackend, WriteBackend,
};
use rustic_testing::backend::in_memory_backend::InMemoryBackend;
use std::panic::{AssertUnwindSafe, catch_unwind};
use std::sync::Arc;
use verif_harness::*;

fn opt_u64(t: &mut Toks) -> Option<u64> {
    let s = t.s();
    if s == "-" { None } else { Some(s.parse().expect("u64")) }
}
fn opt_i64(t: &mut Toks) -> Option<i64> {
    let s = t.s();
    if s == "-" { None } else { Some(s.parse().expect("i64")) }
}
fn chunker_of(n: u64) -> Chunker {
    if n == 0 { Chunker::Rabin } else { Chunker::FixedSize }
}
fn chunker_no(c: Chunker) -> u64 {
    match c {
        Chunker::Rabin => 0,
        Chunker::FixedSize => 1,
    }
}

fn read_config(t: &mut Toks) -> ConfigFile {
    let mut c = ConfigFile::default();
    c.version = t.u() as u32;
    c.id = id_from_u64(t.u()).into();
    c.chunker = opt_u64(t).map(chunker_of);
    c.chunker_polynomial = format!("{:x}", t.u());
    c.chunk_size = opt_u64(t).map(|x| x as usize);
    c.chunk_min_size = opt_u64(t).map(|x| x as usize);
    c.chunk_max_size = opt_u64(t).map(|x| x as usize);
    c.is_hot = opt_u64(t).map(|x| x != 0);
    c.append_only = opt_u64(t).map(|x| x != 0);
    c.compression = opt_i64(t).map(|x| x as i32);
    c.treepack_size = opt_u64(t).map(|x| x as u32);
    c.treepack_growfactor = opt_u64(t).map(|x| x as u32);
    c.treepack_size_limit = opt_u64(t).map(|x| x as u32);
    c.datapack_size = opt_u64(t).map(|x| x as u32);
    c.datapack_growfactor = opt_u64(t).map(|x| x as u32);
    c.datapack_size_limit = opt_u64(t).map(|x| x as u32);
    c.min_packsize_tolerate_percent = opt_u64(t).map(|x| x as u32);
    c.max_packsize_tolerate_percent = opt_u64(t).map(|x| x as u32);
    c.extra_verify = opt_u64(t).map(|x| x != 0);
    c
}

fn o<T: ToString>(x: Option<T>) -> String {
    x.map_or_else(|| "-".to_string(), |v| v.to_string())
}
fn ob(x: Option<bool>) -> String {
    x.map_or_else(|| "-".to_string(), |v| (v as u8).to_string())
}

/// 19 comma-separated tokens; `anon` prints id and polynomial as 0 (random at init).
fn show_config(c: &ConfigFile, anon: bool) -> String {
    let id = if anon { 0 } else { id_to_u64(&c.id) };
    let poly = if anon { 0 } else { u64::from_str_radix(&c.chunker_polynomial, 16).unwrap_or(u64::MAX) };
    [
        c.version.to_string(),
        id.to_string(),
        o(c.chunker.map(chunker_no)),
        poly.to_string(),
        o(c.chunk_size),
        o(c.chunk_min_size),
        o(c.chunk_max_size),
        ob(c.is_hot),
        ob(c.append_only),
        o(c.compression),
        o(c.treepack_size),
        o(c.treepack_growfactor),
        o(c.treepack_size_limit),
        o(c.datapack_size),
        o(c.datapack_growfactor),
        o(c.datapack_size_limit),
        o(c.min_packsize_tolerate_percent),
        o(c.max_packsize_tolerate_percent),
        ob(c.extra_verify),
    ]
    .join(",")
}

fn read_opts(t: &mut Toks) -> ConfigOptions {
    let mut k = ConfigOptions::default();
    k.set_version = opt_u64(t).map(|x| x as u32);
    k.set_chunker = opt_u64(t).map(chunker_of);
    k.set_chunk_size = opt_u64(t).map(ByteSize);
    k.set_chunk_min_size = opt_u64(t).map(ByteSize);
    k.set_chunk_max_size = opt_u64(t).map(ByteSize);
    k.set_compression = opt_i64(t).map(|x| x as i32);
    k.set_append_only = opt_u64(t).map(|x| x != 0);
    k.set_treepack_size = opt_u64(t).map(ByteSize);
    k.set_treepack_size_limit = opt_u64(t).map(ByteSize);
    k.set_treepack_growfactor = opt_u64(t).map(|x| x as u32);
    k.set_datapack_size = opt_u64(t).map(ByteSize);
    k.set_datapack_growfactor = opt_u64(t).map(|x| x as u32);
    k.set_datapack_size_limit = opt_u64(t).map(ByteSize);
    k.set_min_packsize_tolerate_percent = opt_u64(t).map(|x| x as u32);
    k.set_max_packsize_tolerate_percent = opt_u64(t).map(|x| x as u32);
    k.set_extra_verify = opt_u64(t).map(|x| x != 0);
    k
}

/// `err:<Kind>:<guidance with blanks replaced>`: kind and the literal guidance text of the error.
fn err_class(e: &RusticError) -> String {
    let d = format!("{e:?}");
    let kind = d.split("kind: ").nth(1).and_then(|s| s.split(',').next()).unwrap_or("?").to_string();
    let g = d.split("guidance: \"").nth(1).and_then(|s| s.split('"').next()).unwrap_or("?");
    let g: String = g.chars().map(|c| if c.is_ascii_alphanumeric() { c } else { '_' }).collect();
    format!("err:{kind}:{g}")
}

/// the clone / apply / commit-if-ok discipline of `apply_config`, on a bare `ConfigFile`
fn apply_case(line: &str) -> String {
    let mut t = Toks::new(line);
    let mut stored = read_config(&mut t);
    let n = t.u();
    let mut out = Vec::new();
    for _ in 0..n {
        let opts = read_opts(&mut t);
        let mut new = stored.clone();
        let r = catch_unwind(AssertUnwindSafe(|| {
            let r = opts.apply(&mut new);
            (r, new)
        }));
        match r {
            Err(_) => out.push("panic".to_string()),
            Ok((Ok(()), new)) => {
                out.push(format!("ok {}", show_config(&new, false)));
                stored = new;
            }
            Ok((Err(e), new)) => out.push(format!("{} {}", err_class(&e), show_config(&new, false))),
        }
    }
    out.push(format!("stored {}", show_config(&stored, false)));
    out.join(" | ")
}

fn sizer_case(line: &str) -> String {
    let mut t = Toks::new(line);
    let c = read_config(&mut t);
    let bt = if t.u() == 0 { hook::BlobType::Tree } else { hook::BlobType::Data };
    let cur = t.u();
    let size = t.u() as u32;
    let s = hook::PackSizer::from_config(&c, bt, cur);
    let a = catch_unwind(|| s.pack_size()).map_or_else(|_| "panic".to_string(), |v| v.to_string());
    let b = catch_unwind(|| s.is_too_small(size)).map_or_else(|_| "panic".to_string(), |v| (v as u8).to_string());
    let d = catch_unwind(|| s.is_too_large(size)).map_or_else(|_| "panic".to_string(), |v| (v as u8).to_string());
    format!("{a} {b} {d}")
}

fn rabin_case(line: &str) -> String {
    let mut t = Toks::new(line);
    let (cs, mi, ma) = (t.u() as usize, t.u() as usize, t.u() as usize);
    match catch_unwind(|| hook::check_rabin_params(cs, mi, ma)) {
        Err(_) => "panic".to_string(),
        Ok(Ok(())) => "ok".to_string(),
        Ok(Err(e)) => err_class(&e),
    }
}

/// In-memory backend with the config semantics of the real backends: one `config` file,
/// replaced on write (InMemoryBackend alone keeps every config ever written under its hash).
/// Counts the config writes.
#[derive(Debug)]
struct Be {
    inner: InMemoryBackend,
    config: std::sync::Mutex<Option<bytes::Bytes>>,
    config_writes: std::sync::atomic::AtomicUsize,
}
impl Be {
    fn new() -> Self {
        Self { inner: InMemoryBackend::new(), config: std::sync::Mutex::new(None), config_writes: 0.into() }
    }
    fn writes(&self) -> usize {
        self.config_writes.load(std::sync::atomic::Ordering::SeqCst)
    }
}
impl ReadBackend for Be {
    fn location(&self) -> String {
        "c18".to_string()
    }
    fn list_with_size(&self, tpe: FileType) -> RusticResult<Vec<(Id, u32)>> {
        if tpe == FileType::Config {
            return Ok(self.config.lock().unwrap().iter().map(|b| (Id::default(), b.len() as u32)).collect());
        }
        self.inner.list_with_size(tpe)
    }
    fn read_full(&self, tpe: FileType, id: &Id) -> RusticResult<bytes::Bytes> {
        if tpe == FileType::Config {
            return self.config.lock().unwrap().clone().ok_or_else(|| RusticError::new(rustic_core::ErrorKind::Backend, "no config"));
        }
        self.inner.read_full(tpe, id)
    }
    fn read_partial(&self, tpe: FileType, id: &Id, cacheable: bool, offset: u32, length: u32) -> RusticResult<bytes::Bytes> {
        self.inner.read_partial(tpe, id, cacheable, offset, length)
    }
    fn warmup_path(&self, tpe: FileType, id: &Id) -> String {
        self.inner.warmup_path(tpe, id)
    }
}
impl WriteBackend for Be {
    fn create(&self) -> RusticResult<()> {
        self.inner.create()
    }
    fn write_bytes(&self, tpe: FileType, id: &Id, cacheable: bool, content: BytesList) -> RusticResult<()> {
        if tpe == FileType::Config {
            let mut b = Vec::new();
            for x in content.slice() {
                b.extend_from_slice(x);
            }
            *self.config.lock().unwrap() = Some(b.into());
            let _ = self.config_writes.fetch_add(1, std::sync::atomic::Ordering::SeqCst);
            return Ok(());
        }
        self.inner.write_bytes(tpe, id, cacheable, content)
    }
    fn remove(&self, tpe: FileType, id: &Id, cacheable: bool) -> RusticResult<()> {
        self.inner.remove(tpe, id, cacheable)
    }
}

fn new_repo2(cold: &Arc<Be>, hot: Option<&Arc<Be>>) -> Repository<()> {
    let bes = RepositoryBackends::new(cold.clone(), hot.map(|h| h.clone() as Arc<dyn WriteBackend>));
    // no cache: every case has a fresh random repository id (one cache directory each otherwise)
    Repository::new(&RepositoryOptions::default().no_cache(true), &bes).expect("Repository::new")
}
fn new_repo(be: &Arc<Be>) -> Repository<()> {
    new_repo2(be, None)
}

fn stored_config(be: &Arc<Be>, key: &MasterKey) -> String {
    match catch_unwind(AssertUnwindSafe(|| new_repo(be).open(&Credentials::Masterkey(key.clone())))) {
        Err(_) => "open-panic".to_string(),
        Ok(Err(e)) => format!("open-{}", err_class(&e)),
        Ok(Ok(r)) => show_config(r.config(), true),
    }
}

/// the `config` file of one backend, decrypted and decoded as it is stored (`none` = no file)
fn raw_config(be: &Arc<Be>, key: &MasterKey) -> String {
    match catch_unwind(AssertUnwindSafe(|| hook::stored_config(be.clone() as Arc<dyn WriteBackend>, key))) {
        Err(_) => "decode-panic".to_string(),
        Ok(Err(e)) => format!("decode-{}", err_class(&e)),
        Ok(Ok(None)) => "none".to_string(),
        Ok(Ok(Some(c))) => show_config(&c, true),
    }
}

fn open_result(r: std::thread::Result<RusticResult<Repository<rustic_core::OpenStatus>>>) -> String {
    match r {
        Err(_) => "open-panic".to_string(),
        Ok(Err(e)) => format!("open-{}", err_class(&e)),
        Ok(Ok(r)) => show_config(r.config(), true),
    }
}

/// `hot n opts0 .. opts(n-1)`: init (plain repository, or hot/cold with two backends when hot = 1)
/// with the first option record, then `apply_config` with each further one.  After every step:
/// repo.config(), BOTH stored config files decoded as stored, the numbers of config writes, and
/// the config seen by every way of opening the repository (both parts; the cold part alone via
/// the plain `open`; `open_only_cold`).  At the end a backup through the full repository and
/// check --read-data on the cold part alone.
fn repo_case(line: &str) -> String {
    let mut t = Toks::new(line);
    let hot = t.u() == 1;
    let n = t.u();
    let o0 = read_opts(&mut t);
    let cold = Arc::new(Be::new());
    let hotbe = Arc::new(Be::new());
    let hb = if hot { Some(&hotbe) } else { None };
    let key = MasterKey::new();
    let creds = Credentials::Masterkey(key.clone());
    let mut out = Vec::new();
    let r = catch_unwind(AssertUnwindSafe(|| new_repo2(&cold, hb).init(&creds, &KeyOptions::default(), &o0)));
    let mut repo = match r {
        Err(_) => return "init:panic".to_string(),
        Ok(Err(e)) => {
            // refused initialisation: nothing may have been written
            let count = |be: &Arc<Be>| rustic_core::ALL_FILE_TYPES.iter().map(|tpe| be.list(*tpe).map_or(99, |v| v.len())).sum::<usize>() + be.list(FileType::Config).map_or(99, |v| v.len());
            return format!("init:{} files={}", err_class(&e), count(&cold) + count(&hotbe));
        }
        Ok(Ok(r)) => r,
    };
    let snapshot = |cls: &str, repo: &Repository<rustic_core::OpenStatus>| {
        let both = if hot { open_result(catch_unwind(AssertUnwindSafe(|| new_repo2(&cold, hb).open(&creds)))) } else { "na".to_string() };
        let alone = open_result(catch_unwind(AssertUnwindSafe(|| new_repo2(&cold, None).open(&creds))));
        let only = if hot { open_result(catch_unwind(AssertUnwindSafe(|| new_repo2(&cold, hb).open_only_cold(&creds)))) } else { "na".to_string() };
        format!("{cls} {} {} {} w={},{} {both} {alone} {only}", show_config(repo.config(), true), raw_config(&cold, &key),
                if hot { raw_config(&hotbe, &key) } else { "none".to_string() }, cold.writes(), hotbe.writes())
    };
    out.push(snapshot("init:ok", &repo));
    for _ in 1..n {
        let oi = read_opts(&mut t);
        let r = catch_unwind(AssertUnwindSafe(|| repo.apply_config(&oi)));
        let cls = match r {
            Err(_) => "panic".to_string(),
            Ok(Ok(true)) => "changed".to_string(),
            Ok(Ok(false)) => "same".to_string(),
            Ok(Err(e)) => err_class(&e),
        };
        out.push(snapshot(&cls, &repo));
    }
    // size of the test file: at most 8 chunks (tiny fixed chunk sizes with compression level 22 work
    // but take seconds per kilobyte)
    let fsize = match repo.config().chunker() {
        Chunker::FixedSize => match repo.config().chunk_size() {
            0 => 20000,
            cs => cs.saturating_mul(8).min(20000),
        },
        Chunker::Rabin => 20000,
    };
    drop(repo);
    // accepted configurations work: backup through the repository as the user has it, then the
    // cold part alone (as in disaster recovery / verification of the cold copy) passes check
    let end = catch_unwind(AssertUnwindSafe(|| -> Result<(), String> {
        let src = tempfile::tempdir().map_err(|e| e.to_string())?;
        let mut rng = SplitMix(7);
        std::fs::write(src.path().join("a.bin"), fill(&mut rng, fsize, false)).map_err(|e| e.to_string())?;
        let repo = new_repo2(&cold, hb).open(&creds).map_err(|e| format!("open:{}", es(e)))?.to_indexed_ids().map_err(es)?;
        let bo = BackupOptions::default().as_path(std::path::PathBuf::from("t"));
        let paths = PathList::from_string(src.path().to_str().unwrap()).map_err(es)?;
        let _ = repo.backup(&bo, &paths, SnapshotFile::default()).map_err(|e| format!("backup:{}", es(e)))?;
        let c = new_repo2(&cold, None).open(&creds).map_err(|e| format!("open-cold:{}", es(e)))?.to_indexed().map_err(es)?;
        c.check(CheckOptions::default().read_data(true)).map_err(es)?.is_ok().map_err(|e| format!("check-cold:{}", es(e)))?;
        restore_and_compare(&c, "latest", src.path(), &["a.bin".to_string()]).map_err(|e| format!("restore-cold:{e}"))
    }));
    out.push(match end {
        Err(_) => "end=panic".to_string(),
        Ok(Err(e)) => format!("end={e}"),
        Ok(Ok(())) => "end=ok".to_string(),
    });
    out.join(" | ")
}

// ------------------------------------------------------------------ smoke runs

fn fill(rng: &mut SplitMix, n: usize, compressible: bool) -> Vec<u8> {
    let mut v = Vec::with_capacity(n);
    while v.len() < n {
        let x = rng.next();
        if compressible {
            v.extend_from_slice(&[(x & 3) as u8; 8]);
        } else {
            v.extend_from_slice(&x.to_le_bytes());
        }
    }
    v.truncate(n);
    v
}

fn limit(t: &mut Toks) -> LimitOption {
    let k = t.u();
    let v = t.u();
    match k {
        0 => LimitOption::Unlimited,
        1 => LimitOption::Size(ByteSize(v)),
        _ => LimitOption::Percentage(v),
    }
}

fn stage<T>(name: &str, out: &mut Vec<String>, f: impl FnOnce() -> Result<T, String>) -> Option<T> {
    match catch_unwind(AssertUnwindSafe(f)) {
        Err(_) => {
            out.push(format!("{name}=panic"));
            None
        }
        Ok(Err(e)) => {
            out.push(format!("{name}={e}"));
            None
        }
        Ok(Ok(v)) => {
            out.push(format!("{name}=ok"));
            Some(v)
        }
    }
}

fn es(e: Box<RusticError>) -> String {
    err_class(&e)
}

fn restore_and_compare(repo: &Repository<rustic_core::IndexedFullStatus>, snap: &str, src: &std::path::Path, files: &[String]) -> Result<(), String> {
    let node = repo.node_from_snapshot_path(snap, |_| true).map_err(es)?;
    let ls = repo.ls(&node, &LsOptions::default()).map_err(es)?;
    let dir = tempfile::tempdir().map_err(|e| e.to_string())?;
    let dest = LocalDestination::new(dir.path().to_str().unwrap(), true, !node.is_dir()).map_err(es)?;
    let ro = RestoreOptions::default();
    let plan = repo.prepare_restore(&ro, ls.clone(), &dest, false).map_err(es)?;
    repo.restore(plan, &ro, ls, &dest).map_err(es)?;
    for f in files {
        let a = std::fs::read(src.join(f)).map_err(|e| format!("src-{f}-{e}"))?;
        let b = std::fs::read(dir.path().join("t").join(f)).map_err(|_| format!("diff:missing:{f}"))?;
        if a != b {
            return Err(format!("diff:{f}:{}:{}", a.len(), b.len()));
        }
    }
    Ok(())
}

/// line: opts0(16) has2 [opts1(16)] max_repack(kind val) max_unused(kind val) instant repack_all seed size_a size_b
fn smoke_run(line: String) -> String {
    let mut t = Toks::new(&line);
    let o0 = read_opts(&mut t);
    let o1 = if t.u() == 1 { Some(read_opts(&mut t)) } else { None };
    let max_repack = limit(&mut t);
    let max_unused = limit(&mut t);
    let instant = t.u() == 1;
    let repack_all = t.u() == 1;
    let mut rng = SplitMix(t.u());
    let (sa, sb) = (t.u() as usize, t.u() as usize);
    let mut out = Vec::new();
    let be = Arc::new(Be::new());
    let key = MasterKey::new();
    let src = tempfile::tempdir().unwrap();
    std::fs::create_dir_all(src.path().join("d")).unwrap();
    std::fs::write(src.path().join("a.bin"), fill(&mut rng, sa, false)).unwrap();
    std::fs::write(src.path().join("d/b.bin"), fill(&mut rng, sb, true)).unwrap();
    std::fs::write(src.path().join("d/small"), b"0123456789").unwrap();
    std::fs::write(src.path().join("empty"), b"").unwrap();
    let mut files: Vec<String> = ["a.bin", "d/b.bin", "d/small", "empty"].iter().map(|s| s.to_string()).collect();
    let bo = BackupOptions::default().as_path(std::path::PathBuf::from("t"));
    let paths = PathList::from_string(src.path().to_str().unwrap()).unwrap();

    let Some(repo) = stage("init", &mut out, || {
        new_repo(&be).init(&Credentials::Masterkey(key.clone()), &KeyOptions::default(), &o0).map_err(es)
    }) else {
        return out.join(" ");
    };
    let Some(repo) = stage("index", &mut out, || repo.to_indexed_ids().map_err(es)) else { return out.join(" ") };
    let snap1 = stage("backup", &mut out, || repo.backup(&bo, &paths, SnapshotFile::default()).map_err(es));
    let Some(repo) = stage("index", &mut out, || repo.to_indexed().map_err(es)) else { return out.join(" ") };
    stage("check", &mut out, || repo.check(CheckOptions::default().read_data(true)).map_err(es)?.is_ok().map_err(es));
    if snap1.is_some() {
        stage("restore", &mut out, || restore_and_compare(&repo, "latest", src.path(), &files));
    }
    let mut repo = repo.drop_index();
    if let Some(o1) = o1 {
        let before = stored_config(&be, &key);
        let r = catch_unwind(AssertUnwindSafe(|| repo.apply_config(&o1)));
        let after = stored_config(&be, &key);
        match r {
            Err(_) => out.push("config=panic".to_string()),
            Ok(Ok(ch)) => out.push(format!("config={}", if ch { "changed" } else { "same" })),
            Ok(Err(_)) => out.push(format!("config=refused:{}", if before == after { "untouched" } else { "MODIFIED" })),
        }
    }
    // second backup with one more file and a changed one
    std::fs::write(src.path().join("d/c.bin"), fill(&mut rng, sb / 2 + 1, false)).unwrap();
    files.push("d/c.bin".to_string());
    let Some(repo) = stage("index", &mut out, || repo.to_indexed_ids().map_err(es)) else { return out.join(" ") };
    stage("backup2", &mut out, || repo.backup(&bo, &paths, SnapshotFile::default()).map_err(es));
    let repo = repo.drop_index();
    if let Some(s) = &snap1 {
        stage("forget", &mut out, || repo.delete_snapshots(&[s.id]).map_err(es));
    }
    let po = PruneOptions::default()
        .max_repack(max_repack)
        .max_unused(max_unused)
        .instant_delete(instant)
        .repack_all(repack_all)
        .keep_delete(rustic_core::jiff::Span::default());
    if let Some(plan) = stage("plan", &mut out, || repo.prune_plan(&po).map_err(es)) {
        stage("prune", &mut out, || repo.prune(&po, plan).map_err(es));
    }
    let Some(repo) = stage("index", &mut out, || repo.to_indexed().map_err(es)) else { return out.join(" ") };
    stage("check2", &mut out, || repo.check(CheckOptions::default().read_data(true)).map_err(es)?.is_ok().map_err(es));
    stage("restore2", &mut out, || restore_and_compare(&repo, "latest", src.path(), &files));
    out.join(" ")
}

fn smoke_case(line: &str) -> String {
    // watchdog: a dead pipeline thread must not hang the whole run
    let (tx, rx) = std::sync::mpsc::channel();
    let l = line.to_string();
    let _ = std::thread::Builder::new().stack_size(16 << 20).spawn(move || {
        let r = catch_unwind(AssertUnwindSafe(|| smoke_run(l))).unwrap_or_else(|_| "harness-panic".to_string());
        let _ = tx.send(r);
    });
    rx.recv_timeout(std::time::Duration::from_secs(120)).unwrap_or_else(|_| "hang".to_string())
}

fn main() {
    let mode = std::env::args().nth(2).unwrap_or_else(|| "apply".to_string());
    match mode.as_str() {
        "sizer" => for_each_case(sizer_case),
        "rabin" => for_each_case(rabin_case),
        "repo" => for_each_case(repo_case),
        "smoke" => for_each_case(smoke_case),
        _ => for_each_case(apply_case),
    }
}
