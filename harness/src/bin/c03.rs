//! C03 — every crash point or failed write leaves only fully readable snapshots.
//!
//! A case line: `<cmd> <variant> <seed> <nfiles> <datapack> <treepack> <nseeds> <crash_reruns>`.
//! For the command on a small in-memory repository (pre-state built unrecorded):
//!   * `full`  runs (one per delay seed): the command runs to its end behind a recording backend
//!     that also keeps every written payload; the op log is decoded into the abstractions of
//!     props/C03/coq/Model.v through the repository's own readers; the storage state after EVERY
//!     prefix of the mutating ops is rebuilt and every visible snapshot is read completely
//!     (all trees, all file contents) through a fresh repository handle;
//!   * `fault` runs: for every k the k-th mutating call fails once; the command must return an
//!     error; the final storage state is read in the same way and the executed log is decoded;
//!   * `crash` runs (when asked): for every k all mutating calls after the first k fail.
//! Output: one JSON line per case.
use std::collections::BTreeMap;
use std::path::PathBuf;
use std::sync::atomic::{AtomicU64, Ordering};
use std::sync::{Arc, Mutex};
use std::time::Duration;

use bytes::Bytes;
use rustic_core::repofile::{IndexFile, IndexId, MasterKey, NodeType, SnapshotFile, SnapshotId};
use rustic_core::{
    BackupOptions, BlobId, BytesList, ConfigOptions, ErrorKind, Excludes, FileType, Id, KeyOptions, LimitOption,
    NodeModification, PathList, PruneOptions, ReadBackend, RepairIndexOptions, RusticError, RepairSnapshotsOptions,
    RewriteOptions, RewriteTreesOptions, RusticResult, TreeId, WriteBackend, last_modified_node,
    repofile::{BlobType, SnapshotModification},
};
use rustic_testing::backend::in_memory_backend::InMemoryBackend;
use serde_json::{Value, json};
use sha2::{Digest, Sha256};
use verif_harness::e2e::*;
use verif_harness::{SplitMix, Toks};

// ------------------------------------------------------------------ payload-keeping backend

/// Delegates to an in-memory store and keeps a copy of every payload ever written.
#[derive(Debug)]
struct KeepBackend {
    inner: Arc<dyn WriteBackend>,
    kept: Mutex<BTreeMap<(String, Id), Bytes>>,
}
impl KeepBackend {
    fn new(inner: Arc<InMemoryBackend>) -> Arc<Self> {
        Arc::new(Self { inner: dynbe(&inner), kept: Mutex::new(BTreeMap::new()) })
    }
    fn payload(&self, tpe: FileType, id: &Id) -> Option<Bytes> {
        self.kept.lock().unwrap().get(&(tpe.dirname().to_string(), *id)).cloned()
    }
}
impl ReadBackend for KeepBackend {
    fn location(&self) -> String {
        self.inner.location()
    }
    fn list_with_size(&self, tpe: FileType) -> RusticResult<Vec<(Id, u32)>> {
        self.inner.list_with_size(tpe)
    }
    fn read_full(&self, tpe: FileType, id: &Id) -> RusticResult<Bytes> {
        self.inner.read_full(tpe, id)
    }
    fn read_partial(&self, tpe: FileType, id: &Id, cacheable: bool, offset: u32, length: u32) -> RusticResult<Bytes> {
        self.inner.read_partial(tpe, id, cacheable, offset, length)
    }
    fn warmup_path(&self, tpe: FileType, id: &Id) -> String {
        self.inner.warmup_path(tpe, id)
    }
}
impl WriteBackend for KeepBackend {
    fn create(&self) -> RusticResult<()> {
        self.inner.create()
    }
    fn write_bytes(&self, tpe: FileType, id: &Id, cacheable: bool, content: BytesList) -> RusticResult<()> {
        let mut v = Vec::with_capacity(content.size());
        for b in content.slice() {
            v.extend_from_slice(b);
        }
        let b = Bytes::from(v);
        let _ = self.kept.lock().unwrap().insert((tpe.dirname().to_string(), *id), b.clone());
        self.inner.write_bytes(tpe, id, cacheable, b.into())
    }
    fn remove(&self, tpe: FileType, id: &Id, cacheable: bool) -> RusticResult<()> {
        self.inner.remove(tpe, id, cacheable)
    }
}

/// The in-memory backend behind the behaviour of a path-based store: reading a missing file or
/// beyond its end is an error (the test backend panics instead), and there is ONE config file
/// (the test backend keys it by the id the caller passes, a real backend has a fixed path).
#[derive(Debug)]
struct SafeMem(Arc<InMemoryBackend>);
impl ReadBackend for SafeMem {
    fn location(&self) -> String {
        self.0.location()
    }
    fn list_with_size(&self, tpe: FileType) -> RusticResult<Vec<(Id, u32)>> {
        self.0.list_with_size(tpe)
    }
    fn read_full(&self, tpe: FileType, id: &Id) -> RusticResult<Bytes> {
        self.0.read_full(tpe, id)
    }
    fn read_partial(&self, tpe: FileType, id: &Id, cacheable: bool, offset: u32, length: u32) -> RusticResult<Bytes> {
        let size = self.0.list_with_size(tpe)?.into_iter().find(|(i, _)| i == id).map(|x| x.1);
        match size {
            Some(sz) if u64::from(offset) + u64::from(length) <= u64::from(sz) => self.0.read_partial(tpe, id, cacheable, offset, length),
            _ => Err(RusticError::new(ErrorKind::Backend, "file missing or read beyond its end")),
        }
    }
    fn warmup_path(&self, tpe: FileType, id: &Id) -> String {
        self.0.warmup_path(tpe, id)
    }
}
impl WriteBackend for SafeMem {
    fn create(&self) -> RusticResult<()> {
        self.0.create()
    }
    fn write_bytes(&self, tpe: FileType, id: &Id, cacheable: bool, content: BytesList) -> RusticResult<()> {
        if tpe == FileType::Config {
            for (old, _) in self.0.list_with_size(tpe)? {
                self.0.remove(tpe, &old, false)?;
            }
        }
        self.0.write_bytes(tpe, id, cacheable, content)
    }
    fn remove(&self, tpe: FileType, id: &Id, cacheable: bool) -> RusticResult<()> {
        self.0.remove(tpe, id, cacheable)
    }
}

fn dynbe(b: &Arc<InMemoryBackend>) -> Arc<dyn WriteBackend> {
    Arc::new(SafeMem(b.clone()))
}

// ------------------------------------------------------------------ decoding into the model's abstractions

#[derive(Default)]
struct Interner {
    m: BTreeMap<String, u64>,
}
impl Interner {
    fn id(&mut self, id: &Id) -> u64 {
        let n = self.m.len() as u64 + 1;
        *self.m.entry(id.to_hex().to_string()).or_insert(n)
    }
}

type AB = (u8, u64); // (0 data | 1 tree, interned id)

fn bt(t: BlobType) -> u8 {
    u8::from(t == BlobType::Tree)
}
fn blobs_tok(bl: &[AB]) -> String {
    let mut s = format!("{}", bl.len());
    for (t, i) in bl {
        s.push_str(&format!(" {t} {i}"));
    }
    s
}

/// Everything decoded through ONE library store (= pre-state files + files the run wrote).
struct Decoder {
    lib: Arc<InMemoryBackend>,
    key: MasterKey,
    sizes: BTreeMap<Id, u32>,
}
impl Decoder {
    fn new(lib: Arc<InMemoryBackend>, key: &MasterKey) -> Self {
        let sizes = lib.list_with_size(FileType::Pack).unwrap_or_default().into_iter().collect();
        Self { lib, key: key.clone(), sizes }
    }
    fn pack(&self, it: &mut Interner, id: &Id) -> Vec<AB> {
        let size = self.sizes.get(id).copied().unwrap_or(0);
        match rustic_core::verif_hooks::c08::header_from_file(dynbe(&self.lib), &self.key, *id, None, size) {
            Ok(bl) => bl.iter().map(|b| (bt(b.tpe), it.id(&b.id))).collect(),
            Err(_) => Vec::new(),
        }
    }
    fn index(&self, it: &mut Interner, repo: &RepoOpen, id: &Id) -> Vec<(u64, bool, Vec<AB>)> {
        let mut out = Vec::new();
        if let Ok(f) = repo.get_file::<IndexFile>(&IndexId::from(*id)) {
            for (marked, l) in [(false, &f.packs), (true, &f.packs_to_delete)] {
                for p in l {
                    out.push((it.id(&p.id), marked, p.blobs.iter().map(|b| (bt(b.tpe), it.id(&b.id))).collect()));
                }
            }
        }
        out
    }
}
fn index_tok(e: &[(u64, bool, Vec<AB>)]) -> String {
    let mut s = format!("{}", e.len());
    for (p, m, bl) in e {
        s.push_str(&format!(" {p} {} {}", u8::from(*m), blobs_tok(bl)));
    }
    s
}

/// blobs the trees of a snapshot need (every reachable tree blob, every data blob); descent stops at
/// a tree that cannot be read in the library store
fn needs_of<S: rustic_core::IndexedFull>(repo: &rustic_core::Repository<S>, it: &mut Interner, root: TreeId) -> Vec<AB> {
    let mut out: Vec<AB> = Vec::new();
    let mut seen = std::collections::BTreeSet::new();
    let mut stack = vec![root];
    while let Some(t) = stack.pop() {
        let ab = (1u8, it.id(&t));
        if !seen.insert(ab) {
            continue;
        }
        out.push(ab);
        if let Ok(tree) = repo.get_tree(&t) {
            for n in tree.nodes {
                if let Some(c) = &n.content {
                    for d in c {
                        let ab = (0u8, it.id(d));
                        if seen.insert(ab) {
                            out.push(ab);
                        }
                    }
                }
                if let Some(st) = n.subtree {
                    stack.push(st);
                }
            }
        }
    }
    out
}

// ------------------------------------------------------------------ the real oracle: read every visible snapshot

#[derive(Clone, Debug, Default)]
struct SnapEval {
    readable: bool,
    /// path -> "ERR" | digest
    entries: BTreeMap<String, String>,
}

fn h8(b: &[u8]) -> String {
    hex::encode(&Sha256::digest(b)[..8])
}

fn walk<S: rustic_core::IndexedFull>(repo: &rustic_core::Repository<S>, t: &TreeId, path: &str, ev: &mut SnapEval) {
    match repo.get_tree(t) {
        Err(_) => {
            ev.readable = false;
            let _ = ev.entries.insert(format!("{path}/"), "ERR".into());
        }
        Ok(tree) => {
            let _ = ev.entries.insert(format!("{path}/"), "tree".into());
            for n in &tree.nodes {
                let p = format!("{path}/{}", n.name);
                match n.node_type {
                    NodeType::Dir => {
                        if let Some(st) = &n.subtree {
                            walk(repo, st, &p, ev);
                        }
                    }
                    NodeType::File => {
                        let mut hasher = Sha256::new();
                        let mut ok = true;
                        for d in n.content.iter().flatten() {
                            let bid: BlobId = (*d).into();
                            match repo.get_blob_cached(&bid, BlobType::Data) {
                                Ok(b) => hasher.update(&b),
                                Err(_) => {
                                    ok = false;
                                    break;
                                }
                            }
                        }
                        if ok {
                            let _ = ev.entries.insert(p, hex::encode(&hasher.finalize()[..8]));
                        } else {
                            ev.readable = false;
                            let _ = ev.entries.insert(p, "ERR".into());
                        }
                    }
                    _ => {
                        let _ = ev.entries.insert(p, "other".into());
                    }
                }
            }
        }
    }
}

/// Open the store with a fresh handle and read every listed snapshot completely.
/// Err = the repository cannot be opened / listed / indexed at all.
fn eval_state(be: &Arc<InMemoryBackend>, key: &MasterKey) -> Result<(BTreeMap<Id, SnapEval>, bool), String> {
    let repo = open_repo(dynbe(be), None, key, &repo_opts()).map_err(|e| format!("open: {e}"))?;
    // informational only; `check --read-data` may panic under load ("index still in use", index.rs)
    let check_ok = std::panic::catch_unwind(std::panic::AssertUnwindSafe(|| check_clean(&repo).unwrap_or(false))).unwrap_or(true);
    let snaps = repo.get_all_snapshots().map_err(|e| format!("snapshots: {e}"))?;
    let repo = repo.to_indexed().map_err(|e| format!("index: {e}"))?;
    let mut out = BTreeMap::new();
    for sn in snaps {
        let mut ev = SnapEval { readable: true, entries: BTreeMap::new() };
        walk(&repo, &sn.tree, "", &mut ev);
        let _ = out.insert(*sn.id, ev);
    }
    Ok((out, check_ok))
}

/// verdicts of one state relative to the pre-state: [sid, readable, old, lost]
fn verdicts(it: &mut Interner, pre: &BTreeMap<Id, SnapEval>, now: &BTreeMap<Id, SnapEval>) -> (Vec<Value>, bool) {
    let mut v = Vec::new();
    let mut safe = true;
    for (id, ev) in now {
        let (old, lost) = match pre.get(id) {
            None => (false, false),
            Some(p) => {
                let lost = p.entries.iter().any(|(k, x)| x != "ERR" && ev.entries.get(k) != Some(x));
                (true, lost)
            }
        };
        if !(ev.readable || (old && !lost)) {
            safe = false;
        }
        v.push(json!([it.id(id), u8::from(ev.readable), u8::from(old), u8::from(lost)]));
    }
    (v, safe)
}

// ------------------------------------------------------------------ scenarios

type CmdFn = Arc<dyn Fn(Arc<dyn WriteBackend>) -> Result<(), String> + Send + Sync>;

struct Scenario {
    pre: Arc<InMemoryBackend>,
    key: MasterKey,
    run: CmdFn,
    _keep: Vec<tempfile::TempDir>,
    note: String,
}

fn es<T, E: std::fmt::Display>(r: Result<T, E>) -> Result<T, String> {
    r.map_err(|e| format!("{e}"))
}

fn file(path: &str, seed: u64, len: usize) -> Entry {
    Entry { path: PathBuf::from(path), kind: Kind::File(Content::Random { seed, len }), mode: 0o644, mtime: (1_600_000_000 + (seed % 1000) as i64, 0) }
}
fn dir(path: &str) -> Entry {
    Entry { path: PathBuf::from(path), kind: Kind::Dir, mode: 0o755, mtime: (1_600_000_000, 0) }
}

/// three generations of one small source tree (files of 300..3500 incompressible bytes in three
/// directories); generation g changes some files, adds one, drops one
fn source(seed: u64, nfiles: usize, generation: u64) -> Vec<Entry> {
    let mut out = vec![dir("d1"), dir("d1/d2"), dir("e")];
    let dirs = ["", "d1/", "d1/d2/", ""];
    for i in 0..nfiles {
        let mut r = SplitMix(seed.wrapping_mul(1000).wrapping_add(i as u64));
        let changed = generation > 0 && (i as u64 + generation) % 3 == 0;
        if generation > 0 && (i as u64) == generation % (nfiles as u64) {
            continue; // dropped in this generation
        }
        let s = r.next() ^ if changed { generation } else { 0 };
        let len = 300 + (SplitMix(s).next() % 3200) as usize;
        out.push(file(&format!("{}f{i}", dirs[i % 4]), s, len));
    }
    if generation > 0 {
        out.push(file(&format!("e/new{generation}"), seed ^ (generation << 32), 900 + 400 * generation as usize));
    }
    out
}

fn mk_src(seed: u64, nfiles: usize, generation: u64) -> Result<tempfile::TempDir, String> {
    let d = es(tempfile::tempdir())?;
    es(materialize(d.path(), &source(seed, nfiles, generation)))?;
    Ok(d)
}

fn new_repo(dp: u32, tp: u32) -> Result<(Arc<InMemoryBackend>, RepoOpen, MasterKey), String> {
    let store = mem();
    let (repo, key) = es(init_repo(dynbe(&store), None, &small_pack_config(dp, tp), &repo_opts()))?;
    Ok((store, repo, key))
}

/// backup through a fresh handle; the indexed handle is dropped as a whole (no `drop_index`, whose
/// `Arc::try_unwrap(..).expect("index still in use")` panics under load)
fn backup_on(be: Arc<dyn WriteBackend>, key: &MasterKey, dir: &std::path::Path) -> Result<SnapshotFile, String> {
    let repo = es(es(open_repo(be, None, key, &repo_opts()))?.to_indexed_ids())?;
    let opts = BackupOptions::default().as_path(PathBuf::from("src"));
    es(repo.backup(&opts, &PathList::from_iter(Some(dir.to_path_buf())), SnapshotFile::default()))
}

fn prune_opts(v: u64) -> PruneOptions {
    PruneOptions::default()
        .instant_delete(v & 1 != 0)
        .early_delete_index(v & 2 != 0)
        .fast_repack(v & 4 != 0)
        .repack_all(v & 8 != 0)
        .max_unused(LimitOption::Percentage(0))
        .max_repack(LimitOption::Unlimited)
        .keep_delete(rustic_core::jiff::Span::default())
        .keep_pack(rustic_core::jiff::Span::default())
}

fn first_pack_with(be: &Arc<InMemoryBackend>, key: &MasterKey, want: BlobType, nth: usize) -> Option<Id> {
    let mut l = be.list_with_size(FileType::Pack).ok()?;
    l.sort();
    let mut hits = Vec::new();
    for (id, size) in l {
        if let Ok(bl) = rustic_core::verif_hooks::c08::header_from_file(dynbe(be), key, id, None, size) {
            if bl.first().is_some_and(|b| b.tpe == want) {
                hits.push(id);
            }
        }
    }
    if hits.is_empty() { None } else { Some(hits[nth % hits.len()]) }
}

fn scenario(cmd: &str, variant: u64, seed: u64, nfiles: usize, dp: u32, tp: u32) -> Result<Scenario, String> {
    let ropts = repo_opts();
    let (store, repo0, key) = new_repo(dp, tp)?;
    drop(repo0);
    let bk = |dir: &std::path::Path| backup_on(dynbe(&store), &key, dir);
    let reopen = || es(open_repo(dynbe(&store), None, &key, &repo_opts()));
    let mut keep = Vec::new();
    let k2 = key.clone();
    let open = move |be: Arc<dyn WriteBackend>| es(open_repo(be, None, &k2, &repo_opts()));
    let _ = ropts;
    let mut note = String::new();
    let run: CmdFn = match cmd {
        "backup" => {
            let gen_new = if variant == 0 {
                let a = mk_src(seed, nfiles, 0)?;
                let _ = bk(a.path())?;
                1
            } else {
                0
            };
            let b = mk_src(seed, nfiles, gen_new)?;
            let p = b.path().to_path_buf();
            keep.push(b);
            let k3 = key.clone();
            Arc::new(move |be| backup_on(be, &k3, &p).map(|_| ()))
        }
        "copy" => {
            // source repository with two snapshots (never recorded); destination = `store`
            let (sstore, srepo, skey) = new_repo(dp + 500, tp + 100)?;
            drop(srepo);
            let a = mk_src(seed, nfiles, 0)?;
            let _ = backup_on(dynbe(&sstore), &skey, a.path())?;
            let b = mk_src(seed, nfiles, 1)?;
            let _ = backup_on(dynbe(&sstore), &skey, b.path())?;
            if variant == 1 {
                // the destination already holds part of the data
                let _ = bk(a.path())?;
            }
            Arc::new(move |be| {
                let src = es(open_repo(dynbe(&sstore), None, &skey, &repo_opts()))?;
                let src = es(src.to_indexed())?;
                let snaps = es(src.get_all_snapshots())?;
                let dst = es(open(be)?.to_indexed_ids())?;
                es(src.copy(&dst, snaps.iter()))
            })
        }
        "merge" => {
            let a = mk_src(seed, nfiles, 0)?;
            let _ = bk(a.path())?;
            let b = mk_src(seed, nfiles, 2)?;
            let _ = bk(b.path())?;
            Arc::new(move |be| {
                let repo = es(open(be)?.to_indexed())?;
                let snaps = es(repo.get_all_snapshots())?;
                es(repo.merge_snapshots(&snaps, &last_modified_node, SnapshotFile::default())).map(|_| ())
            })
        }
        "rewrite" => {
            let a = mk_src(seed, nfiles, 0)?;
            let _ = bk(a.path())?;
            let b = mk_src(seed, nfiles, 1)?;
            let _ = bk(b.path())?;
            let forget = variant & 1 != 0;
            let trees = variant & 2 == 0;
            Arc::new(move |be| {
                let repo = es(open(be)?.to_indexed())?;
                let snaps = es(repo.get_all_snapshots())?;
                if trees {
                    let topts = RewriteTreesOptions::default()
                        .excludes(Excludes::default().globs(vec!["!/src/d1/f1*".to_string(), "!/src/f0".to_string()]))
                        .node_modification(NodeModification::default());
                    let o = RewriteOptions::default().forget(forget);
                    es(repo.rewrite_snapshots_and_trees(snaps, &o, &topts)).map(|_| ())
                } else {
                    let m = SnapshotModification::default().set_label("relabelled".to_string());
                    let o = RewriteOptions::default().forget(forget).modification(m);
                    es(repo.rewrite_snapshots(snaps, &o)).map(|_| ())
                }
            })
        }
        "repair_snapshots" => {
            let a = mk_src(seed, nfiles, 0)?;
            let _ = bk(a.path())?;
            let b = mk_src(seed, nfiles, 1)?;
            let _ = bk(b.path())?;
            // lose one data pack, let the index forget it
            let victim = first_pack_with(&store, &key, BlobType::Data, seed as usize).ok_or("no data pack")?;
            es(store.remove(FileType::Pack, &victim, false))?;
            es(reopen()?.repair_index(&RepairIndexOptions::default(), false))?;
            note = format!("lost data pack {}", &victim.to_hex().as_str()[..8]);
            let delete = variant & 1 == 0;
            Arc::new(move |be| {
                let repo = open(be)?;
                let snaps = es(repo.get_all_snapshots())?;
                let repo = es(repo.to_indexed())?;
                let o = RepairSnapshotsOptions::default().delete(delete);
                es(repo.repair_snapshots(&o, snaps, false))
            })
        }
        "repair_index" => {
            let a = mk_src(seed, nfiles, 0)?;
            let _ = bk(a.path())?;
            let b = mk_src(seed, nfiles, 1)?;
            let _ = bk(b.path())?;
            let read_all = variant == 0;
            match variant {
                1 => {
                    let victim = first_pack_with(&store, &key, BlobType::Data, seed as usize).ok_or("no data pack")?;
                    es(store.remove(FileType::Pack, &victim, false))?;
                    note = "one data pack lost".into();
                }
                2 => {
                    let mut l = es(store.list_with_size(FileType::Index))?;
                    l.sort();
                    let victim = l[(seed as usize) % l.len()].0;
                    es(store.remove(FileType::Index, &victim, false))?;
                    note = "one index file lost".into();
                }
                _ => {}
            }
            Arc::new(move |be| {
                let repo = open(be)?;
                es(repo.repair_index(&RepairIndexOptions::default().read_all(read_all), false))
            })
        }
        "forget" => {
            let mut ids: Vec<SnapshotId> = Vec::new();
            for g in 0..3 {
                let s = mk_src(seed, nfiles, g)?;
                ids.push(bk(s.path())?.id);
            }
            let repo = reopen()?;
            let _ = ids.pop();
            Arc::new(move |be| {
                let repo = open(be)?;
                es(repo.delete_snapshots(&ids))
            })
        }
        "prune" => {
            let mut ids: Vec<SnapshotId> = Vec::new();
            for g in 0..3 {
                let s = mk_src(seed, nfiles, g)?;
                ids.push(bk(s.path())?.id);
            }
            let repo = reopen()?;
            // forget the first two snapshots (or only the first) so that blobs become unused
            let nforget = if variant & 32 != 0 { 1 } else { 2 };
            es(repo.delete_snapshots(&ids[..nforget]))?;
            if variant & 16 != 0 {
                // second stage: a first prune has marked packs; the recorded prune deletes them
                let o = prune_opts(variant & 12);
                let plan = es(repo.prune_plan(&o))?;
                es(repo.prune(&o, plan))?;
                note = "second prune after a marking prune".into();
            }
            if variant & 64 != 0 {
                // the recorded prune is the RECOVERY run after a prune that was cut off when its new packs and
                // index were written but nothing was removed yet (every repacked blob is then listed twice)
                let o = prune_opts(variant & 12);
                let probe = Arc::new((*store).clone());
                let rec = RecBackend::new(dynbe(&probe), "probe");
                {
                    let r = es(open_repo(rec.clone(), None, &key, &repo_opts()))?;
                    let plan = es(r.prune_plan(&o))?;
                    es(r.prune(&o, plan))?;
                }
                let k = rec.take_log().iter().filter(|x| x.is_mutating()).take_while(|x| x.kind == OpKind::Write).count();
                let rec = RecBackend::new(dynbe(&store), "cut");
                rec.set_plan(FaultPlan { crash_after: Some(k), ..Default::default() });
                {
                    let r = es(open_repo(rec.clone(), None, &key, &repo_opts()))?;
                    let plan = es(r.prune_plan(&o))?;
                    let _ = r.prune(&o, plan);
                }
                note = format!("prune again after a prune that was cut off after its {k} writes");
            }
            let o = prune_opts(variant & 15);
            Arc::new(move |be| {
                let repo = open(be)?;
                let plan = es(repo.prune_plan(&o))?;
                es(repo.prune(&o, plan))
            })
        }
        "config" => {
            let a = mk_src(seed, nfiles, 0)?;
            let _ = bk(a.path())?;
            Arc::new(move |be| {
                let mut repo = open(be)?;
                let o = ConfigOptions::default().set_compression(7).set_treepack_size(bytesize::ByteSize(5000));
                es(repo.apply_config(&o)).map(|_| ())
            })
        }
        "key" => {
            let a = mk_src(seed, nfiles, 0)?;
            let _ = bk(a.path())?;
            let repo = reopen()?;
            if variant == 0 {
                Arc::new(move |be| {
                    let repo = open(be)?;
                    es(repo.add_key("c03-password", &KeyOptions::default())).map(|_| ())
                })
            } else {
                let kid = es(repo.add_key("c03-password", &KeyOptions::default()))?;
                Arc::new(move |be| {
                    let repo = open(be)?;
                    es(repo.delete_key(&kid))
                })
            }
        }
        _ => return Err(format!("unknown command {cmd}")),
    };
    Ok(Scenario { pre: store, key, run, _keep: keep, note })
}

// ------------------------------------------------------------------ one run of the command

struct RunOut {
    ret: String,
    err: String,
    log: Vec<Op>,
    keep: Arc<KeepBackend>,
    store: Arc<InMemoryBackend>,
}

fn run_once(sc: &Scenario, plan: FaultPlan, delay_seed: u64) -> RunOut {
    let store = Arc::new((*sc.pre).clone());
    let keep = KeepBackend::new(store.clone());
    let rec = RecBackend::new(keep.clone(), "c03");
    rec.set_plan(plan);
    if delay_seed != 0 {
        let ctr = AtomicU64::new(delay_seed.wrapping_mul(0x9E37_79B9));
        rec.set_before(Some(Arc::new(move |_op| {
            let n = ctr.fetch_add(0x632B_E5AB, Ordering::SeqCst);
            let us = SplitMix(n).next() % 300;
            std::thread::sleep(Duration::from_micros(us));
        })));
    }
    let f = sc.run.clone();
    let be: Arc<dyn WriteBackend> = rec.clone();
    let (tx, rx) = std::sync::mpsc::channel();
    let h = std::thread::spawn(move || {
        let r = std::panic::catch_unwind(std::panic::AssertUnwindSafe(|| f(be)));
        let _ = tx.send(match r {
            Ok(Ok(())) => ("ok".to_string(), String::new()),
            Ok(Err(e)) => ("err".to_string(), e),
            Err(_) => ("panic".to_string(), String::new()),
        });
    });
    let (ret, err) = match rx.recv_timeout(Duration::from_secs(90)) {
        Ok(x) => {
            let _ = h.join();
            x
        }
        Err(_) => ("hang".to_string(), String::new()),
    };
    rec.set_before(None);
    let log = rec.take_log();
    RunOut { ret, err, log, keep, store }
}

fn ft_code(t: FileType) -> u8 {
    match t {
        FileType::Pack => 0,
        FileType::Index => 1,
        FileType::Snapshot => 2,
        _ => 3,
    }
}

/// library store = pre-state + everything this run wrote; abstract pre-state and ops as model tokens
fn decode_run(sc: &Scenario, it: &mut Interner, out: &RunOut) -> Result<(String, String, Vec<String>), String> {
    let lib = Arc::new((*sc.pre).clone());
    for op in out.log.iter().filter(|o| o.is_mutating() && o.ok && o.kind == OpKind::Write) {
        if let Some(b) = out.keep.payload(op.tpe, &op.id) {
            es(dynbe(&lib).write_bytes(op.tpe, &op.id, false, b.into()))?;
        }
    }
    let dec = Decoder::new(lib.clone(), &sc.key);
    let repo = es(open_repo(dynbe(&lib), None, &sc.key, &repo_opts()))?;
    let irepo = es(es(open_repo(dynbe(&lib), None, &sc.key, &repo_opts()))?.to_indexed())?;
    // abstract pre-state
    let mut s = String::new();
    let mut packs = es(sc.pre.list_with_size(FileType::Pack))?;
    packs.sort();
    s.push_str(&format!("{}", packs.len()));
    for (id, _) in &packs {
        let bl = dec.pack(it, id);
        s.push_str(&format!(" {} {}", it.id(id), blobs_tok(&bl)));
    }
    let mut idx = es(sc.pre.list_with_size(FileType::Index))?;
    idx.sort();
    s.push_str(&format!(" {}", idx.len()));
    for (id, _) in &idx {
        let e = dec.index(it, &repo, id);
        s.push_str(&format!(" {} {}", it.id(id), index_tok(&e)));
    }
    let mut sn = es(sc.pre.list_with_size(FileType::Snapshot))?;
    sn.sort();
    s.push_str(&format!(" {}", sn.len()));
    for (id, _) in &sn {
        let f = es(repo.get_file::<SnapshotFile>(&SnapshotId::from(*id)))?;
        let n = needs_of(&irepo, it, f.tree);
        s.push_str(&format!(" {} {}", it.id(id), blobs_tok(&n)));
    }
    // ops
    let ops: Vec<&Op> = out.log.iter().filter(|o| o.is_mutating() && o.ok).collect();
    let mut o = format!("{}", ops.len());
    let mut kinds = Vec::new();
    for op in ops {
        let c = ft_code(op.tpe);
        kinds.push(format!("{}:{}", if op.kind == OpKind::Write { "W" } else { "R" }, op.tpe.dirname()));
        if op.kind == OpKind::Remove {
            o.push_str(&format!(" 1 {c} {}", it.id(&op.id)));
            continue;
        }
        match op.tpe {
            FileType::Pack => {
                let bl = dec.pack(it, &op.id);
                o.push_str(&format!(" 0 0 {} {}", it.id(&op.id), blobs_tok(&bl)));
            }
            FileType::Index => {
                let e = dec.index(it, &repo, &op.id);
                o.push_str(&format!(" 0 1 {} {}", it.id(&op.id), index_tok(&e)));
            }
            FileType::Snapshot => {
                let f = es(repo.get_file::<SnapshotFile>(&SnapshotId::from(op.id)))?;
                let n = needs_of(&irepo, it, f.tree);
                o.push_str(&format!(" 0 2 {} {}", it.id(&op.id), blobs_tok(&n)));
            }
            _ => o.push_str(&format!(" 0 3 {}", it.id(&op.id))),
        }
    }
    Ok((s, o, kinds))
}

fn one_case(line: &str) -> Value {
    let mut t = Toks::new(line);
    let cmd = t.s().to_string();
    let variant = t.u();
    let seed = t.u();
    let nfiles = t.u() as usize;
    let dp = t.u() as u32;
    let tp = t.u() as u32;
    let nseeds = t.u();
    let crash_reruns = t.u() != 0;
    let sc = match scenario(&cmd, variant, seed, nfiles, dp, tp) {
        Ok(s) => s,
        Err(e) => return json!({"case": line, "setup_error": e}),
    };
    let mut it = Interner::default();
    let (pre_eval, pre_check) = match eval_state(&sc.pre, &sc.key) {
        Ok(x) => x,
        Err(e) => return json!({"case": line, "setup_error": format!("pre-state unreadable: {e}")}),
    };
    let pre_readable = pre_eval.values().all(|e| e.readable);
    let mut runs: Vec<Value> = Vec::new();
    let mut hang = false;
    let eval_json = |it: &mut Interner, be: &Arc<InMemoryBackend>| -> Value {
        match eval_state(be, &sc.key) {
            Ok((now, chk)) => {
                let (v, safe) = verdicts(it, &pre_eval, &now);
                json!({"snaps": v, "safe": safe, "check": chk})
            }
            Err(e) => json!({"snaps": [], "safe": false, "check": false, "open_error": e}),
        }
    };
    'seeds: for ds in 0..nseeds {
        // ---- fault-free run, every prefix state rebuilt and read
        let out = run_once(&sc, FaultPlan::default(), ds);
        if out.ret == "hang" {
            hang = true;
            runs.push(json!({"kind": "full", "seed": ds, "ret": "hang"}));
            break 'seeds;
        }
        let (s0, ops, kinds) = match decode_run(&sc, &mut it, &out) {
            Ok(x) => x,
            Err(e) => {
                runs.push(json!({"kind": "full", "seed": ds, "ret": out.ret, "decode_error": e}));
                continue;
            }
        };
        let mops: Vec<&Op> = out.log.iter().filter(|o| o.is_mutating() && o.ok).collect();
        let cur = Arc::new((*sc.pre).clone());
        let mut states = vec![eval_json(&mut it, &cur)];
        for op in &mops {
            match op.kind {
                OpKind::Write => {
                    if let Some(b) = out.keep.payload(op.tpe, &op.id) {
                        let _ = dynbe(&cur).write_bytes(op.tpe, &op.id, false, b.into());
                    }
                }
                _ => {
                    let _ = cur.remove(op.tpe, &op.id, false);
                }
            }
            states.push(eval_json(&mut it, &cur));
        }
        // the rebuilt final state must be the store the run left behind
        let rebuilt_equal = dump_store(&*cur) == dump_store(&*out.store);
        let l = mops.len();
        runs.push(json!({"kind": "full", "seed": ds, "ret": out.ret, "err": out.err, "s0": s0, "ops": ops, "kinds": kinds,
                         "states": states, "rebuilt_equal": rebuilt_equal}));
        // ---- one failed call at every position
        for k in 0..l {
            let o = run_once(&sc, FaultPlan { fail_mutating_at: Some(k), ..Default::default() }, ds);
            if o.ret == "hang" {
                hang = true;
                runs.push(json!({"kind": "fault", "seed": ds, "k": k, "ret": "hang"}));
                break 'seeds;
            }
            let injected = o.log.iter().any(|x| x.injected);
            let failed_kind = o.log.iter().find(|x| x.injected).map(|x| format!("{}:{}", if x.kind == OpKind::Write { "W" } else { "R" }, x.tpe.dirname())).unwrap_or_default();
            // executed ops after the injected failure
            let pos = o.log.iter().position(|x| x.injected).unwrap_or(o.log.len());
            let after: Vec<String> = o.log[pos.min(o.log.len())..].iter().filter(|x| x.is_mutating() && x.ok)
                .map(|x| format!("{}:{}", if x.kind == OpKind::Write { "W" } else { "R" }, x.tpe.dirname())).collect();
            let fin = eval_json(&mut it, &o.store);
            match decode_run(&sc, &mut it, &o) {
                Ok((s0, ops, kinds)) => runs.push(json!({"kind": "fault", "seed": ds, "k": k, "ret": o.ret, "err": o.err, "injected": injected,
                    "failed_kind": failed_kind, "after": after, "s0": s0, "ops": ops, "kinds": kinds, "final": fin})),
                Err(e) => runs.push(json!({"kind": "fault", "seed": ds, "k": k, "ret": o.ret, "injected": injected, "failed_kind": failed_kind,
                    "after": after, "decode_error": e, "final": fin})),
            }
        }
        // ---- crash re-runs: nothing reaches storage after the first k calls
        if crash_reruns {
            for k in 0..=l {
                let o = run_once(&sc, FaultPlan { crash_after: Some(k), ..Default::default() }, ds);
                if o.ret == "hang" {
                    hang = true;
                    runs.push(json!({"kind": "crash", "seed": ds, "k": k, "ret": "hang"}));
                    break 'seeds;
                }
                let injected = o.log.iter().any(|x| x.injected);
                let fin = eval_json(&mut it, &o.store);
                match decode_run(&sc, &mut it, &o) {
                    Ok((s0, ops, kinds)) => runs.push(json!({"kind": "crash", "seed": ds, "k": k, "ret": o.ret, "err": o.err, "injected": injected,
                        "s0": s0, "ops": ops, "kinds": kinds, "final": fin})),
                    Err(e) => runs.push(json!({"kind": "crash", "seed": ds, "k": k, "ret": o.ret, "injected": injected, "decode_error": e, "final": fin})),
                }
            }
        }
    }
    json!({"case": line, "cmd": cmd, "variant": variant, "note": sc.note, "pre_readable": pre_readable, "pre_check": pre_check,
           "pre_snapshots": pre_eval.len(), "runs": runs, "hang": hang})
}

static LAST_PANIC: Mutex<String> = Mutex::new(String::new());

fn main() {
    std::panic::set_hook(Box::new(|info| {
        if let Ok(mut g) = LAST_PANIC.lock() {
            *g = format!("{info}").chars().take(400).collect();
        }
    }));
    let args: Vec<String> = std::env::args().collect();
    let text = if args.len() > 1 && args[1] != "-" {
        std::fs::read_to_string(&args[1]).expect("cases")
    } else {
        std::io::read_to_string(std::io::stdin()).expect("stdin")
    };
    use std::io::Write as _;
    for line in text.lines() {
        if line.trim().is_empty() {
            continue;
        }
        let v = std::panic::catch_unwind(|| one_case(line)).unwrap_or_else(|_| {
            let m = LAST_PANIC.lock().map(|g| g.clone()).unwrap_or_default();
            json!({"case": line, "setup_error": format!("panic in harness: {m}")})
        });
        let hang = v.get("hang").and_then(Value::as_bool).unwrap_or(false);
        println!("{v}");
        let _ = std::io::stdout().flush();
        if hang {
            // a hung command thread cannot be stopped: end the process, the caller sees the short output
            std::process::exit(3);
        }
    }
}
