//! C19 correspondence: the real `CachedBackend` + `Cache` (through the verif hook) on a
//! temporary cache directory over an in-memory backend, driven by generated operation
//! sequences that interleave the cached handle with a second, uncached handle on the same
//! backend and with files planted in the cache directory.  A twin backend receives the same
//! operations without any cache: the oracle is `cached result == uncached result`.
//!
//! Modes:  `c19 FILE`        one case per line (format below), one result line per case
//!         `c19 SEEDS checkopts` check with every trust_cache x read_data combination over planted cache files
//!         `c19 SEEDS trace`   the calls of real commands on the cached handle as an op-sequence case line
//!         `c19 SEEDS readers` the generic readers on the Repository API (see `readers_case`)
//!         `c19 SEEDS e2e`   one seed per line: identical backup/forget/prune/check histories
//!                           with no_cache = true / false (see `e2e_case`)
//!
//! Case line: `nops` then per op (all integers; types 0 Config 1 Index 2 Key 3 Snapshot 4 Pack)
//!   0 t i                 read_full
//!   1 t i c off len       read_partial (c = cacheable flag)
//!   2 t i c ok n b*n      write_bytes through the cached handle (ok = 0: the backend rejects)
//!   3 t i c               remove
//!   4 t                   list_with_size
//!   5 n (i sz)*n          Cache::remove_not_in_list(Pack, list)   (what `check` calls)
//!   6 t i n b*n           second (uncached) handle writes to the backend
//!   7 t i                 second handle removes from the backend
//!   8 t i n b*n           plant a file at the canonical cache path <dir>/<xx>/<hex>
//!   9 t i size            plant a 64-hex file at the non-canonical path <dir>/<hex>
//!   10 t i                delete the canonical cache file
//! Result per op: `C=<res>;U=<res>;B=<backends equal>;K=<cache directory listing>`.
use std::collections::BTreeMap;
use std::path::{Path, PathBuf};
use std::sync::atomic::{AtomicBool, Ordering};
use std::sync::{Arc, RwLock};

use bytes::Bytes;
use rustic_core::verif_hooks::c19 as hook;
use rustic_core::{BytesList, ErrorKind, FileType, Id, ReadBackend, RusticError, RusticResult, WriteBackend};
use verif_harness::*;

const TYPES: [FileType; 5] = [FileType::Config, FileType::Index, FileType::Key, FileType::Snapshot, FileType::Pack];
fn tnum(t: FileType) -> usize {
    TYPES.iter().position(|x| *x == t).unwrap()
}

/// An exact in-memory map backend (errors instead of panics; overwriting writes).
#[derive(Debug, Default)]
pub struct MemBe {
    map: RwLock<BTreeMap<(usize, Id), Bytes>>,
    fail_next_write: AtomicBool,
}
fn berr(what: &str) -> Box<RusticError> {
    RusticError::new(ErrorKind::Backend, what.to_string())
}
impl ReadBackend for MemBe {
    fn location(&self) -> String {
        "mem".into()
    }
    fn warmup_path(&self, tpe: FileType, id: &Id) -> String {
        format!("{}/{}", tpe.dirname(), id.to_hex().as_str())
    }
    fn list_with_size(&self, tpe: FileType) -> RusticResult<Vec<(Id, u32)>> {
        let t = tnum(tpe);
        Ok(self.map.read().unwrap().iter().filter(|((tt, _), _)| *tt == t).map(|((_, i), b)| (*i, b.len() as u32)).collect())
    }
    fn read_full(&self, tpe: FileType, id: &Id) -> RusticResult<Bytes> {
        self.map.read().unwrap().get(&(tnum(tpe), *id)).cloned().ok_or_else(|| berr("missing"))
    }
    fn read_partial(&self, tpe: FileType, id: &Id, _c: bool, offset: u32, length: u32) -> RusticResult<Bytes> {
        let m = self.map.read().unwrap();
        let b = m.get(&(tnum(tpe), *id)).ok_or_else(|| berr("missing"))?;
        let (o, l) = (offset as usize, length as usize);
        if o + l > b.len() {
            return Err(berr("short read"));
        }
        Ok(b.slice(o..o + l))
    }
}
impl WriteBackend for MemBe {
    fn create(&self) -> RusticResult<()> {
        Ok(())
    }
    fn write_bytes(&self, tpe: FileType, id: &Id, _c: bool, content: BytesList) -> RusticResult<()> {
        if self.fail_next_write.swap(false, Ordering::SeqCst) {
            return Err(berr("rejected"));
        }
        let mut v = Vec::new();
        for b in content.slice() {
            v.extend_from_slice(b);
        }
        let _ = self.map.write().unwrap().insert((tnum(tpe), *id), v.into());
        Ok(())
    }
    fn remove(&self, tpe: FileType, id: &Id, _c: bool) -> RusticResult<()> {
        self.map.write().unwrap().remove(&(tnum(tpe), *id)).map(|_| ()).ok_or_else(|| berr("missing"))
    }
}

fn is_hex64(s: &str) -> bool {
    s.len() == 64 && s.chars().all(|c| c.is_ascii_digit() || ('a'..='f').contains(&c))
}

/// canonical text of everything below the cache root
fn cache_listing(root: &Path) -> String {
    fn walk(d: &Path, out: &mut Vec<PathBuf>) {
        if let Ok(rd) = std::fs::read_dir(d) {
            for e in rd.flatten() {
                let p = e.path();
                let md = std::fs::symlink_metadata(&p).unwrap();
                if md.is_dir() {
                    walk(&p, out);
                } else {
                    out.push(p);
                }
            }
        }
    }
    let mut files = Vec::new();
    walk(root, &mut files);
    let mut items = Vec::new();
    for p in files {
        let rel = p.strip_prefix(root).unwrap();
        let comps: Vec<String> = rel.components().map(|c| c.as_os_str().to_string_lossy().to_string()).collect();
        let name = comps.last().unwrap().clone();
        let t = TYPES.iter().position(|t| t.dirname() == comps[0]);
        match t {
            Some(t) if is_hex64(&name) => {
                let idn = u64::from_str_radix(&name[..16], 16).unwrap();
                if comps.len() == 3 && comps[1] == name[..2] {
                    items.push(format!("F{t}/{idn}={}", hex::encode(std::fs::read(&p).unwrap())));
                } else {
                    items.push(format!("S{t}/{idn}~{}", std::fs::metadata(&p).unwrap().len()));
                }
            }
            _ => items.push(format!("?{}", comps.join("/"))),
        }
    }
    items.sort();
    items.join(",")
}

fn rd_bytes(t: &mut Toks) -> Vec<u8> {
    let n = t.u();
    (0..n).map(|_| t.u() as u8).collect()
}
fn res_data(r: Option<Bytes>) -> String {
    match r {
        Some(b) => format!("D:{}", hex::encode(b)),
        None => "D:-".into(),
    }
}
fn res_list(l: RusticResult<Vec<(Id, u32)>>) -> String {
    match l {
        Ok(mut l) => {
            l.sort();
            format!("L:{}", l.iter().map(|(i, s)| format!("{}:{s}", id_to_u64(i))).collect::<Vec<_>>().join(","))
        }
        Err(_) => "L:-".into(),
    }
}
fn guarded<T>(f: impl FnOnce() -> RusticResult<T>) -> Option<T> {
    match std::panic::catch_unwind(std::panic::AssertUnwindSafe(f)) {
        Ok(Ok(x)) => Some(x),
        _ => None,
    }
}

fn ops_case(line: &str) -> String {
    let mut t = Toks::new(line);
    let dir = tempfile::tempdir().unwrap();
    let cache = hook::new_cache(id_from_u64(77), dir.path().to_path_buf()).unwrap();
    let root = PathBuf::from(cache.location());
    let be = Arc::new(MemBe::default());
    let twin = Arc::new(MemBe::default());
    let cached = hook::cached_backend(be.clone(), &cache);
    let nops = t.u();
    let mut out = Vec::new();
    for _ in 0..nops {
        let code = t.u();
        let (c, u): (String, String) = match code {
            0 => {
                let (tp, i) = (TYPES[t.u() as usize], id_from_u64(t.u()));
                (res_data(guarded(|| cached.read_full(tp, &i))), res_data(guarded(|| twin.read_full(tp, &i))))
            }
            1 => {
                let (tp, i, c, off, len) = (TYPES[t.u() as usize], id_from_u64(t.u()), t.u() == 1, t.u() as u32, t.u() as u32);
                (
                    res_data(guarded(|| cached.read_partial(tp, &i, c, off, len))),
                    res_data(guarded(|| twin.read_partial(tp, &i, c, off, len))),
                )
            }
            2 => {
                let (tp, i, c, ok) = (TYPES[t.u() as usize], id_from_u64(t.u()), t.u() == 1, t.u() == 1);
                let d = rd_bytes(&mut t);
                if !ok {
                    be.fail_next_write.store(true, Ordering::SeqCst);
                    twin.fail_next_write.store(true, Ordering::SeqCst);
                }
                let a = guarded(|| cached.write_bytes(tp, &i, c, d.clone().into())).is_some();
                let b = guarded(|| twin.write_bytes(tp, &i, c, d.clone().into())).is_some();
                (format!("U:{}", a as u8), format!("U:{}", b as u8))
            }
            3 => {
                let (tp, i, c) = (TYPES[t.u() as usize], id_from_u64(t.u()), t.u() == 1);
                let a = guarded(|| cached.remove(tp, &i, c)).is_some();
                let b = guarded(|| twin.remove(tp, &i, c)).is_some();
                (format!("U:{}", a as u8), format!("U:{}", b as u8))
            }
            4 => {
                let tp = TYPES[t.u() as usize];
                (
                    res_list(guarded(|| cached.list_with_size(tp)).ok_or_else(|| berr("x"))),
                    res_list(guarded(|| twin.list_with_size(tp)).ok_or_else(|| berr("x"))),
                )
            }
            5 => {
                let n = t.u();
                let l: Vec<(Id, u32)> = (0..n).map(|_| (id_from_u64(t.u()), t.u() as u32)).collect();
                let a = guarded(|| cache.remove_not_in_list(FileType::Pack, &l)).is_some();
                (format!("U:{}", a as u8), "N".into())
            }
            6 => {
                let (tp, i) = (TYPES[t.u() as usize], id_from_u64(t.u()));
                let d = rd_bytes(&mut t);
                be.write_bytes(tp, &i, false, d.clone().into()).unwrap();
                twin.write_bytes(tp, &i, false, d.into()).unwrap();
                ("N".into(), "N".into())
            }
            7 => {
                let (tp, i) = (TYPES[t.u() as usize], id_from_u64(t.u()));
                let a = be.remove(tp, &i, false).is_ok();
                let b = twin.remove(tp, &i, false).is_ok();
                (format!("U:{}", a as u8), format!("U:{}", b as u8))
            }
            8 => {
                let (tp, i) = (TYPES[t.u() as usize], id_from_u64(t.u()));
                let d = rd_bytes(&mut t);
                let p = cache.path(tp, &i);
                std::fs::create_dir_all(p.parent().unwrap()).unwrap();
                std::fs::write(&p, d).unwrap();
                ("N".into(), "N".into())
            }
            9 => {
                let (tp, i, sz) = (TYPES[t.u() as usize], id_from_u64(t.u()), t.u() as usize);
                let d = root.join(tp.dirname());
                std::fs::create_dir_all(&d).unwrap();
                std::fs::write(d.join(i.to_hex().as_str()), vec![0x5a; sz]).unwrap();
                ("N".into(), "N".into())
            }
            10 => {
                let (tp, i) = (TYPES[t.u() as usize], id_from_u64(t.u()));
                let _ = std::fs::remove_file(cache.path(tp, &i));
                ("N".into(), "N".into())
            }
            _ => panic!("bad op code"),
        };
        let beq = *be.map.read().unwrap() == *twin.map.read().unwrap();
        out.push(format!("C={c};U={u};B={};K={}", beq as u8, cache_listing(&root)));
    }
    let (tr, da) = hook::blob_types_cacheable();
    out.push(format!("blob_cacheable={}{}", tr as u8, da as u8));
    out.join(" | ")
}


// ------------------------------------------------------------------------------- e2e
// One seeded history of backup / forget / prune / check run twice from the same initial
// repository: world A through handles without cache, world B alternately through a cached
// handle (cache_dir = temp dir) and an uncached handle on the same store, with truncated /
// extended / foreign / misplaced files planted in the cache directory between the steps.
// Compared: the result of every step, the final snapshot trees, index blob statistics and
// `check`.  After every step of the cached handle: the cache holds no snapshot / index file
// (canonical path) that store B does not have with the same size (after `check`: no pack).
// Line: `seed nsteps stray`.
fn e2e_case(line: &str) -> String {
    match std::panic::catch_unwind(|| e2e_inner(line)) {
        Ok(Ok(s)) => s,
        Ok(Err(e)) => format!("error {e:#}").replace('\n', " "),
        Err(p) => {
            let msg = p.downcast_ref::<String>().cloned().or_else(|| p.downcast_ref::<&str>().map(|s| s.to_string())).unwrap_or_default();
            format!("panic {}", &msg.replace('\n', " ")[..msg.len().min(300)])
        }
    }
}

fn canonical_files(root: &Path, tpe: FileType) -> Vec<(Id, u64, PathBuf)> {
    let mut v = Vec::new();
    let d = root.join(tpe.dirname());
    if let Ok(rd) = std::fs::read_dir(&d) {
        for sub in rd.flatten() {
            if !sub.path().is_dir() {
                continue;
            }
            let sn = sub.file_name().to_string_lossy().to_string();
            if let Ok(rd2) = std::fs::read_dir(sub.path()) {
                for f in rd2.flatten() {
                    let name = f.file_name().to_string_lossy().to_string();
                    if is_hex64(&name) && name[..2] == sn && f.path().is_file() {
                        v.push((Id::from_hex(&name).unwrap(), f.metadata().unwrap().len(), f.path()));
                    }
                }
            }
        }
    }
    v.sort();
    v
}

/// canonical cache files of `tpe` that the store does not have with that size
fn bad_entries(root: &Path, tpe: FileType, store: &dyn ReadBackend) -> Vec<String> {
    let list: BTreeMap<Id, u32> = store.list_with_size(tpe).unwrap().into_iter().collect();
    canonical_files(root, tpe)
        .into_iter()
        .filter(|(id, sz, _)| list.get(id).map(|s| u64::from(*s)) != Some(*sz))
        .map(|(id, sz, _)| format!("{}/{}:{sz}", tpe.dirname(), &id.to_hex().as_str()[..8]))
        .collect()
}

fn e2e_inner(line: &str) -> anyhow::Result<String> {
    use rustic_core::{CheckOptions, LimitOption, PruneOptions, RepositoryOptions};
    use verif_harness::e2e::*;
    let mut t = Toks::new(line);
    let (seed, nsteps, stray) = (t.u(), t.u(), t.u() == 1);
    let mut r = SplitMix(seed);
    let s0 = mem();
    let (repo, key) = init_repo(s0.clone(), None, &small_pack_config(12_000, 1_500), &repo_opts())?;
    drop(repo);
    let a = Arc::new((*s0).clone());
    let b = Arc::new((*s0).clone());
    let cdir = tempfile::tempdir()?;
    let mut copts = RepositoryOptions::default();
    copts.no_cache = false;
    copts.cache_dir = Some(cdir.path().to_path_buf());
    let src = tempfile::tempdir()?;
    let tp = TreeParams { max_entries: 14, max_depth: 3, max_file: 40_000, odd_names: false, symlinks: true, hardlinks: false };
    materialize(src.path(), &gen_tree(&mut r, &tp))?;
    let cache_root = |cdir: &Path| -> Option<PathBuf> {
        std::fs::read_dir(cdir).ok()?.flatten().map(|e| e.path()).find(|p| p.is_dir())
    };

    let b_rec = RecBackend::new(b.clone(), "B");
    b_rec.set_plan(FaultPlan { record_reads: true, ..FaultPlan::default() });
    let mut out: Vec<String> = Vec::new();
    let mut diffs: Vec<String> = Vec::new();
    let mut stale: Vec<String> = Vec::new();
    let (mut cached_steps, mut listing_checks, mut planted, mut bad_before_total) = (0u32, 0u32, 0u32, 0u32);
    let (mut foreign_live, mut aborted) = (false, false);

    // one step on one store through one kind of handle
    let run_step = |store: Arc<dyn WriteBackend>, opts: &RepositoryOptions, op: u64, arg: u64| -> anyhow::Result<String> {
        let repo = open_repo(store, None, &key, opts)?;
        Ok(match op {
            0 => {
                let (_repo, snap) = backup_dir(repo, src.path(), "src", None)?;
                let s = snap.summary.as_ref().unwrap();
                format!(
                    "backup tree={} fn={} fc={} fu={} dn={} db={} tb={} bytes={}",
                    snap.tree, s.files_new, s.files_changed, s.files_unmodified, s.dirs_new, s.data_blobs, s.tree_blobs, s.total_bytes_processed
                )
            }
            1 => {
                let mut snaps = repo.get_all_snapshots()?;
                snaps.sort_by(|x, y| x.time.cmp(&y.time));
                let keep = arg as usize;
                let n = snaps.len().saturating_sub(keep);
                let rm: Vec<_> = snaps[..n].iter().map(|s| s.id).collect();
                let trees: Vec<String> = snaps[..n].iter().map(|s| s.tree.to_string()).collect();
                repo.delete_snapshots(&rm)?;
                format!("forget keep={keep} removed={}", trees.join(","))
            }
            2 => {
                let mut p = PruneOptions::default();
                p.keep_pack = rustic_core::jiff::Span::new();
                p.keep_delete = rustic_core::jiff::Span::new();
                p.max_unused = LimitOption::Size(bytesize::ByteSize(0));
                p.instant_delete = arg == 1;
                let plan = repo.prune_plan(&p)?;
                let st = plan.stats.blobs_sum();
                let res = format!("prune instant={} used={} unused={}", arg, st.used, st.unused);
                repo.prune(&p, plan)?;
                res
            }
            _ => {
                let res = repo.check(CheckOptions::default().read_data(arg & 1 == 1).trust_cache(arg & 2 == 2))?;
                format!("check read_data={} trust_cache={} ok={}", arg & 1, (arg >> 1) & 1, res.is_ok().is_ok())
            }
        })
    };

    for k in 0..nsteps {
        let op = if k == 0 { 0 } else { [0, 0, 1, 2, 3][r.below(5) as usize] };
        let arg = match op { 1 => 1 + r.below(2), 3 => r.below(4), _ => r.below(2) };
        let use_cache = r.below(10) < 6;
        // change the source a little before a backup
        if op == 0 && k > 0 {
            let c = Content::Random { seed: r.next(), len: r.below(20_000) as usize };
            std::fs::write(src.path().join(format!("extra{}", r.below(3))), c.bytes())?;
        }
        // faults in the cache directory
        if let Some(root) = cache_root(cdir.path()) {
            if r.below(2) == 0 {
                for tpe in [FileType::Snapshot, FileType::Index, FileType::Pack] {
                    let files = canonical_files(&root, tpe);
                    match r.below(4) {
                        0 if !files.is_empty() => {
                            let (_, sz, p) = &files[r.below(files.len() as u64) as usize];
                            let d = std::fs::read(p)?;
                            std::fs::write(p, &d[..(*sz as usize) / 2])?;
                            planted += 1;
                        }
                        1 if !files.is_empty() && tpe == FileType::Pack => {
                            // a foreign, longer file under the id of a cached tree pack: only check's clean-up
                            // evicts it, so it is planted right before a check step only
                            if op == 3 {
                                let (_, sz, p) = &files[r.below(files.len() as u64) as usize];
                                std::fs::write(p, Content::Random { seed: r.next(), len: *sz as usize + 40 }.bytes())?;
                                planted += 1;
                                foreign_live = true;
                            }
                        }
                        1 if !files.is_empty() => {
                            let (_, _, p) = &files[r.below(files.len() as u64) as usize];
                            let mut d = std::fs::read(p)?;
                            d.extend_from_slice(b"junk");
                            std::fs::write(p, d)?;
                            planted += 1;
                        }
                        2 => {
                            let id = id_from_u64(r.next() | 1);
                            let hexs = id.to_hex();
                            let d = root.join(tpe.dirname()).join(&hexs.as_str()[..2]);
                            std::fs::create_dir_all(&d)?;
                            std::fs::write(d.join(hexs.as_str()), Content::Random { seed: r.next(), len: 100 }.bytes())?;
                            planted += 1;
                        }
                        _ => {}
                    }
                }
            }
            if stray {
                // a 64-hex file outside the <xx>/ sub-directories: named like an existing snapshot
                // (wrong size) and a foreign one in index/
                if let Some((id, _)) = b.list_with_size(FileType::Snapshot)?.first() {
                    let d = root.join("snapshots");
                    std::fs::create_dir_all(&d)?;
                    std::fs::write(d.join(id.to_hex().as_str()), b"x")?;
                }
                let d = root.join("index");
                std::fs::create_dir_all(&d)?;
                std::fs::write(d.join(id_from_u64(r.next() | 1).to_hex().as_str()), b"y")?;
                planted += 2;
            }
        }
        let ra = run_step(a.clone(), &repo_opts(), op, arg)?;
        if use_cache {
            if let Some(root) = cache_root(cdir.path()) {
                for tpe in [FileType::Snapshot, FileType::Index] {
                    bad_before_total += bad_entries(&root, tpe, b.as_ref()).len() as u32;
                }
            }
        }
        let _ = b_rec.take_log();
        // an error of the step on B while the same step succeeded on A is a difference (not a harness
        // failure): recorded, and the history ends there because the two stores have diverged
        let rb_res = if use_cache { run_step(b_rec.clone(), &copts, op, arg) } else { run_step(b.clone(), &repo_opts(), op, arg) };
        let rb = match rb_res {
            Ok(s) => s,
            Err(e) => {
                let msg: String = format!("{e:#}").replace('\n', " ").chars().take(160).collect();
                diffs.push(format!(
                    "step {k}{}: uncached `{ra}` vs {} ERROR `{msg}`",
                    if foreign_live { " [foreign-longer-pack-in-cache]" } else { "" },
                    if use_cache { "cached" } else { "mixed" }
                ));
                aborted = true;
                break;
            }
        };
        if use_cache && op == 3 {
            // check's clean-up through the cached handle evicts wrong-size packs
            foreign_live = false;
        }
        let listed: std::collections::BTreeSet<usize> =
            b_rec.take_log().iter().filter(|o| o.kind == OpKind::List).map(|o| tnum(o.tpe)).collect();
        if ra != rb {
            diffs.push(format!("step {k}: uncached `{ra}` vs {} `{rb}`", if use_cache { "cached" } else { "mixed" }));
        }
        out.push(format!("{}{}", if use_cache { "C:" } else { "U:" }, ra.split(' ').next().unwrap()));
        if use_cache {
            cached_steps += 1;
            let root = cache_root(cdir.path()).ok_or_else(|| anyhow::anyhow!("no cache directory was created"))?;
            // the types this step listed through the cached handle (seen below the cache)
            let mut types: Vec<FileType> =
                [FileType::Snapshot, FileType::Index].into_iter().filter(|t| listed.contains(&tnum(*t))).collect();
            if op == 3 {
                types.push(FileType::Pack);
            }
            for tpe in types {
                listing_checks += 1;
                for e in bad_entries(&root, tpe, b.as_ref()) {
                    stale.push(format!("step {k} ({}): {e}", ra.split(' ').next().unwrap()));
                }
            }
        }
    }
    // final states
    let fin = |store: Arc<dyn WriteBackend>| -> anyhow::Result<String> {
        let repo = open_repo(store, None, &key, &repo_opts())?;
        let mut trees: Vec<String> = repo.get_all_snapshots()?.iter().map(|s| s.tree.to_string()).collect();
        trees.sort();
        let inf = repo.infos_index()?;
        let blobs: Vec<String> = inf.blobs.iter().map(|b| format!("{:?}:{}:{}", b.blob_type, b.count, b.data_size)).collect();
        let ok = repo.check(CheckOptions::default().read_data(true))?.is_ok().is_ok();
        Ok(format!("trees={} blobs={} check={ok}", trees.join(","), blobs.join(",")))
    };
    let (fa, fb) = (fin(a.clone())?, fin(b.clone())?);
    if fa != fb && !aborted {
        diffs.push(format!("final: `{fa}` vs `{fb}`"));
    }
    Ok(format!(
        "{} steps={} cached_steps={cached_steps} listing_checks={listing_checks} planted={planted} bad_before={bad_before_total} diffs={} stale={} final_check={} | {} | {}",
        if diffs.is_empty() && stale.is_empty() { "ok" } else { "FAIL" },
        out.join(","),
        diffs.len(),
        stale.len(),
        fa.ends_with("check=true"),
        diffs.join(" ;; "),
        stale.join(" ;; ")
    ))
}

// ------------------------------------------------------------------------------- readers
// The generic readers on the real Repository API.  (1) For each reader: is the file type
// listed below the cache while it runs (dynamic cross-check of the table regenerated from the
// source)?  (2) A snapshot that another (uncached) handle removed, still in the cache of the
// cached handle (re-planted before every call): does the reader return the same outcome
// through the cached handle as through a handle without cache?
// Line: `seed`.  Result: `name=<listed 0/1>:<cached ok/err>:<uncached ok/err>` ...
fn readers_case(line: &str) -> String {
    match std::panic::catch_unwind(|| readers_inner(line)) {
        Ok(Ok(s)) => s,
        Ok(Err(e)) => format!("error {e:#}").replace('\n', " "),
        Err(_) => "panic".into(),
    }
}

fn readers_inner(line: &str) -> anyhow::Result<String> {
    use rustic_core::repofile::{IndexFile, SnapshotFile, SnapshotId};
    use rustic_core::RepositoryOptions;
    use verif_harness::e2e::*;
    let mut t = Toks::new(line);
    let mut r = SplitMix(t.u());
    let store = mem();
    let (repo, key) = init_repo(store.clone(), None, &small_pack_config(12_000, 1_500), &repo_opts())?;
    drop(repo);
    let rec = RecBackend::new(store.clone(), "below-cache");
    rec.set_plan(FaultPlan { record_reads: true, ..FaultPlan::default() });
    let cdir = tempfile::tempdir()?;
    let mut copts = RepositoryOptions::default();
    copts.no_cache = false;
    copts.cache_dir = Some(cdir.path().to_path_buf());
    let src = tempfile::tempdir()?;
    let tp = TreeParams { max_entries: 8, max_depth: 2, max_file: 20_000, odd_names: false, symlinks: false, hardlinks: false };
    materialize(src.path(), &gen_tree(&mut r, &tp))?;
    let mut snaps = Vec::new();
    for k in 0..3 {
        std::fs::write(src.path().join("extra"), Content::Random { seed: r.next(), len: 3000 + k }.bytes())?;
        let repo = open_repo(rec.clone(), None, &key, &copts)?;
        let (_r, snap) = backup_dir(repo, src.path(), "src", None)?;
        snaps.push(snap);
    }
    let root = std::fs::read_dir(cdir.path())?.flatten().map(|e| e.path()).find(|p| p.is_dir()).ok_or_else(|| anyhow::anyhow!("no cache dir"))?;
    let victim = snaps[0].id;
    let vhex = victim.to_hex().to_string();
    let vpath = root.join("snapshots").join(&vhex[..2]).join(&vhex);
    let vbytes = std::fs::read(&vpath)?; // written through by the backup
    let other = snaps[2].id.to_hex().to_string();
    // another process forgets the first snapshot
    open_repo(store.clone(), None, &key, &repo_opts())?.delete_snapshots(&[victim])?;

    type Call = Box<dyn Fn(RepoOpen) -> bool>;
    let full = vhex.clone();
    let pre = vhex[..10].to_string();
    let calls: Vec<(&str, FileType, Call)> = vec![
        ("StreamAll", FileType::Snapshot, Box::new(|rp| rp.stream_files::<SnapshotFile>().map(|it| it.filter(Result::is_ok).count()).is_ok())),
        ("StreamList", FileType::Snapshot, { let v = victim; Box::new(move |rp| rp.stream_files_list::<SnapshotFile>(vec![v]).map(|it| it.filter(Result::is_ok).count() == 1).unwrap_or(false)) }),
        ("GetFile", FileType::Snapshot, { let v = victim; Box::new(move |rp| rp.get_file::<SnapshotFile>(&v).is_ok()) }),
        ("FindIdsFull", FileType::Snapshot, { let f = full.clone(); Box::new(move |rp| rp.find_ids::<SnapshotId, _>(&[f.clone()]).map(|i| i.count() == 1).unwrap_or(false)) }),
        ("FindIdsPrefix", FileType::Snapshot, { let f = pre.clone(); Box::new(move |rp| rp.find_ids::<SnapshotId, _>(&[f.clone()]).map(|i| i.count() == 1).unwrap_or(false)) }),
        ("SnapFromStrLatest", FileType::Snapshot, Box::new(|rp| rp.get_snapshot_from_str("latest", |_| true).is_ok())),
        ("SnapFromStrPrefix", FileType::Snapshot, { let f = pre.clone(); Box::new(move |rp| rp.get_snapshot_from_str(&f, |_| true).is_ok()) }),
        ("SnapFromStrId", FileType::Snapshot, { let f = full.clone(); Box::new(move |rp| rp.get_snapshot_from_str(&f, |_| true).is_ok()) }),
        ("SnapFromStrsLatest", FileType::Snapshot, { let f = full.clone(); Box::new(move |rp| rp.get_snapshots_from_strs(&["latest".to_string(), f.clone()], |_| true).map(|v| v.iter().all(|s| s.id != SnapshotId::default())).unwrap_or(false)) }),
        ("SnapFromStrsPrefix", FileType::Snapshot, { let (f, o) = (pre.clone(), other.clone()); Box::new(move |rp| rp.get_snapshots_from_strs(&[o[..10].to_string(), f.clone()], |_| true).is_ok()) }),
        ("SnapFromStrsIdsOnly", FileType::Snapshot, { let (f, o) = (full.clone(), other.clone()); Box::new(move |rp| rp.get_snapshots_from_strs(&[o.clone(), f.clone()], |_| true).map(|v| v.len() == 2).unwrap_or(false)) }),
        ("SnapUpdateFromIdsFull", FileType::Snapshot, { let f = full.clone(); Box::new(move |rp| rp.get_snapshots(&[f.clone()]).map(|v| v.len() == 1).unwrap_or(false)) }),
        ("SnapUpdateFromIdsPrefix", FileType::Snapshot, { let f = pre.clone(); Box::new(move |rp| rp.get_snapshots(&[f.clone()]).map(|v| v.len() == 1).unwrap_or(false)) }),
        ("SnapUpdateFromBackend", FileType::Snapshot, { let v = victim; Box::new(move |rp| rp.get_all_snapshots().map(|l| l.iter().any(|s| s.id == v)).unwrap_or(false)) }),
        ("IndexNew", FileType::Index, Box::new(|rp| rp.to_indexed().is_ok())),
        ("IndexOnlyFullTrees", FileType::Index, Box::new(|rp| rp.to_indexed_ids().is_ok())),
        ("CatFileFull", FileType::Snapshot, { let f = full.clone(); Box::new(move |rp| rp.cat_file(FileType::Snapshot, &f).is_ok()) }),
        ("CatFilePrefix", FileType::Snapshot, { let f = pre.clone(); Box::new(move |rp| rp.cat_file(FileType::Snapshot, &f).is_ok()) }),
        // the command level: backup with the removed snapshot as explicit parent (from_strs, full ids only):
        // "ok" = the parent was found and used
        ("BackupExplicitParent", FileType::Snapshot, {
            let (f, d) = (full.clone(), src.path().to_path_buf());
            Box::new(move |rp| {
                let mut po = rustic_core::ParentOptions::default();
                po.parents = vec![f.clone()];
                let bo = rustic_core::BackupOptions::default().parent_opts(po);
                backup_dir(rp, &d, "src", Some(bo)).map(|(_, sn)| !sn.get_parents().is_empty()).unwrap_or(false)
            })
        }),
    ];
    let _ = IndexFile::default();
    let mut out = Vec::new();
    for (name, tpe, call) in &calls {
        // the removed snapshot is (again) in the cache
        std::fs::create_dir_all(vpath.parent().unwrap())?;
        std::fs::write(&vpath, &vbytes)?;
        let cached = open_repo(rec.clone(), None, &key, &copts)?;
        let _ = rec.take_log();
        let a = call(cached);
        let listed = rec.take_log().iter().any(|o| o.kind == OpKind::List && o.tpe == *tpe);
        let b = call(open_repo(store.clone(), None, &key, &repo_opts())?);
        let still = vpath.exists();
        out.push(format!("{name}={}:{}:{}:{}", listed as u8, if a { "ok" } else { "err" }, if b { "ok" } else { "err" }, still as u8));
    }
    Ok(format!("ok {}", out.join(" ")))
}

// ------------------------------------------------------------------------------- trace
// The calls the real commands make on the cached handle: the repository is opened (no_cache)
// over  RecBackend -> CachedBackend (verif hook) -> store, so the recording wrapper sees every
// ReadBackend / WriteBackend call that reaches the cache layer.  The calls on snapshot and
// index files are printed as a case line of the op-sequence format (ids renumbered, data
// empty); between two commands "anything may have happened" (a file planted per type).  The
// extracted Model.disciplined is evaluated on it by the check.
// Line: `seed`.  Result: `ok <case line of the commands> ## <case line ending in an explicit-id read>`.
fn trace_case(line: &str) -> String {
    match std::panic::catch_unwind(|| trace_inner(line)) {
        Ok(Ok(s)) => s,
        Ok(Err(e)) => format!("error {e:#}").replace('\n', " "),
        Err(_) => "panic".into(),
    }
}

fn trace_inner(line: &str) -> anyhow::Result<String> {
    use rustic_core::{CheckOptions, LimitOption, PruneOptions};
    use verif_harness::e2e::*;
    let mut t = Toks::new(line);
    let mut r = SplitMix(t.u());
    let store = mem();
    let (repo, key) = init_repo(store.clone(), None, &small_pack_config(12_000, 1_500), &repo_opts())?;
    drop(repo);
    let cdir = tempfile::tempdir()?;
    let cache = hook::new_cache(id_from_u64(78), cdir.path().to_path_buf())?;
    let cached = hook::cached_backend(store.clone(), &cache);
    let rec = RecBackend::new(cached, "above-cache");
    rec.set_plan(FaultPlan { record_reads: true, ..FaultPlan::default() });
    let src = tempfile::tempdir()?;
    let tp = TreeParams { max_entries: 8, max_depth: 2, max_file: 20_000, odd_names: false, symlinks: false, hardlinks: false };
    materialize(src.path(), &gen_tree(&mut r, &tp))?;

    let mut ids: BTreeMap<Id, u64> = BTreeMap::new();
    let mut ops: Vec<String> = Vec::new();
    let mut names: Vec<String> = Vec::new();
    let mut flush = |ops: &mut Vec<String>, ids: &mut BTreeMap<Id, u64>, log: Vec<Op>| {
        for o in log {
            let tn = tnum(o.tpe);
            if tn != 1 && tn != 3 {
                continue; // snapshot and index files only
            }
            let n = ids.len() as u64 + 1;
            let i = *ids.entry(o.id).or_insert(n);
            match o.kind {
                OpKind::List => ops.push(format!("4 {tn}")),
                OpKind::ReadFull => ops.push(format!("0 {tn} {i}")),
                OpKind::ReadPartial => ops.push(format!("1 {tn} {i} {} {} {}", o.cacheable as u8, o.offset, o.len.max(1))),
                OpKind::Write => ops.push(format!("2 {tn} {i} {} {} 0", o.cacheable as u8, o.ok as u8)),
                OpKind::Remove => ops.push(format!("3 {tn} {i} {}", o.cacheable as u8)),
                _ => {}
            }
        }
    };
    let reset = |ops: &mut Vec<String>| {
        ops.push("8 3 9999 0".into());
        ops.push("8 1 9999 0".into());
    };
    let open = || open_repo(rec.clone(), None, &key, &repo_opts());

    // backup, backup with parent, forget, prune, check, latest snapshot
    for k in 0..3 {
        std::fs::write(src.path().join("extra"), Content::Random { seed: r.next(), len: 3000 + k }.bytes())?;
        let _ = rec.take_log();
        let _ = backup_dir(open()?, src.path(), "src", None)?;
        flush(&mut ops, &mut ids, rec.take_log());
        reset(&mut ops);
        names.push("backup".into());
    }
    {
        let repo = open()?;
        let _ = rec.take_log();
        let mut snaps = repo.get_all_snapshots()?;
        snaps.sort_by(|x, y| x.time.cmp(&y.time));
        let rm: Vec<_> = snaps[..1].iter().map(|s| s.id).collect();
        repo.delete_snapshots(&rm)?;
        flush(&mut ops, &mut ids, rec.take_log());
        reset(&mut ops);
        names.push("forget".into());
    }
    {
        let repo = open()?;
        let _ = rec.take_log();
        let mut p = PruneOptions::default();
        p.keep_pack = rustic_core::jiff::Span::new();
        p.keep_delete = rustic_core::jiff::Span::new();
        p.max_unused = LimitOption::Size(bytesize::ByteSize(0));
        p.instant_delete = true;
        let plan = repo.prune_plan(&p)?;
        repo.prune(&p, plan)?;
        flush(&mut ops, &mut ids, rec.take_log());
        reset(&mut ops);
        names.push("prune".into());
    }
    for combo in 0..4u64 {
        let repo = open()?;
        let _ = rec.take_log();
        let ok = repo.check(CheckOptions::default().read_data(combo & 1 == 1).trust_cache(combo & 2 == 2))?.is_ok().is_ok();
        anyhow::ensure!(ok, "check reports errors");
        flush(&mut ops, &mut ids, rec.take_log());
        reset(&mut ops);
        names.push(format!("check-rd{}-tc{}", combo & 1, (combo >> 1) & 1));
    }
    let latest = {
        let repo = open()?;
        let _ = rec.take_log();
        let sn = repo.get_snapshot_from_str("latest", |_| true)?;
        let _ = repo.get_snapshot_from_str(&sn.id.to_hex().as_str()[..12], |_| true)?;
        flush(&mut ops, &mut ids, rec.take_log());
        names.push("snapshot-by-latest-and-prefix".into());
        sn
    };
    let good = format!("{} {}", ops.len(), ops.join(" "));
    // negative control: after anything may have happened, a snapshot read by its full id
    reset(&mut ops);
    {
        let repo = open()?;
        let _ = rec.take_log();
        let _ = repo.get_snapshots(&[latest.id.to_hex().to_string()])?;
        flush(&mut ops, &mut ids, rec.take_log());
    }
    let bad = format!("{} {}", ops.len(), ops.join(" "));
    Ok(format!("ok {} ## {good} ## {bad}", names.join(",")))
}

// ------------------------------------------------------------------------------- checkopts
// `check` with every CheckOptions combination that changes how the cache is used
// (trust_cache x read_data), through the cached handle and through a handle without cache, over
// each kind of planted cache file (stale / foreign / truncated / longer / misplaced; packs,
// snapshots, index files).  The cache directory is restored before every run.
// Line: `seed`.  Result: `ok runs=N` or `FAIL <kind> tc=.. rd=.. cached=.. uncached=.. bad=..;...`
fn checkopts_case(line: &str) -> String {
    match std::panic::catch_unwind(|| checkopts_inner(line)) {
        Ok(Ok(s)) => s,
        Ok(Err(e)) => format!("error {e:#}").replace('\n', " "),
        Err(p) => {
            let msg = p.downcast_ref::<String>().cloned().or_else(|| p.downcast_ref::<&str>().map(|s| s.to_string())).unwrap_or_default();
            format!("panic {}", &msg.replace('\n', " ")[..msg.len().min(200)])
        }
    }
}

fn checkopts_inner(line: &str) -> anyhow::Result<String> {
    use rustic_core::{CheckOptions, RepositoryOptions};
    use verif_harness::e2e::*;
    let mut t = Toks::new(line);
    let mut r = SplitMix(t.u());
    let store = mem();
    let (repo, key) = init_repo(store.clone(), None, &small_pack_config(12_000, 1_500), &repo_opts())?;
    drop(repo);
    let cdir = tempfile::tempdir()?;
    let mut copts = RepositoryOptions::default();
    copts.no_cache = false;
    copts.cache_dir = Some(cdir.path().to_path_buf());
    let src = tempfile::tempdir()?;
    let tp = TreeParams { max_entries: 14, max_depth: 3, max_file: 20_000, odd_names: false, symlinks: false, hardlinks: false };
    materialize(src.path(), &gen_tree(&mut r, &tp))?;
    std::fs::create_dir_all(src.path().join("d1/d2"))?;
    std::fs::write(src.path().join("d1/d2/f"), b"nested")?;
    for k in 0..2 {
        std::fs::write(src.path().join("extra"), Content::Random { seed: r.next(), len: 3000 + k }.bytes())?;
        let _ = backup_dir(open_repo(store.clone(), None, &key, &copts)?, src.path(), "src", None)?;
    }
    // another process forgets the older snapshot: its cache entry is stale
    {
        let rp = open_repo(store.clone(), None, &key, &repo_opts())?;
        let mut sn = rp.get_all_snapshots()?;
        sn.sort_by(|x, y| x.time.cmp(&y.time));
        rp.delete_snapshots(&[sn[0].id])?;
    }
    let root = std::fs::read_dir(cdir.path())?.flatten().map(|e| e.path()).find(|p| p.is_dir()).ok_or_else(|| anyhow::anyhow!("no cache dir"))?;
    // pristine copy of the cache directory
    fn snapshot_dir(d: &Path, out: &mut Vec<(PathBuf, Vec<u8>)>) {
        if let Ok(rd) = std::fs::read_dir(d) {
            for e in rd.flatten() {
                if e.path().is_dir() { snapshot_dir(&e.path(), out) } else { out.push((e.path(), std::fs::read(e.path()).unwrap())) }
            }
        }
    }
    let mut pristine = Vec::new();
    snapshot_dir(&root, &mut pristine);
    let restore = |root: &Path| -> anyhow::Result<()> {
        std::fs::remove_dir_all(root)?;
        for (p, d) in &pristine {
            std::fs::create_dir_all(p.parent().unwrap())?;
            std::fs::write(p, d)?;
        }
        Ok(())
    };
    let packs = canonical_files(&root, FileType::Pack);
    anyhow::ensure!(!packs.is_empty(), "no tree pack was cached");
    let kinds: [(&str, FileType, u8); 13] = [
        ("none", FileType::Pack, 0),
        ("pack-longer-foreign", FileType::Pack, 1),
        ("pack-truncated", FileType::Pack, 2),
        ("pack-foreign-id", FileType::Pack, 3),
        ("pack-misplaced", FileType::Pack, 4),
        ("pack-shorter-foreign", FileType::Pack, 5),
        ("snapshot-longer", FileType::Snapshot, 1),
        ("snapshot-truncated", FileType::Snapshot, 2),
        ("snapshot-foreign-id", FileType::Snapshot, 3),
        ("snapshot-misplaced", FileType::Snapshot, 4),
        ("index-longer", FileType::Index, 1),
        ("index-truncated", FileType::Index, 2),
        ("index-foreign-id", FileType::Index, 3),
    ];
    let mut fails = Vec::new();
    let mut runs = 0;
    let mut cleaned = 0;
    for (name, tpe, kind) in kinds {
        for combo in 0..4u64 {
            let (tc, rd) = (combo & 2 == 2, combo & 1 == 1);
            restore(&root)?;
            let files = canonical_files(&root, tpe);
            if kind != 0 && kind != 3 && files.is_empty() {
                continue;
            }
            match kind {
                1 => {
                    let (_, sz, p) = &files[0];
                    std::fs::write(p, Content::Random { seed: 77 + combo, len: *sz as usize + 48 }.bytes())?;
                }
                2 => {
                    let (_, sz, p) = &files[0];
                    let d = std::fs::read(p)?;
                    std::fs::write(p, &d[..*sz as usize / 2])?;
                }
                3 => {
                    let hexs = id_from_u64(0xabcd_0000_0000_0001 + combo).to_hex();
                    let d = root.join(tpe.dirname()).join(&hexs.as_str()[..2]);
                    std::fs::create_dir_all(&d)?;
                    std::fs::write(d.join(hexs.as_str()), Content::Random { seed: 5, len: 120 }.bytes())?;
                }
                4 => {
                    let (id, _, _) = &files[0];
                    std::fs::write(root.join(tpe.dirname()).join(id.to_hex().as_str()), b"misplaced")?;
                }
                5 => {
                    let (_, sz, p) = &files[0];
                    std::fs::write(p, Content::Random { seed: 78 + combo, len: (*sz as usize).saturating_sub(20).max(1) }.bytes())?;
                }
                _ => {}
            }
            let bad_before: usize = [FileType::Snapshot, FileType::Index, FileType::Pack].iter().map(|t| bad_entries(&root, *t, store.as_ref()).len()).sum();
            let o = CheckOptions::default().read_data(rd).trust_cache(tc);
            // an Err of the command itself is a verdict too (e.g. the index cannot be read)
            let verdict = |ro: &RepositoryOptions| -> anyhow::Result<String> {
                Ok(match open_repo(store.clone(), None, &key, ro)?.check(o) {
                    Ok(res) => res.is_ok().is_ok().to_string(),
                    Err(_) => "error".into(),
                })
            };
            let a = verdict(&copts)?;
            let b = verdict(&repo_opts())?;
            let bad: Vec<String> = [FileType::Snapshot, FileType::Index, FileType::Pack].iter().flat_map(|t| bad_entries(&root, *t, store.as_ref())).collect();
            runs += 1;
            cleaned += bad_before;
            if a != b || !bad.is_empty() {
                fails.push(format!("{name} tc={} rd={} cached={a} uncached={b} bad={}", tc as u8, rd as u8, bad.join(",")));
            }
        }
    }
    if fails.is_empty() {
        Ok(format!("ok runs={runs} bad_entries_before={cleaned}"))
    } else {
        Ok(format!("FAIL runs={runs} | {}", fails.join(" ;; ")))
    }
}

fn main() {
    let args: Vec<String> = std::env::args().collect();
    if args.len() > 2 && args[2] == "checkopts" {
        for_each_case(|l| checkopts_case(l));
    } else if args.len() > 2 && args[2] == "trace" {
        for_each_case(|l| trace_case(l));
    } else if args.len() > 2 && args[2] == "readers" {
        for_each_case(|l| readers_case(l));
    } else if args.len() > 2 && args[2] == "e2e" {
        for_each_case(|l| e2e_case(l));
    } else {
        for_each_case(|l| ops_case(l));
    }
}
