//! C19 correspondence: the real `CachedBackend` + `Cache` (through the verif hook) on a
//! temporary cache directory over an in-memory backend, driven by generated operation
//! sequences that interleave the cached handle with a second, uncached handle on the same
//! backend and with files planted in the cache directory.  A twin backend receives the same
//! operations without any cache: the oracle is `cached result == uncached result`.
//!
//! Modes:  `c19 FILE`        one case per line (format below), one result line per case
//!         `c19 SEEDS e2e`   one seed per line: identical backup/forget/prune/check histories
//!                           with no_cache = true / false (see `e2e_case`)
//!
//! Case line: `nops` then per op (all integers; types 0 Config 1 Index 2 Key 3 Snapshot 4 Pack)
//!   0 t i                 read_full
//!   1 t i c off len       read_partial (c = cacheable flag)
//!   2 t i c ok n b*n      write_bytes through the cached handle (ok = 0: the backend rejects)
//!   3 t i c               remove
//!   4 t                   list_with_size
//!   5 n (i sz)*n          Cache::remove_not_in_list(Pack, list)   (what `check` calls)
//!   6 t i n b*n           second (uncached) handle writes to the backend
//!   7 t i                 second handle removes from the backend
//!   8 t i n b*n           plant a file at the canonical cache path <dir>/<xx>/<hex>
//!   9 t i size            plant a 64-hex file at the non-canonical path <dir>/<hex>
//!   10 t i                delete the canonical cache file
//! Result per op: `C=<res>;U=<res>;B=<backends equal>;K=<cache directory listing>`.
use std::collections::BTreeMap;
use std::path::{Path, PathBuf};
use std::sync::atomic::{AtomicBool, Ordering};
use std::sync::{Arc, RwLock};

use bytes::Bytes;
use rustic_core::verif_hooks::c19 as hook;
use rustic_core::{BytesList, ErrorKind, FileType, Id, ReadBackend, RusticError, RusticResult, WriteBackend};
use verif_harness::*;

const TYPES: [FileType; 5] = [FileType::Config, FileType::Index, FileType::Key, FileType::Snapshot, FileType::Pack];
fn tnum(t: FileType) -> usize {
    TYPES.iter().position(|x| *x == t).unwrap()
}

/// An exact in-memory map backend (errors instead of panics; overwriting writes).
#[derive(Debug, Default)]
pub struct MemBe {
    map: RwLock<BTreeMap<(usize, Id), Bytes>>,
    fail_next_write: AtomicBool,
}
fn berr(what: &str) -> Box<RusticError> {
    RusticError::new(ErrorKind::Backend, what.to_string())
}
impl ReadBackend for MemBe {
    fn location(&self) -> String {
        "mem".into()
    }
    fn list_with_size(&self, tpe: FileType) -> RusticResult<Vec<(Id, u32)>> {
        let t = tnum(tpe);
        Ok(self.map.read().unwrap().iter().filter(|((tt, _), _)| *tt == t).map(|((_, i), b)| (*i, b.len() as u32)).collect())
    }
    fn read_full(&self, tpe: FileType, id: &Id) -> RusticResult<Bytes> {
        self.map.read().unwrap().get(&(tnum(tpe), *id)).cloned().ok_or_else(|| berr("missing"))
    }
    fn read_partial(&self, tpe: FileType, id: &Id, _c: bool, offset: u32, length: u32) -> RusticResult<Bytes> {
        let m = self.map.read().unwrap();
        let b = m.get(&(tnum(tpe), *id)).ok_or_else(|| berr("missing"))?;
        let (o, l) = (offset as usize, length as usize);
        if o + l > b.len() {
            return Err(berr("short read"));
        }
        Ok(b.slice(o..o + l))
    }
}
impl WriteBackend for MemBe {
    fn create(&self) -> RusticResult<()> {
        Ok(())
    }
    fn write_bytes(&self, tpe: FileType, id: &Id, _c: bool, content: BytesList) -> RusticResult<()> {
        if self.fail_next_write.swap(false, Ordering::SeqCst) {
            return Err(berr("rejected"));
        }
        let mut v = Vec::new();
        for b in content.slice() {
            v.extend_from_slice(b);
        }
        let _ = self.map.write().unwrap().insert((tnum(tpe), *id), v.into());
        Ok(())
    }
    fn remove(&self, tpe: FileType, id: &Id, _c: bool) -> RusticResult<()> {
        self.map.write().unwrap().remove(&(tnum(tpe), *id)).map(|_| ()).ok_or_else(|| berr("missing"))
    }
}

fn is_hex64(s: &str) -> bool {
    s.len() == 64 && s.chars().all(|c| c.is_ascii_digit() || ('a'..='f').contains(&c))
}

/// canonical text of everything below the cache root
fn cache_listing(root: &Path) -> String {
    fn walk(d: &Path, out: &mut Vec<PathBuf>) {
        if let Ok(rd) = std::fs::read_dir(d) {
            for e in rd.flatten() {
                let p = e.path();
                let md = std::fs::symlink_metadata(&p).unwrap();
                if md.is_dir() {
                    walk(&p, out);
                } else {
                    out.push(p);
                }
            }
        }
    }
    let mut files = Vec::new();
    walk(root, &mut files);
    let mut items = Vec::new();
    for p in files {
        let rel = p.strip_prefix(root).unwrap();
        let comps: Vec<String> = rel.components().map(|c| c.as_os_str().to_string_lossy().to_string()).collect();
        let name = comps.last().unwrap().clone();
        let t = TYPES.iter().position(|t| t.dirname() == comps[0]);
        match t {
            Some(t) if is_hex64(&name) => {
                let idn = u64::from_str_radix(&name[..16], 16).unwrap();
                if comps.len() == 3 && comps[1] == name[..2] {
                    items.push(format!("F{t}/{idn}={}", hex::encode(std::fs::read(&p).unwrap())));
                } else {
                    items.push(format!("S{t}/{idn}~{}", std::fs::metadata(&p).unwrap().len()));
                }
            }
            _ => items.push(format!("?{}", comps.join("/"))),
        }
    }
    items.sort();
    items.join(",")
}

fn rd_bytes(t: &mut Toks) -> Vec<u8> {
    let n = t.u();
    (0..n).map(|_| t.u() as u8).collect()
}
fn res_data(r: Option<Bytes>) -> String {
    match r {
        Some(b) => format!("D:{}", hex::encode(b)),
        None => "D:-".into(),
    }
}
fn res_list(l: RusticResult<Vec<(Id, u32)>>) -> String {
    match l {
        Ok(mut l) => {
            l.sort();
            format!("L:{}", l.iter().map(|(i, s)| format!("{}:{s}", id_to_u64(i))).collect::<Vec<_>>().join(","))
        }
        Err(_) => "L:-".into(),
    }
}
fn guarded<T>(f: impl FnOnce() -> RusticResult<T>) -> Option<T> {
    match std::panic::catch_unwind(std::panic::AssertUnwindSafe(f)) {
        Ok(Ok(x)) => Some(x),
        _ => None,
    }
}

fn ops_case(line: &str) -> String {
    let mut t = Toks::new(line);
    let dir = tempfile::tempdir().unwrap();
    let cache = hook::new_cache(id_from_u64(77), dir.path().to_path_buf()).unwrap();
    let root = PathBuf::from(cache.location());
    let be = Arc::new(MemBe::default());
    let twin = Arc::new(MemBe::default());
    let cached = hook::cached_backend(be.clone(), &cache);
    let nops = t.u();
    let mut out = Vec::new();
    for _ in 0..nops {
        let code = t.u();
        let (c, u): (String, String) = match code {
            0 => {
                let (tp, i) = (TYPES[t.u() as usize], id_from_u64(t.u()));
                (res_data(guarded(|| cached.read_full(tp, &i))), res_data(guarded(|| twin.read_full(tp, &i))))
            }
            1 => {
                let (tp, i, c, off, len) = (TYPES[t.u() as usize], id_from_u64(t.u()), t.u() == 1, t.u() as u32, t.u() as u32);
                (
                    res_data(guarded(|| cached.read_partial(tp, &i, c, off, len))),
                    res_data(guarded(|| twin.read_partial(tp, &i, c, off, len))),
                )
            }
            2 => {
                let (tp, i, c, ok) = (TYPES[t.u() as usize], id_from_u64(t.u()), t.u() == 1, t.u() == 1);
                let d = rd_bytes(&mut t);
                if !ok {
                    be.fail_next_write.store(true, Ordering::SeqCst);
                    twin.fail_next_write.store(true, Ordering::SeqCst);
                }
                let a = guarded(|| cached.write_bytes(tp, &i, c, d.clone().into())).is_some();
                let b = guarded(|| twin.write_bytes(tp, &i, c, d.clone().into())).is_some();
                (format!("U:{}", a as u8), format!("U:{}", b as u8))
            }
            3 => {
                let (tp, i, c) = (TYPES[t.u() as usize], id_from_u64(t.u()), t.u() == 1);
                let a = guarded(|| cached.remove(tp, &i, c)).is_some();
                let b = guarded(|| twin.remove(tp, &i, c)).is_some();
                (format!("U:{}", a as u8), format!("U:{}", b as u8))
            }
            4 => {
                let tp = TYPES[t.u() as usize];
                (
                    res_list(guarded(|| cached.list_with_size(tp)).ok_or_else(|| berr("x"))),
                    res_list(guarded(|| twin.list_with_size(tp)).ok_or_else(|| berr("x"))),
                )
            }
            5 => {
                let n = t.u();
                let l: Vec<(Id, u32)> = (0..n).map(|_| (id_from_u64(t.u()), t.u() as u32)).collect();
                let a = guarded(|| cache.remove_not_in_list(FileType::Pack, &l)).is_some();
                (format!("U:{}", a as u8), "N".into())
            }
            6 => {
                let (tp, i) = (TYPES[t.u() as usize], id_from_u64(t.u()));
                let d = rd_bytes(&mut t);
                be.write_bytes(tp, &i, false, d.clone().into()).unwrap();
                twin.write_bytes(tp, &i, false, d.into()).unwrap();
                ("N".into(), "N".into())
            }
            7 => {
                let (tp, i) = (TYPES[t.u() as usize], id_from_u64(t.u()));
                let a = be.remove(tp, &i, false).is_ok();
                let b = twin.remove(tp, &i, false).is_ok();
                (format!("U:{}", a as u8), format!("U:{}", b as u8))
            }
            8 => {
                let (tp, i) = (TYPES[t.u() as usize], id_from_u64(t.u()));
                let d = rd_bytes(&mut t);
                let p = cache.path(tp, &i);
                std::fs::create_dir_all(p.parent().unwrap()).unwrap();
                std::fs::write(&p, d).unwrap();
                ("N".into(), "N".into())
            }
            9 => {
                let (tp, i, sz) = (TYPES[t.u() as usize], id_from_u64(t.u()), t.u() as usize);
                let d = root.join(tp.dirname());
                std::fs::create_dir_all(&d).unwrap();
                std::fs::write(d.join(i.to_hex().as_str()), vec![0x5a; sz]).unwrap();
                ("N".into(), "N".into())
            }
            10 => {
                let (tp, i) = (TYPES[t.u() as usize], id_from_u64(t.u()));
                let _ = std::fs::remove_file(cache.path(tp, &i));
                ("N".into(), "N".into())
            }
            _ => panic!("bad op code"),
        };
        let beq = *be.map.read().unwrap() == *twin.map.read().unwrap();
        out.push(format!("C={c};U={u};B={};K={}", beq as u8, cache_listing(&root)));
    }
    let (tr, da) = hook::blob_types_cacheable();
    out.push(format!("blob_cacheable={}{}", tr as u8, da as u8));
    out.join(" | ")
}

fn e2e_case(_line: &str) -> String {
    "todo".into()
}

fn main() {
    let args: Vec<String> = std::env::args().collect();
    if args.len() > 2 && args[2] == "e2e" {
        for_each_case(|l| e2e_case(l));
    } else {
        for_each_case(|l| ops_case(l));
    }
}
