//! C06 correspondence: run the real chunk iterator (`ChunkIter::from_config`, through the
//! hook `verif_hooks::c06::chunk_all`) over a reader that follows a given read schedule.
//!
//! Case line:  `R <poly hex> <avg> <min> <max> <hint> <n> <ev>*n <data hex | ->`
//!        or   `F <size> <hint> <n> <ev>*n <data hex | ->`
//!        or   `P <avg> <min> <max>`            (is the parameter triple accepted?)
//! event `0` = the read fails with `ErrorKind::Interrupted`; `k > 0` = the read delivers at
//! most `k` bytes; after the schedule is used up every read is as long as possible.
//! Result line: `ok <concat 0|1> <len>*` | `panic:<class>` | `err:<class>` .
use rustic_core::verif_hooks::c06::{ChunkerSpec, chunk_all, rabin_params_accepted};
use std::io::{self, Read};
use std::sync::Mutex;
use verif_harness::*;

static LAST_PANIC: Mutex<String> = Mutex::new(String::new());

struct SchedReader {
    data: Vec<u8>,
    pos: usize,
    sched: Vec<u64>,
    si: usize,
}

impl Read for SchedReader {
    fn read(&mut self, buf: &mut [u8]) -> io::Result<usize> {
        if buf.is_empty() {
            return Ok(0);
        }
        let rem = self.data.len() - self.pos;
        let n = if self.si < self.sched.len() {
            let ev = self.sched[self.si];
            self.si += 1;
            if ev == 0 {
                return Err(io::Error::new(io::ErrorKind::Interrupted, "scheduled interrupt"));
            }
            (ev as usize).min(buf.len()).min(rem)
        } else {
            buf.len().min(rem)
        };
        buf[..n].copy_from_slice(&self.data[self.pos..self.pos + n]);
        self.pos += n;
        Ok(n)
    }
}

fn classify_panic(msg: &str) -> &'static str {
    if msg.contains("subtract with overflow") {
        "sub-overflow"
    } else if msg.contains("out of range") || msg.contains("slice index") {
        "slice-index"
    } else if msg.contains("shift") {
        "shift-overflow"
    } else if msg.contains("overflow") {
        "arith-overflow"
    } else {
        "other"
    }
}

fn run_case(line: &str) -> String {
    let mut t = Toks::new(line);
    let kind = t.s();
    if kind == "P" {
        let (a, mi, ma) = (t.u() as usize, t.u() as usize, t.u() as usize);
        return format!("ok {}", u8::from(rabin_params_accepted(a, mi, ma)));
    }
    let spec = if kind == "R" {
        let poly = u64::from_str_radix(t.s(), 16).expect("poly hex");
        ChunkerSpec::Rabin { poly, avg: t.u() as usize, min: t.u() as usize, max: t.u() as usize }
    } else {
        ChunkerSpec::Fixed { size: t.u() as usize }
    };
    let hint = t.u() as usize;
    let n = t.u() as usize;
    let sched: Vec<u64> = (0..n).map(|_| t.u()).collect();
    let hx = t.s();
    let data = if hx == "-" { Vec::new() } else { hex::decode(hx).expect("data hex") };
    let reader = SchedReader { data: data.clone(), pos: 0, sched, si: 0 };
    let cap = data.len() + 8;
    match chunk_all(&spec, reader, hint, cap) {
        Ok(chunks) => {
            let cat: Vec<u8> = chunks.iter().flatten().copied().collect();
            let mut s = format!("ok {}", u8::from(cat == data));
            for c in &chunks {
                s.push_str(&format!(" {}", c.len()));
            }
            s
        }
        Err(e) => {
            let cls = if e.starts_with("new:") {
                "rejected"
            } else if e.starts_with("too-many") {
                "too-many-chunks"
            } else {
                "io"
            };
            format!("err:{cls}")
        }
    }
}

fn case(line: &str) -> String {
    // for_each_case installs a silent hook; replace it by one that records the message
    std::panic::set_hook(Box::new(|info| {
        let msg = if let Some(s) = info.payload().downcast_ref::<&str>() {
            (*s).to_string()
        } else if let Some(s) = info.payload().downcast_ref::<String>() {
            s.clone()
        } else {
            String::new()
        };
        *LAST_PANIC.lock().unwrap() = msg;
    }));
    let l = line.to_string();
    match std::panic::catch_unwind(move || run_case(&l)) {
        Ok(s) => s,
        Err(_) => format!("panic:{}", classify_panic(&LAST_PANIC.lock().unwrap())),
    }
}

fn main() {
    for_each_case(case);
}
