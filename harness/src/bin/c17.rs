//! C17 correspondence: build the real in-memory index from generated index files in the
//! three `IndexType`s (hook `verif_hooks::c17`) and print has / get_id / total_size /
//! into_iter.  Sub-command `e2e`: write the files into a repository on the in-memory
//! backend and query the index the repository loads itself (to_indexed, to_indexed_ids).
//!
//! Case line (integers):
//!   nfiles { npacks pack* ndel pack* }*  nq { tpe id_hi id_lo }*
//!   pack = pid_hi pid_lo sizeflag [size] nblobs blob*
//!   blob = id_hi id_lo tpe(0 tree,1 data) offset length ulen(0 = none)
//! Result line: for each mode `M tt td` then per query `h g`, then `I` packs.
use rustic_core::repofile::{IndexFile, IndexId, IndexPack};
use rustic_core::verif_hooks::c17::{self as hook, Answer, IndexHandle};
use rustic_core::Id;
use serde_json::{json, Value};
use std::panic::{catch_unwind, AssertUnwindSafe};
use verif_harness::*;

/// 8 leading bytes `hi`, 16 zero bytes, 8 trailing bytes `lo`
fn mkid(hi: u64, lo: u64) -> Id {
    let mut b = [0u8; 32];
    b[..8].copy_from_slice(&hi.to_be_bytes());
    b[24..].copy_from_slice(&lo.to_be_bytes());
    Id::from_hex(&hex::encode(b)).unwrap()
}
fn idstr(id: &Id) -> String {
    let h = id.to_hex();
    let s = h.as_str();
    let hi = u64::from_str_radix(&s[..16], 16).unwrap();
    let lo = u64::from_str_radix(&s[48..], 16).unwrap();
    assert!(s[16..48].bytes().all(|c| c == b'0'), "id outside the test embedding");
    format!("{hi}_{lo}")
}

fn pack_json(t: &mut Toks) -> Value {
    let id = mkid(t.u(), t.u());
    let size = if t.u() == 1 { Some(t.u()) } else { None };
    let nb = t.u();
    let mut blobs = Vec::new();
    for _ in 0..nb {
        let bid = mkid(t.u(), t.u());
        let tp = if t.u() == 0 { "tree" } else { "data" };
        let (off, len, ul) = (t.u(), t.u(), t.u());
        let mut b = json!({"id": bid.to_hex().as_str(), "type": tp, "offset": off, "length": len});
        if ul != 0 {
            b["uncompressed_length"] = json!(ul);
        }
        blobs.push(b);
    }
    let mut p = json!({"id": id.to_hex().as_str(), "blobs": blobs});
    if let Some(s) = size {
        p["size"] = json!(s);
    }
    p
}

struct Case {
    files: Vec<IndexFile>,
    queries: Vec<(bool, Id)>,
}

fn parse(line: &str) -> Case {
    let mut t = Toks::new(line);
    let nf = t.u();
    let mut files = Vec::new();
    for _ in 0..nf {
        let np = t.u();
        let packs: Vec<Value> = (0..np).map(|_| pack_json(&mut t)).collect();
        let nd = t.u();
        let del: Vec<Value> = (0..nd).map(|_| pack_json(&mut t)).collect();
        let mut f = json!({"packs": packs});
        if !del.is_empty() {
            f["packs_to_delete"] = json!(del);
        }
        // through the JSON text, as an index file read from a repository would be
        let txt = serde_json::to_string(&f).unwrap();
        files.push(serde_json::from_str::<IndexFile>(&txt).expect("index file json"));
    }
    let nq = t.u();
    let queries = (0..nq).map(|_| (t.u() == 0, mkid(t.u(), t.u()))).collect();
    Case { files, queries }
}

fn ans(a: &Option<Answer>) -> String {
    match a {
        None => "-".into(),
        Some(a) => format!(
            "{}:{}:{}:{}:{}",
            if a.is_tree { "T" } else { "D" },
            idstr(&a.pack),
            a.offset,
            a.length,
            a.uncompressed_length.unwrap_or(0)
        ),
    }
}

fn pack_str(p: &IndexPack) -> String {
    let v = serde_json::to_value(p).unwrap();
    let mut blobs: Vec<(String, String, u64, u64, u64)> = v["blobs"]
        .as_array()
        .unwrap()
        .iter()
        .map(|b| {
            (
                idstr(&Id::from_hex(b["id"].as_str().unwrap()).unwrap()),
                if b["type"] == "tree" { "T".to_string() } else { "D".to_string() },
                b["offset"].as_u64().unwrap(),
                b["length"].as_u64().unwrap(),
                b.get("uncompressed_length").and_then(Value::as_u64).unwrap_or(0),
            )
        })
        .collect();
    blobs.sort();
    let bs: Vec<String> = blobs.iter().map(|b| format!("{}.{}.{}.{}.{}", b.0, b.1, b.2, b.3, b.4)).collect();
    let size = v.get("size").and_then(Value::as_u64).map_or("-".to_string(), |s| s.to_string());
    let time = if v.get("time").is_some() { "t" } else { "" };
    format!("{}/{}{}[{}]", idstr(&p.id.into_inner()), size, time, bs.join(";"))
}

fn direct_case(line: &str) -> String {
    let c = parse(line);
    let mut out = Vec::new();
    // blocks 0..2: IndexCollector::new(mode) + extend(file.packs); block 3: the index prune builds
    for mode in 0u8..4 {
        let build = |m: u8| if m < 3 { IndexHandle::from_files(m, &c.files) } else { IndexHandle::from_files_prune(&c.files) };
        let r = catch_unwind(AssertUnwindSafe(|| {
            let ix = build(mode);
            let mut s = format!("M {} {}", ix.total_size(true), ix.total_size(false));
            for (is_tree, id) in &c.queries {
                s += &format!(" {} {}", u8::from(ix.has(*is_tree, *id)), ans(&ix.get_id(*is_tree, *id)));
            }
            // the same questions through GlobalIndex and its typed wrappers must give the same answers
            {
                let g = build(mode).into_global();
                for (is_tree, id) in &c.queries {
                    assert_eq!(g.has(*is_tree, *id), ix.has(*is_tree, *id), "GlobalIndex::has differs");
                    assert_eq!(g.get_id(*is_tree, *id).is_some(), ix.get_id(*is_tree, *id).is_some(), "GlobalIndex::get_id differs");
                    if *is_tree {
                        assert_eq!(g.has_tree(*id), g.has(true, *id), "has_tree differs");
                        assert_eq!(g.get_tree(*id), g.get_id(true, *id), "get_tree differs");
                    } else {
                        assert_eq!(g.has_data(*id), g.has(false, *id), "has_data differs");
                        assert_eq!(g.get_data(*id), g.get_id(false, *id), "get_data differs");
                    }
                }
                assert_eq!(g.total_size(true), ix.total_size(true));
                assert_eq!(g.total_size(false), ix.total_size(false));
            }
            let packs: Vec<String> = ix.into_packs().iter().map(pack_str).collect();
            s += " I";
            for p in packs {
                s += " ";
                s += &p;
            }
            s
        }));
        out.push(r.unwrap_or_else(|_| "M panic".to_string()));
    }
    out.join(" ")
}

fn main() {
    let mode = std::env::args().nth(2).unwrap_or_else(|| "direct".into());
    if mode == "e2e" {
        for_each_case(e2e::e2e_case);
    } else if mode == "prune" {
        for_each_case(e2e::prune_case);
    } else {
        for_each_case(direct_case);
    }
}

mod e2e {
    use super::*;
    use bytes::Bytes;
    use rustic_core::{BytesList, ConfigOptions, ErrorKind, FileType, ReadBackend, RusticError, RusticResult, WriteBackend};
    use rustic_testing::backend::in_memory_backend::InMemoryBackend;
    use std::sync::Arc;
    use verif_harness::e2e::{FaultPlan, OpKind, RecBackend, init_repo, mem, open_repo, repo_opts};

    /// The in-memory store, except that partial reads of pack files fail cleanly (the crafted index
    /// files name packs that do not exist; InMemoryBackend would panic on them).
    #[derive(Debug)]
    /// Second field: countdown for a read fault - the read_full of an index file that finds it at 0 fails
    /// (once); negative = no fault.
    struct NoPacks(Arc<InMemoryBackend>, Arc<std::sync::atomic::AtomicI64>);
    fn no_fault() -> Arc<std::sync::atomic::AtomicI64> {
        Arc::new(std::sync::atomic::AtomicI64::new(-1))
    }
    impl ReadBackend for NoPacks {
        fn location(&self) -> String {
            self.0.location()
        }
        fn list_with_size(&self, tpe: FileType) -> RusticResult<Vec<(Id, u32)>> {
            self.0.list_with_size(tpe)
        }
        fn read_full(&self, tpe: FileType, id: &Id) -> RusticResult<Bytes> {
            if tpe == FileType::Index && self.1.load(std::sync::atomic::Ordering::SeqCst) >= 0
                && self.1.fetch_sub(1, std::sync::atomic::Ordering::SeqCst) == 0
            {
                return Err(RusticError::new(ErrorKind::Backend, "injected read fault"));
            }
            self.0.read_full(tpe, id)
        }
        fn read_partial(&self, tpe: FileType, id: &Id, cacheable: bool, offset: u32, length: u32) -> RusticResult<Bytes> {
            if tpe == FileType::Pack {
                return Err(RusticError::new(ErrorKind::Backend, "no such pack"));
            }
            self.0.read_partial(tpe, id, cacheable, offset, length)
        }
        fn warmup_path(&self, tpe: FileType, id: &Id) -> String {
            self.0.warmup_path(tpe, id)
        }
        fn needs_warm_up(&self) -> bool {
            self.0.needs_warm_up()
        }
        fn warm_up(&self, tpe: FileType, id: &Id) -> RusticResult<()> {
            self.0.warm_up(tpe, id)
        }
    }
    impl WriteBackend for NoPacks {
        fn create(&self) -> RusticResult<()> {
            self.0.create()
        }
        fn write_bytes(&self, tpe: FileType, id: &Id, cacheable: bool, content: BytesList) -> RusticResult<()> {
            self.0.write_bytes(tpe, id, cacheable, content)
        }
        fn remove(&self, tpe: FileType, id: &Id, cacheable: bool) -> RusticResult<()> {
            self.0.remove(tpe, id, cacheable)
        }
    }

    /// Per query `h g r`: r = the partial read `blob_from_backend` issued (`c:pack:off:len`),
    /// `-` when it issued none (then the error must be "not found in index"), `?...` otherwise.
    pub fn e2e_case(line: &str) -> String {
        let mut c = parse(line);
        let fault = no_fault();
        let rec = RecBackend::new(Arc::new(NoPacks(mem(), fault.clone())), "c17");
        let ropts = repo_opts();
        let (repo, key) = init_repo(rec.clone(), None, &ConfigOptions::default(), &ropts).expect("init");
        // `supersedes` is informational ("not actively used"): the model has no such field, so every
        // index file that is present counts whatever other files say about it.  Derived from the case
        // alone (replayable): every second file names its predecessor (still present) and an id that
        // does not exist, as an old restic or an interrupted index rewrite would leave behind.
        let mut saved: Vec<Id> = Vec::new();
        for (i, f) in c.files.iter_mut().enumerate() {
            if i % 2 == 1 {
                f.supersedes = Some(vec![IndexId::from(saved[i - 1]), IndexId::from(mkid(0xdead, i as u64))]);
            }
            saved.push(hook::save_index_file(&repo, f).expect("save index file"));
        }
        drop(repo);
        rec.set_plan(FaultPlan { record_reads: true, ..Default::default() });
        let mut out = Vec::new();
        macro_rules! block {
            ($repo:expr) => {{
                let r = catch_unwind(AssertUnwindSafe(|| {
                    let repo = $repo;
                    let mut s = format!("M {} {}", hook::repo_total_size(&repo, true), hook::repo_total_size(&repo, false));
                    for (is_tree, id) in &c.queries {
                        let h = hook::repo_has(&repo, *is_tree, *id);
                        let g = hook::repo_get_id(&repo, *is_tree, *id);
                        let _ = rec.take_log();
                        let res = hook::repo_blob_from_backend(&repo, *is_tree, *id);
                        let reads: Vec<_> = rec.take_log().into_iter().filter(|o| o.kind != OpKind::List).collect();
                        let r = match (&res, reads.as_slice()) {
                            (Err(e), []) if e.contains("not found in index") => "-".to_string(),
                            (Err(_), [o]) if o.kind == OpKind::ReadPartial && o.tpe == FileType::Pack =>
                                format!("{}:{}:{}:{}", u8::from(o.cacheable), idstr(&o.id), o.offset, o.len),
                            _ => format!("?{}reads,{}", reads.len(), if res.is_ok() { "ok" } else { "err" }),
                        };
                        s += &format!(" {} {} {}", u8::from(h), ans(&g), r);
                    }
                    s
                }));
                out.push(r.unwrap_or_else(|_| "M panic".to_string()));
            }};
        }
        block!(open_repo(rec.clone(), None, &key, &ropts).unwrap().to_indexed().unwrap());
        block!(open_repo(rec.clone(), None, &key, &ropts).unwrap().to_indexed_ids().unwrap());
        // One read of an index file fails while the index is loaded: either no index is built, or
        // the one that is built answers as the fault-free one does (a loader that skips the file and
        // carries on answers from a partial index).
        let f = if saved.is_empty() {
            "none"
        } else {
            fault.store((c.queries.len() % saved.len()) as i64, std::sync::atomic::Ordering::SeqCst);
            let r = match open_repo(rec.clone(), None, &key, &ropts).unwrap().to_indexed() {
                Err(_) => "err",
                Ok(repo) => {
                    block!(repo);
                    if out.pop().unwrap() == out[0] { "same" } else { "differs" }
                }
            };
            fault.store(-1, std::sync::atomic::Ordering::SeqCst);
            r
        };
        format!("{} | F {}", out.join(" "), f)
    }

    /// The index `prune` builds for itself, observed through the real `Repository::prune_plan`:
    /// for each of the first 8 tree queries a snapshot with that root tree is stored, prune_plan is
    /// run (it must look the tree up in its own index and read it), and the partial pack read it
    /// issued is reported: `id=c:pack:off:len`, or `id=-` when it failed with "not found in index"
    /// without reading.  The packs do not exist, so prune_plan always ends with an error.
    pub fn prune_case(line: &str) -> String {
        use rustic_core::{PruneOptions, TreeId, repofile::SnapshotFile};
        let c = parse(line);
        let rec = RecBackend::new(Arc::new(NoPacks(mem(), no_fault())), "c17p");
        let ropts = repo_opts();
        let (repo, _key) = init_repo(rec.clone(), None, &ConfigOptions::default(), &ropts).expect("init");
        for f in &c.files {
            hook::save_index_file(&repo, f).expect("save index file");
        }
        rec.set_plan(FaultPlan { record_reads: true, ..Default::default() });
        let mut out = vec!["P".to_string()];
        for (_, id) in c.queries.iter().filter(|q| q.0).take(8) {
            let snap = SnapshotFile { tree: TreeId::from(*id), ..Default::default() };
            repo.save_snapshots(vec![snap]).expect("save snapshot");
            let _ = rec.take_log();
            let res = catch_unwind(AssertUnwindSafe(|| repo.prune_plan(&PruneOptions::default()).map(|_| ()).map_err(|e| format!("{e:?}"))));
            let reads: Vec<_> = rec.take_log().into_iter().filter(|o| o.kind == OpKind::ReadPartial).collect();
            let r = match (&res, reads.as_slice()) {
                (Ok(Err(e)), []) if e.contains("not found in index") => "-".to_string(),
                (Ok(Err(_)), [o]) if o.tpe == FileType::Pack => format!("{}:{}:{}:{}", u8::from(o.cacheable), idstr(&o.id), o.offset, o.len),
                (Err(_), _) => "panic".to_string(),
                _ => format!("?{}reads,{}", reads.len(), if matches!(res, Ok(Ok(()))) { "ok" } else { "err" }),
            };
            out.push(format!("{}={}", idstr(id), r));
            for (sid, _) in rec.list_with_size(FileType::Snapshot).expect("list") {
                rec.remove(FileType::Snapshot, &sid, false).expect("remove snapshot");
            }
        }
        out.join(" ")
    }
}
