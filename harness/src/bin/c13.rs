//! C13: the same backup under different schedules (seeded delays at backend calls,
//! different pack sizes) must give the same tree id and referenced blob set, terminate,
//! and leave every written pack indexed.  Case line:
//!   <seed> <nsched> <max_entries> <max_file>
//! Output: one line, fields separated by " | ":
//!   ok tree=<hex> nref=<n> | s<j> tree=<hex> refs=<hash> nref=<n> clean=<0/1> packs_unindexed=<n>
//!      missing_refs=<n> ms=<millis> P <t> <n> id.. P ...   (ids = dense numbers, order = write order)
use std::collections::{BTreeMap, BTreeSet};
use std::sync::Arc;
use std::time::{Duration, Instant};

use rustic_core::repofile::{IndexFile, SnapshotFile};
use rustic_core::{BlobId, ConfigOptions, DataId, FileType, Id, LsOptions, ReadBackend, TreeId, WriteBackend};
use rustic_testing::backend::in_memory_backend::InMemoryBackend;
use sha2::{Digest, Sha256};
use verif_harness::e2e::*;
use verif_harness::*;

struct RunOut {
    tree: String,
    refs: BTreeSet<(u8, String)>,
    clean: bool,
    packs_unindexed: usize,
    missing_refs: usize,
    ms: u128,
    packs: Vec<(u8, Vec<String>)>,
}

fn one_run(store0: &InMemoryBackend, key: &rustic_core::repofile::MasterKey, src: &std::path::Path, j: u64, seed: u64) -> anyhow::Result<RunOut> {
    let store = Arc::new(store0.clone());
    let rec = RecBackend::new(store.clone(), "s");
    // pack sizes: from one blob per pack upward
    let sizes = [1u32, 3_000, 20_000, 200_000, 4_000_000];
    let dp = if j >= 1000 { 1 } else { sizes[(j % 5) as usize] };
    let tp = if j >= 1000 { 1 } else { sizes[((j / 5 + j) % 5) as usize] };
    let mut repo = open_repo(rec.clone(), None, key, &repo_opts())?;
    let _ = repo.apply_config(&small_pack_config(dp, tp))?;
    // seeded delays before every mutating backend call
    let st = Arc::new(std::sync::Mutex::new(SplitMix(seed ^ (j.wrapping_mul(0x9E37)))));
    let st2 = st.clone();
    let delay = j % 3 != 0;
    // schedule >= 1000: one data-pack write (the 3rd one) stalls for 21 s (a slow upload);
    // pack size: one blob per pack, so that many packs queue up behind it
    let stall = j >= 1000;
    let cnt = Arc::new(std::sync::atomic::AtomicUsize::new(0));
    rec.set_before(Some(Arc::new(move |op| {
        if stall {
            // the stalled call is a data-pack write: only the data packer has enough blobs queued
            // behind it to fill the whole pipeline back to `Packer::add`
            let data_pack = matches!(op.kind, OpKind::Write)
                && op.tpe == FileType::Pack
                && !op.cacheable;
            if data_pack && cnt.fetch_add(1, std::sync::atomic::Ordering::SeqCst) == 2 {
                std::thread::sleep(Duration::from_secs(21));
            }
        } else if delay {
            let us = st2.lock().unwrap().below(400);
            std::thread::sleep(Duration::from_micros(us));
        }
    })));
    let _ = rec.take_log();
    let t0 = Instant::now();
    let (repo, snap) = backup_dir(repo, src, "src", None)?;
    let ms = t0.elapsed().as_millis();
    let log = rec.take_log();
    rec.set_before(None);
    // referenced set
    let repo = repo.to_indexed()?;
    let mut refs: BTreeSet<(u8, String)> = BTreeSet::new();
    let _ = refs.insert((1, snap.tree.to_hex().to_string()));
    let node = repo.node_from_snapshot_path(&snap.id.to_hex(), |_| true)?;
    let mut missing = 0;
    for item in repo.ls(&node, &LsOptions::default())? {
        let (_p, n) = item?;
        if let Some(c) = &n.content {
            for d in c {
                let _ = refs.insert((0, d.to_hex().to_string()));
                if repo.get_index_entry::<DataId>(d).is_err() {
                    missing += 1;
                }
            }
        }
        if let Some(t) = &n.subtree {
            let _ = refs.insert((1, t.to_hex().to_string()));
            if repo.get_index_entry::<TreeId>(t).is_err() {
                missing += 1;
            }
        }
    }
    if repo.get_index_entry::<TreeId>(&snap.tree).is_err() {
        missing += 1;
    }
    // packs in the index
    let mut ipacks: BTreeMap<String, (u8, Vec<String>)> = BTreeMap::new();
    for r in repo.stream_files::<IndexFile>()? {
        let (_id, f) = r?;
        for p in f.packs {
            let t = u8::from(p.blob_type() == rustic_core::repofile::BlobType::Tree);
            let _ = ipacks.insert(p.id.to_hex().to_string(), (t, p.blobs.iter().map(|b| b.id.to_hex().to_string()).collect()));
        }
    }
    let listed: Vec<Id> = store.list(FileType::Pack)?;
    let packs_unindexed = listed.iter().filter(|id| !ipacks.contains_key(id.to_hex().as_str())).count();
    // write order from the log
    let mut packs = Vec::new();
    for op in &log {
        if op.kind == OpKind::Write && op.tpe == FileType::Pack && op.ok {
            if let Some(p) = ipacks.get(op.id.to_hex().as_str()) {
                packs.push(p.clone());
            }
        }
    }
    let repo = repo.drop_index();
    let clean = check_clean(&repo)?;
    Ok(RunOut { tree: snap.tree.to_hex().to_string(), refs, clean, packs_unindexed, missing_refs: missing, ms, packs })
}

/// two backups (the second of a reduced source, so that packs become partly used), forget the first,
/// then prune with repack_all; returns "<clean>:<packs unindexed>:<missing refs>"
fn prune_run(store0: &InMemoryBackend, key: &rustic_core::repofile::MasterKey, src: &std::path::Path, fast: bool) -> anyhow::Result<String> {
    let store = Arc::new(store0.clone());
    let mut repo = open_repo(store.clone(), None, key, &repo_opts())?;
    // data packs of ~50 blobs for the backup, one blob per pack for the repack target
    let _ = repo.apply_config(&small_pack_config(400_000, 3_000))?;
    let (repo, snap1) = backup_dir(repo, src, "src", None)?;
    // second state: drop every second top-level entry
    let src2 = tempfile::tempdir()?;
    let mut k = 0;
    for e in std::fs::read_dir(src)? {
        let e = e?;
        k += 1;
        if (k % 2 == 0 || e.file_name() == "zz_big.bin") && e.file_type()?.is_file() {
            let _ = std::fs::copy(e.path(), src2.path().join(e.file_name()))?;
        }
    }
    let (repo, snap2) = backup_dir(repo, src2.path(), "src", None)?;
    repo.delete_snapshots(&[snap1.id])?;
    // (the in-memory store keeps one config file per content: the repository cannot be re-opened
    // after a config change, so one handle is used throughout)
    let mut repo = repo;
    let _ = repo.apply_config(&small_pack_config(1, 1))?;
    let mut po = rustic_core::PruneOptions::default();
    po.repack_all = true;
    po.fast_repack = fast;
    po.instant_delete = true;
    po.max_unused = rustic_core::LimitOption::Percentage(0);
    let plan = repo.prune_plan(&po)?;
    repo.prune(&po, plan)?;
    let clean = check_clean(&repo)?;
    let repo = repo.to_indexed()?;
    let mut ipacks = BTreeSet::new();
    for r in repo.stream_files::<IndexFile>()? {
        let (_id, f) = r?;
        for p in f.packs {
            let _ = ipacks.insert(p.id.to_hex().to_string());
        }
    }
    let listed: Vec<Id> = store.list(FileType::Pack)?;
    let unidx = listed.iter().filter(|id| !ipacks.contains(id.to_hex().as_str())).count();
    let node = repo.node_from_snapshot_path(&snap2.id.to_hex(), |_| true)?;
    let mut missing = 0;
    for item in repo.ls(&node, &LsOptions::default())? {
        let (_p, n) = item?;
        if let Some(c) = &n.content {
            missing += c.iter().filter(|d| repo.get_index_entry::<DataId>(d).is_err()).count();
        }
        if let Some(t) = &n.subtree {
            missing += usize::from(repo.get_index_entry::<TreeId>(t).is_err());
        }
    }
    Ok(format!("{}:{unidx}:{missing}", u8::from(clean)))
}

/// two backups (full and reduced source), then the parallel tree walker over both snapshot roots;
/// returns "<delivered>:<dups>:<missing>:<order violations> W <nroots> <root>.. <ntrees> {<id> <nch> <ch>..}"
/// (dense ids, delivery order)
fn walk_run(store0: &InMemoryBackend, key: &rustic_core::repofile::MasterKey, src: &std::path::Path) -> anyhow::Result<String> {
    let store = Arc::new(store0.clone());
    let mut repo = open_repo(store.clone(), None, key, &repo_opts())?;
    let _ = repo.apply_config(&small_pack_config(20_000, 3_000))?;
    let (repo, snap1) = backup_dir(repo, src, "src", None)?;
    let src2 = tempfile::tempdir()?;
    let mut k = 0;
    for e in std::fs::read_dir(src)? {
        let e = e?;
        k += 1;
        if k % 2 == 0 && e.file_type()?.is_file() {
            let _ = std::fs::copy(e.path(), src2.path().join(e.file_name()))?;
        }
    }
    let (repo, snap2) = backup_dir(repo, src2.path(), "src", None)?;
    let repo = repo.to_indexed()?;
    let roots = vec![snap1.tree, snap2.tree];
    let got = rustic_core::verif_hooks::c13::tree_streamer_once(&repo, roots.clone())?;
    let mut dense: BTreeMap<String, usize> = BTreeMap::new();
    let mut num = |id: &TreeId| -> usize {
        let n = dense.len();
        *dense.entry(id.to_hex().to_string()).or_insert(n)
    };
    let mut seen: BTreeSet<usize> = BTreeSet::new();
    let mut listed: BTreeSet<usize> = roots.iter().map(|r| num(r)).collect();
    let rootn: Vec<usize> = roots.iter().map(|r| num(r)).collect();
    let (mut dups, mut order_bad) = (0, 0);
    let mut trees = String::new();
    for (_path, id, subs) in &got {
        let n = num(id);
        if !seen.insert(n) {
            dups += 1;
        }
        // a tree is delivered only after a root or an earlier delivered tree named it
        if !listed.contains(&n) {
            order_bad += 1;
        }
        trees.push_str(&format!(" {n} {}", subs.len()));
        for c in subs {
            let cn = num(c);
            let _ = listed.insert(cn);
            trees.push_str(&format!(" {cn}"));
        }
    }
    let missing = listed.iter().filter(|n| !seen.contains(n)).count();
    let mut s = format!("{}:{dups}:{missing}:{order_bad} W {}", got.len(), rootn.len());
    for r in &rootn {
        s.push_str(&format!(" {r}"));
    }
    s.push_str(&format!(" {}{trees}", got.len()));
    Ok(s)
}

fn case(line: &str) -> String {
    let mut t = Toks::new(line);
    let (seed, nsched, max_entries, max_file) = (t.u(), t.u(), t.u() as usize, t.u() as usize);
    let mut r = SplitMix(seed);
    let tp = TreeParams { max_entries, max_depth: 4, max_file, odd_names: false, symlinks: true, hardlinks: false };
    let entries = gen_tree(&mut r, &tp);
    let src = tempfile::tempdir().unwrap();
    materialize(src.path(), &entries).unwrap();
    let extra = t.opt_s().map_or(0, |x| x.parse::<u64>().unwrap_or(0));
    if extra & 2 == 2 {
        // the prune stage needs one pack with a long run of still-needed blobs (a repack that
        // flushes many one-blob packs from a single coalesced read): a 300 KB incompressible
        // top-level file, about 37 blobs, which the reduced source keeps
        let mut buf = vec![0u8; 300_000];
        for c in buf.chunks_mut(8) {
            let v = r.next().to_le_bytes();
            c.copy_from_slice(&v[..c.len()]);
        }
        std::fs::write(src.path().join("zz_big.bin"), &buf).unwrap();
    }
    let wide = t.opt_s().map_or(0, |x| x.parse::<usize>().unwrap_or(0));
    if extra & 4 == 4 && wide > 0 {
        // the tree walker (TreeStreamerOnce: prune, check) gets one directory with `wide` differing
        // sub-directories: far more pending tree ids at once than any small bound on its queues
        let w = src.path().join("zz_wide");
        for i in 0..wide {
            let d = w.join(format!("d{i:05}"));
            std::fs::create_dir_all(&d).unwrap();
            std::fs::write(d.join("f"), format!("{i}")).unwrap();
        }
    }
    if extra & 1 == 1 {
        // the stall schedule needs far more data blobs than the whole pipeline can hold
        // (writer queue, pack stages, the parallel compress/encrypt buffers): 12 x 400 KB of
        // incompressible content, about 600 blobs at 8 KiB average
        let bulk = src.path().join("zz_bulk");
        std::fs::create_dir_all(&bulk).unwrap();
        for i in 0..12 {
            let mut buf = vec![0u8; 400_000];
            for c in buf.chunks_mut(8) {
                let v = r.next().to_le_bytes();
                c.copy_from_slice(&v[..c.len()]);
            }
            std::fs::write(bulk.join(format!("f{i}")), &buf).unwrap();
        }
    }
    let store0 = InMemoryBackend::new();
    let cfg = ConfigOptions::default()
        .set_chunk_size(bytesize::ByteSize(8192))
        .set_chunk_min_size(bytesize::ByteSize(4096))
        .set_chunk_max_size(bytesize::ByteSize(65536));
    let (repo0, key) = match init_repo(Arc::new(store0.clone()), None, &cfg, &repo_opts()) {
        Ok(x) => x,
        Err(e) => return format!("err init {e}"),
    };
    drop(repo0);
    // init wrote into a clone: redo on a store we keep
    let store0 = {
        let s = Arc::new(InMemoryBackend::new());
        let bes = rustic_core::RepositoryBackends::new(s.clone(), None);
        let repo = rustic_core::Repository::new(&repo_opts(), &bes).unwrap();
        let _ = repo
            .init(&rustic_core::Credentials::Masterkey(key.clone()), &rustic_core::KeyOptions::default(), &cfg)
            .unwrap();
        (*s).clone()
    };
    let mut outs = Vec::new();
    let mut dense: BTreeMap<String, usize> = BTreeMap::new();
    let mut scheds: Vec<u64> = (0..nsched).collect();
    if extra & 1 == 1 {
        scheds.push(1000);
    }
    for j in scheds {
        // watchdog: the run happens in a thread; a hang is reported instead of blocking the harness
        let (tx, rx) = std::sync::mpsc::channel();
        let (s0, k, p) = (store0.clone(), key.clone(), src.path().to_path_buf());
        let _h = std::thread::spawn(move || {
            let r = std::panic::catch_unwind(std::panic::AssertUnwindSafe(|| one_run(&s0, &k, &p, j, seed)));
            let _ = tx.send(r);
        });
        match rx.recv_timeout(Duration::from_secs(120)) {
            Err(_) => return format!("hang schedule={j}"),
            Ok(Err(_)) => return format!("panic schedule={j}"),
            Ok(Ok(Err(e))) => return format!("err schedule={j} {}", e.to_string().replace('\n', " ")),
            Ok(Ok(Ok(o))) => outs.push(o),
        }
    }
    for o in &outs {
        for (_, id) in &o.refs {
            let n = dense.len();
            let _ = dense.entry(id.clone()).or_insert(n + 1);
        }
        for (_, ids) in &o.packs {
            for id in ids {
                let n = dense.len();
                let _ = dense.entry(id.clone()).or_insert(n + 1);
            }
        }
    }
    // prune with repacking under the watchdog (fast and re-encoding repack, one blob per pack)
    let mut prune_note = String::new();
    if extra & 2 == 2 {
        for fast in [true, false] {
            let (tx, rx) = std::sync::mpsc::channel();
            let (s0, k, p) = (store0.clone(), key.clone(), src.path().to_path_buf());
            let _h = std::thread::spawn(move || {
                let r = std::panic::catch_unwind(std::panic::AssertUnwindSafe(|| prune_run(&s0, &k, &p, fast)));
                let _ = tx.send(r);
            });
            match rx.recv_timeout(Duration::from_secs(120)) {
                Err(_) => return format!("hang prune fast_repack={fast}"),
                Ok(Err(_)) => return format!("panic prune fast_repack={fast}"),
                Ok(Ok(Err(e))) => return format!("err prune fast_repack={fast} {}", e.to_string().replace('\n', " ")),
                Ok(Ok(Ok(note))) => prune_note.push_str(&format!(" prune{}={note}", u8::from(fast))),
            }
        }
    }
    let mut walk_note = String::new();
    if extra & 4 == 4 {
        let (tx, rx) = std::sync::mpsc::channel();
        let (s0, k, p) = (store0.clone(), key.clone(), src.path().to_path_buf());
        let _h = std::thread::spawn(move || {
            let r = std::panic::catch_unwind(std::panic::AssertUnwindSafe(|| walk_run(&s0, &k, &p)));
            let _ = tx.send(r);
        });
        match rx.recv_timeout(Duration::from_secs(120)) {
            Err(_) => return "hang tree walker (TreeStreamerOnce over both snapshot roots)".to_string(),
            Ok(Err(_)) => return "panic tree walker".to_string(),
            Ok(Ok(Err(e))) => return format!("err tree walker {}", e.to_string().replace('\n', " ")),
            Ok(Ok(Ok(note))) => walk_note = format!(" walk={note} ;"),
        }
    }
    let mut s = format!("ok tree={} nref={}{prune_note}{walk_note}", &outs[0].tree[..16], outs[0].refs.len());
    for (j, o) in outs.iter().enumerate() {
        let mut h = Sha256::new();
        for (t, id) in &o.refs {
            h.update([*t]);
            h.update(id.as_bytes());
        }
        let hh = hex::encode(h.finalize());
        s.push_str(&format!(
            " | s{j} tree={} refs={} nref={} clean={} packs_unindexed={} missing_refs={} ms={}",
            &o.tree[..16], &hh[..16], o.refs.len(), u8::from(o.clean), o.packs_unindexed, o.missing_refs, o.ms
        ));
        for (t, ids) in &o.packs {
            s.push_str(&format!(" P {t} {}", ids.len()));
            for id in ids {
                s.push_str(&format!(" {}", dense[id]));
            }
        }
    }
    s
}

fn main() {
    for_each_case(case);
}
