//! C09 correspondence: run the real `KeepOptions::apply` (public API) on generated
//! cases.  Sub-command `cal`: civil fields and span addition of jiff for the
//! calendar validation.  Sub-command `forget`: the command level — `Grouped::from_items`,
//! `ForgetGroups::from_grouped_snapshots_with_retention`, `ForgetGroups::from_snapshots`,
//! `ForgetGroups::into_forget_ids` (all public API).
use rustic_core::jiff::{Span, Timestamp, Zoned, tz::{Offset, TimeZone}};
use rustic_core::repofile::{DeleteOption, SnapshotFile, StringList};
use rustic_core::{ForgetGroups, ForgetSnapshot, Group, Grouped, KeepOptions, SnapshotGroup, SnapshotGroupCriterion};
use std::str::FromStr;
use verif_harness::*;

fn zoned(secs: i64, off: i64) -> Zoned {
    let tz = TimeZone::fixed(Offset::from_seconds(off as i32).unwrap());
    Timestamp::from_second(secs).unwrap().to_zoned(tz)
}

fn span(t: &mut Toks) -> Span {
    let (y, mo, w, d, h, mi, s) = (t.i(), t.i(), t.i(), t.i(), t.i(), t.i(), t.i());
    // a jiff span has one sign for all units: the generator gives units of one sign only
    let neg = [y, mo, w, d, h, mi, s].iter().any(|x| *x < 0);
    let sp = Span::new().years(y.abs()).months(mo.abs()).weeks(w.abs()).days(d.abs()).hours(h.abs()).minutes(mi.abs()).seconds(s.abs());
    if neg { sp.negate() } else { sp }
}

fn taglist(t: &mut Toks) -> StringList {
    let k = t.u();
    let v: Vec<String> = (0..k).map(|_| format!("t{}", t.u())).collect();
    if v.is_empty() {
        StringList::default()
    } else {
        StringList::from_str(&v.join(",")).unwrap()
    }
}

/// `now 0 <9 counts> <9 spans> keep_none delete_unchanged <tag lists> <id prefixes>`
fn keep_options(t: &mut Toks) -> (Zoned, KeepOptions) {
    let now = zoned(t.i(), t.i());
    let mut k = KeepOptions::default();
    let mut cnt = [None; 9];
    for c in cnt.iter_mut() {
        if t.u() == 1 {
            *c = Some(t.i() as i32);
        }
    }
    k.keep_last = cnt[0];
    k.keep_minutely = cnt[1];
    k.keep_hourly = cnt[2];
    k.keep_daily = cnt[3];
    k.keep_weekly = cnt[4];
    k.keep_monthly = cnt[5];
    k.keep_quarter_yearly = cnt[6];
    k.keep_half_yearly = cnt[7];
    k.keep_yearly = cnt[8];
    let mut w = [None; 9];
    for x in w.iter_mut() {
        if t.u() == 1 {
            *x = Some(span(t));
        }
    }
    k.keep_within = w[0];
    k.keep_within_minutely = w[1];
    k.keep_within_hourly = w[2];
    k.keep_within_daily = w[3];
    k.keep_within_weekly = w[4];
    k.keep_within_monthly = w[5];
    k.keep_within_quarter_yearly = w[6];
    k.keep_within_half_yearly = w[7];
    k.keep_within_yearly = w[8];
    k.keep_none = t.u() == 1;
    k.delete_unchanged = t.u() == 1;
    let ntl = t.u();
    k.keep_tags = (0..ntl).map(|_| taglist(t)).collect();
    let nids = t.u();
    k.keep_ids = (0..nids)
        .map(|_| {
            let n = t.u();
            (0..n)
                .map(|_| {
                    let c = t.u();
                    if c < 16 { char::from_digit(c as u32, 16).unwrap() } else { 'z' }
                })
                .collect::<String>()
        })
        .collect();
    (now, k)
}

// strings of the group key fields; number -> string keeps the order (0 = the empty string)
fn host_str(n: u64) -> String {
    if n == 0 { String::new() } else { format!("h{n:02}") }
}
fn label_str(n: u64) -> String {
    if n == 0 { String::new() } else { format!("l{n:02}") }
}
fn path_str(n: u64) -> String {
    if n == 0 { String::new() } else { format!("/p{n}") }
}

/// `ns` then per snapshot `inst off id <tags> del tree`, and with `ext`: `host label <paths>`
fn snapshots(t: &mut Toks, ext: bool) -> Vec<SnapshotFile> {
    let ns = t.u();
    let mut snaps = Vec::new();
    for _ in 0..ns {
        let mut sn = SnapshotFile::default();
        sn.time = zoned(t.i(), t.i());
        sn.id = id_from_u16(t.u() as u16).into();
        sn.tags = taglist(t);
        sn.delete = match t.u() {
            0 => DeleteOption::NotSet,
            1 => DeleteOption::Never,
            _ => DeleteOption::After(zoned(t.i(), 0)),
        };
        sn.tree = id_from_u64(t.u()).into();
        if ext {
            sn.hostname = host_str(t.u());
            sn.label = label_str(t.u());
            let k = t.u();
            let v: Vec<String> = (0..k).map(|_| path_str(t.u())).collect();
            sn.paths = if v.is_empty() { StringList::default() } else { StringList::from_str(&v.join(",")).unwrap() };
        }
        snaps.push(sn);
    }
    snaps
}

fn apply_case(line: &str) -> String {
    let mut t = Toks::new(line);
    let (now, k) = keep_options(&mut t);
    let snaps = snapshots(&mut t, false);
    match k.apply(snaps, &now) {
        Err(_) => "err".to_string(),
        Ok(res) => {
            let mut s = String::from("ok");
            for fs in res {
                s.push_str(&format!(
                    " {}:{}:{}",
                    id_to_u16(&fs.snapshot.id),
                    u8::from(fs.keep),
                    fs.reasons.join("+").replace(' ', "_")
                ));
            }
            s
        }
    }
}

fn key_str(g: &SnapshotGroup) -> String {
    let o = |x: &Option<String>| x.as_ref().map_or("-".to_string(), |s| format!("[{s}]"));
    let l = |x: &Option<StringList>| {
        x.as_ref().map_or("-".to_string(), |s| format!("[{}:{}]", s.iter().count(), s))
    };
    format!("h={},l={},p={},t={}", o(&g.hostname), o(&g.label), l(&g.paths), l(&g.tags))
}

fn groups_str(gs: &[Group<ForgetSnapshot>]) -> String {
    gs.iter()
        .map(|g| {
            let mut s = key_str(&g.group_key);
            for fs in &g.items {
                s.push_str(&format!(
                    " {}:{}:{}",
                    id_to_u16(&fs.snapshot.id),
                    u8::from(fs.keep),
                    fs.reasons.join("+").replace(' ', "_")
                ));
            }
            s
        })
        .collect::<Vec<_>>()
        .join(" ; ")
}

fn ids_str(ids: &[rustic_core::repofile::SnapshotId]) -> String {
    ids.iter().map(|i| id_to_u16(i).to_string()).collect::<Vec<_>>().join(",")
}

/// `forget`: `<4 criterion flags> <keep options> <snapshots with host label paths>` ->
/// `ok <groups> | ids=.. | fs=<group> | fsids=..` (groups: `key id:keep:reasons ...` joined by ` ; `)
fn forget_case(line: &str) -> String {
    let mut t = Toks::new(line);
    let mut crit = SnapshotGroupCriterion::new();
    crit.hostname = t.u() == 1;
    crit.label = t.u() == 1;
    crit.paths = t.u() == 1;
    crit.tags = t.u() == 1;
    let (now, k) = keep_options(&mut t);
    let snaps = snapshots(&mut t, true);
    let fs = ForgetGroups::from_snapshots(snaps.clone(), &now);
    let fs_groups = groups_str(&fs.0);
    let fs_ids = ids_str(&fs.into_forget_ids());
    let grouped = Grouped::from_items(snaps, crit);
    let main = match ForgetGroups::from_grouped_snapshots_with_retention(grouped, &k, &now) {
        Err(_) => "err".to_string(),
        Ok(fg) => {
            let g = groups_str(&fg.0);
            format!("ok {} | ids={}", g, ids_str(&fg.into_forget_ids()))
        }
    };
    format!("{main} | fs={fs_groups} | fsids={fs_ids}")
}

/// `cal <secs> <off> y mo w d h mi s` -> civil fields and timestamp after adding the span
fn cal_case(line: &str) -> String {
    let mut t = Toks::new(line);
    let z = zoned(t.i(), t.i());
    let sp = span(&mut t);
    let added = z.saturating_add(sp).timestamp().as_second();
    format!(
        "{} {} {} {} {} {} {} {}",
        z.year(),
        z.month(),
        z.day_of_year(),
        z.hour(),
        z.minute(),
        z.clone().iso_week_date().year(),
        z.clone().iso_week_date().week(),
        added
    )
}

fn main() {
    let mode = std::env::args().nth(2).unwrap_or_else(|| "apply".into());
    if mode == "cal" {
        for_each_case(cal_case);
    } else if mode == "forget" {
        for_each_case(forget_case);
    } else {
        for_each_case(apply_case);
    }
}
