//! C20 correspondence: drive the REAL `LocalBackend` (temp dir) and `OpenDALBackend`
//! (`fs` service on a temp dir, `memory` service) with an operation sequence and print
//! one canonical result per operation.  Same case lines as props/C20/driver.ml.
//!
//! case  := be create nstray { relpath len seed }* nops { op }*
//! be    := 0 local | 1 opendal fs | 2 opendal memory
//! op    := W t id len seed chunking |   (chunking: see `blist`; empty chunks at any position)
//!           R t id | P t id off len | L t | S t | D t id
//!        | H t id len seed nchunks      (write; at the pre-publish hook list everything)
//!        | C t id len seed nchunks      (write; "crash" at the pre-publish hook, re-open)
//! t     := 0 Config | 1 Index | 2 Key | 3 Snapshot | 4 Pack ; id := 64 hex digits
use bytes::Bytes;
use rustic_backend::{LocalBackend, OpenDALBackend};
use rustic_core::{BytesList, FileType, Id, ReadBackend, WriteBackend};
use std::cell::RefCell;
use std::collections::BTreeMap;
use std::panic::{catch_unwind, AssertUnwindSafe};
use std::rc::Rc;
use std::sync::Arc;
use verif_harness::*;

const TYPES: [FileType; 5] = [FileType::Config, FileType::Index, FileType::Key, FileType::Snapshot, FileType::Pack];

/// Deterministic content, identical to `content` in props/C20/driver.ml.
fn content(seed: u64, len: usize) -> Vec<u8> {
    let s = seed & 0xFFFF;
    if s == 0 {
        return vec![0u8; len];
    }
    (0..len as u64)
        .map(|k| ((((k % 65521) * (2 * s + 1) + s * 7 + (k / 65521) * 131) >> 3) & 255) as u8)
        .collect()
}

fn digest(b: &[u8]) -> String {
    let (mut h1, mut h2) = (7u64, 11u64);
    for &x in b {
        h1 = (h1 * 257 + x as u64 + 1) % 2147483629;
        h2 = (h2 * 263 + x as u64 + 1) % 2147483587;
    }
    format!("ok:{}:{}:{}", b.len(), h1, h2)
}

/// `code` = k + 16 * pat: the data is split evenly into k chunks (k = 0: no data chunk);
/// pat = sum e_j * 4^j (j = 0..=k) inserts e_j (0..=3) EMPTY chunks in front of data chunk j
/// (j = k: behind the last one).  Empty chunks carry no bytes: the content is unchanged.
fn blist(data: &[u8], code: usize) -> BytesList {
    let nchunks = code % 16;
    let mut pat = code / 16;
    let mut bl = BytesList::default();
    let n = data.len();
    for c in 0..=nchunks {
        for _ in 0..(pat % 4) {
            bl.add(Bytes::new());
        }
        pat /= 4;
        if c < nchunks {
            let a = n * c / nchunks;
            let b = n * (c + 1) / nchunks;
            bl.add(Bytes::copy_from_slice(&data[a..b]));
        }
    }
    bl
}

fn fmt_list(r: Result<Vec<Id>, impl std::fmt::Debug>) -> String {
    match r {
        Err(_) => "err".into(),
        Ok(v) => {
            let mut s: Vec<String> = v.iter().map(|i| i.to_hex().to_string()).collect();
            s.sort();
            format!("ok:{}", s.join(","))
        }
    }
}
fn fmt_sizes(r: Result<Vec<(Id, u32)>, impl std::fmt::Debug>) -> String {
    match r {
        Err(_) => "err".into(),
        Ok(v) => {
            let mut s: Vec<String> = v.iter().map(|(i, n)| format!("{}={}", i.to_hex().as_str(), n)).collect();
            s.sort();
            format!("ok:{}", s.join(","))
        }
    }
}

fn guarded(f: impl FnOnce() -> String) -> String {
    catch_unwind(AssertUnwindSafe(f)).unwrap_or_else(|_| "panic".to_string())
}

struct Crash;

fn open(be: u64, dir: &std::path::Path) -> Arc<dyn WriteBackend> {
    match be {
        0 => Arc::new(LocalBackend::new(dir.to_str().unwrap(), Vec::<(String, String)>::new()).unwrap()),
        1 => {
            let mut o = BTreeMap::new();
            o.insert("root".to_string(), dir.to_str().unwrap().to_string());
            o.insert("retry".to_string(), "false".to_string());
            Arc::new(OpenDALBackend::new("fs", o).unwrap())
        }
        _ => {
            let mut o = BTreeMap::new();
            o.insert("retry".to_string(), "false".to_string());
            Arc::new(OpenDALBackend::new("memory", o).unwrap())
        }
    }
}

fn observe_all(b: &dyn WriteBackend, tpe: FileType, id: &Id) -> String {
    let mut parts = Vec::new();
    for t in TYPES {
        parts.push(guarded(|| fmt_list(b.list(t))));
        parts.push(guarded(|| fmt_sizes(b.list_with_size(t))));
    }
    parts.push(guarded(|| match b.read_full(tpe, id) {
        Ok(x) => digest(&x),
        Err(_) => "err".into(),
    }));
    parts.join("/")
}

fn run_case(line: &str) -> String {
    let mut t = Toks::new(line);
    let be = t.u();
    let create = t.u() == 1;
    let tmp = tempfile::tempdir().expect("tempdir");
    let dir = tmp.path().join("repo");
    if be != 2 {
        // the local backend is handed an existing or a missing directory; opendal fs creates its root
        if create || be == 1 {
            std::fs::create_dir_all(&dir).unwrap();
        }
    }
    let mut b = open(be, &dir);
    if create {
        b.create().expect("create");
    }
    let nstray = t.u();
    for _ in 0..nstray {
        let rel = t.s();
        let len = t.u() as usize;
        let seed = t.u();
        if be != 2 {
            let p = dir.join(rel);
            std::fs::create_dir_all(p.parent().unwrap()).unwrap();
            std::fs::write(&p, content(seed, len)).unwrap();
        }
    }
    let nops = t.u();
    let mut out: Vec<String> = Vec::with_capacity(nops as usize);
    for _ in 0..nops {
        let op = t.s();
        let tpe = TYPES[t.u() as usize];
        let r = match op {
            "L" => guarded(|| fmt_list(b.list(tpe))),
            "S" => guarded(|| fmt_sizes(b.list_with_size(tpe))),
            _ => {
                let id: Id = t.s().parse().expect("id");
                match op {
                    "R" => guarded(|| match b.read_full(tpe, &id) {
                        Ok(x) => digest(&x),
                        Err(_) => "err".into(),
                    }),
                    "P" => {
                        let off = t.u() as u32;
                        let len = t.u() as u32;
                        guarded(|| match b.read_partial(tpe, &id, false, off, len) {
                            Ok(x) => digest(&x),
                            Err(_) => "err".into(),
                        })
                    }
                    "D" => guarded(|| match b.remove(tpe, &id, false) {
                        Ok(()) => "ok".into(),
                        Err(_) => "err".into(),
                    }),
                    "W" | "H" | "C" => {
                        let len = t.u() as usize;
                        let seed = t.u();
                        let nch = t.u() as usize;
                        let data = content(seed, len);
                        let obs: Rc<RefCell<String>> = Rc::new(RefCell::new(String::new()));
                        if be == 0 && op != "W" {
                            let b2 = open(be, &dir);
                            let obs2 = obs.clone();
                            let crash = op == "C";
                            rustic_backend::local::verif_hook::set_pre_publish(Some(Box::new(move |tmpf, _dst| {
                                let tmp_len = std::fs::metadata(tmpf).map(|m| m.len().to_string()).unwrap_or_else(|_| "none".into());
                                *obs2.borrow_mut() = format!("H[{}/tmp={}]", observe_all(&*b2, tpe, &id), tmp_len);
                                if crash {
                                    std::panic::panic_any(Crash);
                                }
                            })));
                        }
                        let res = catch_unwind(AssertUnwindSafe(|| match b.write_bytes(tpe, &id, false, blist(&data, nch)) {
                            Ok(()) => "ok".to_string(),
                            Err(_) => "err".to_string(),
                        }));
                        if be == 0 {
                            rustic_backend::local::verif_hook::set_pre_publish(None);
                        }
                        let res = match res {
                            Ok(s) => s,
                            Err(e) => {
                                if e.is::<Crash>() {
                                    // the process "died" between sync and rename: re-open the directory
                                    b = open(be, &dir);
                                    "crash".to_string()
                                } else {
                                    "panic".to_string()
                                }
                            }
                        };
                        let o = obs.borrow().clone();
                        if o.is_empty() { res } else { format!("{o}{res}") }
                    }
                    _ => panic!("bad op {op}"),
                }
            }
        };
        out.push(r);
    }
    out.join(" | ")
}

fn main() {
    for_each_case(|l| run_case(l));
}
