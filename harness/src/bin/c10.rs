//! C10 — backups concurrent with prune or each other: gated real runs.
//!
//! Case line: `<seed> <scenario> <k> <j> <kd_ms> <variant>`
//!   scenario 0: A = backup, B = prune       (backup || prune)
//!            1: A = prune,  B = backup      (prune || backup)
//!            2: A = backup, B = backup      (backup || backup)
//!            3: replay of the model's `slow_prune_run` witness on the real code
//!            4: A = backup of the FIRST source again (every blob reused from packs the prune marks),
//!               B = prune
//!            6: a backup that reuses everything is parked after its index load; prune 1 marks the packs;
//!               at 0.8 keep_delete prune 2 starts, scans the snapshots and is parked before it lists the
//!               packs; the backup finishes (shorter than keep_delete); after the marks expired prune 2
//!               continues (a plan time taken after the scan would let it delete the packs)
//!            5: only one snapshot exists; A = backup (parked); then that snapshot is forgotten and
//!               B = prune runs (it finds EVERY pack unused: its new index holds marks only)
//!   k: A is parked before its k-th (0-based) mutating backend operation (k >= #ops: never parked)
//!   j: 0 = B runs fully while A is parked; j > 0: B is parked before its j-th mutating operation,
//!      then A runs to its end, then B
//!   kd_ms: keep_delete of the prunes of the case (milliseconds, real clock)
//!   variant: bit 0: an earlier prune (same keep_delete) ran in the set-up, so marked packs exist;
//!            bit 1: prunes repack aggressively (max_unused 0) instead of keeping partly used packs;
//!            bit 2: sleep keep_delete + 50 ms before the concurrent phase (marks expire)
//!            bit 3: the further prune uses the case's keep_delete and runs keep_delete + 60 ms after
//!                   the concurrent phase (the marks have expired: needed packs must be RECOVERED)
//!            bit 4: A stays parked until keep_delete + 60 ms after B finished (finishes after expiry)
//!            bit 5: the second set-up backup is skipped (forgetting snapshot 1 leaves every pack unused)
//!
//! Every command runs on its own `ActorBe` over one shared in-memory store; every backend call is
//! logged in real order; every file ever written is kept in an archive store so that index and
//! snapshot files removed later can still be decoded.  After the concurrent phase: a further
//! prune, `check(read_data)`, restore of every snapshot compared with its source directory.
//!
//! Result line: `ok key=val.. | <event tokens for the model replay> | FINAL <real final state>`
use std::collections::{BTreeMap, BTreeSet};
use std::path::{Path, PathBuf};
use std::sync::{Arc, Condvar, Mutex};
use std::time::{Duration, SystemTime, UNIX_EPOCH};

use anyhow::{Result, anyhow};
use bytes::Bytes;
use rustic_core::jiff::Span;
use rustic_core::repofile::{IndexFile, MasterKey, SnapshotFile};
use rustic_core::{
    BytesList, FileType, Id, LimitOption, LsOptions, PruneOptions, ReadBackend, RestoreOptions, RusticResult,
    WriteBackend,
};
use rustic_testing::backend::in_memory_backend::InMemoryBackend;
use verif_harness::e2e::*;
use verif_harness::{SplitMix, Toks, for_each_case};

fn now_ms() -> i64 {
    SystemTime::now().duration_since(UNIX_EPOCH).unwrap().as_millis() as i64
}

#[derive(Clone, Debug)]
enum Kind {
    List,
    Read,
    Write,
    Remove,
}
#[derive(Clone, Debug)]
struct LogEv {
    actor: usize,
    kind: Kind,
    tpe: FileType,
    id: Id,
    ms: i64,
    ok: bool,
}

#[derive(Default)]
struct Gate {
    park_at: Vec<Option<usize>>,
    count: Vec<usize>,
    parked: Vec<bool>,
    released: Vec<bool>,
    done: Vec<bool>,
    /// file type of the mutating operation the actor was parked at
    park_tpe: Vec<Option<FileType>>,
}

struct Shared {
    store: Arc<InMemoryBackend>,
    archive: Arc<InMemoryBackend>,
    log: Mutex<Vec<LogEv>>,
    gate: Mutex<Gate>,
    cv: Condvar,
}

impl Shared {
    fn new_actor(&self, park_at: Option<usize>) -> usize {
        let mut g = self.gate.lock().unwrap();
        g.park_at.push(park_at);
        g.count.push(0);
        g.parked.push(false);
        g.released.push(false);
        g.done.push(false);
        g.park_tpe.push(None);
        g.count.len() - 1
    }
    fn wait_parked_or_done(&self, a: usize) -> bool {
        let mut g = self.gate.lock().unwrap();
        let mut rounds = 0;
        while !(g.parked[a] || g.done[a]) {
            let (g2, _) = self.cv.wait_timeout(g, Duration::from_millis(200)).unwrap();
            g = g2;
            rounds += 1;
            if rounds > 600 {
                break;
            }
        }
        g.parked[a]
    }
    fn release(&self, a: usize) {
        let mut g = self.gate.lock().unwrap();
        g.released[a] = true;
        self.cv.notify_all();
    }
    fn set_done(&self, a: usize) {
        let mut g = self.gate.lock().unwrap();
        g.done[a] = true;
        self.cv.notify_all();
    }
}

struct ActorBe {
    sh: Arc<Shared>,
    actor: usize,
}
impl std::fmt::Debug for ActorBe {
    fn fmt(&self, f: &mut std::fmt::Formatter<'_>) -> std::fmt::Result {
        write!(f, "ActorBe({})", self.actor)
    }
}
impl ActorBe {
    fn gate(&self, tpe: FileType) {
        let a = self.actor;
        let mut g = self.sh.gate.lock().unwrap();
        if g.park_at[a] == Some(g.count[a]) && !g.released[a] {
            g.parked[a] = true;
            g.park_tpe[a] = Some(tpe);
            self.sh.cv.notify_all();
            while !g.released[a] {
                g = self.sh.cv.wait(g).unwrap();
            }
            g.parked[a] = false;
        }
        g.count[a] += 1;
    }
    fn logged<T>(&self, kind: Kind, tpe: FileType, id: &Id, f: impl FnOnce() -> RusticResult<T>) -> RusticResult<T> {
        let mut l = self.sh.log.lock().unwrap();
        let r = f();
        l.push(LogEv { actor: self.actor, kind, tpe, id: *id, ms: now_ms(), ok: r.is_ok() });
        r
    }
}
impl ReadBackend for ActorBe {
    fn location(&self) -> String {
        self.sh.store.location()
    }
    fn list_with_size(&self, tpe: FileType) -> RusticResult<Vec<(Id, u32)>> {
        if tpe == FileType::Pack {
            // park_at == usize::MAX: park before the first pack listing (a prune lists the packs after
            // it has read the index and scanned the snapshots)
            let a = self.actor;
            let mut g = self.sh.gate.lock().unwrap();
            if g.park_at[a] == Some(usize::MAX) && !g.released[a] {
                g.parked[a] = true;
                self.sh.cv.notify_all();
                while !g.released[a] {
                    g = self.sh.cv.wait(g).unwrap();
                }
                g.parked[a] = false;
            }
        }
        self.logged(Kind::List, tpe, &Id::default(), || self.sh.store.list_with_size(tpe))
    }
    fn read_full(&self, tpe: FileType, id: &Id) -> RusticResult<Bytes> {
        if matches!(tpe, FileType::Index | FileType::Snapshot) {
            self.logged(Kind::Read, tpe, id, || self.sh.store.read_full(tpe, id))
        } else {
            self.sh.store.read_full(tpe, id)
        }
    }
    fn read_partial(&self, tpe: FileType, id: &Id, cacheable: bool, offset: u32, length: u32) -> RusticResult<Bytes> {
        self.sh.store.read_partial(tpe, id, cacheable, offset, length)
    }
    fn warmup_path(&self, tpe: FileType, id: &Id) -> String {
        self.sh.store.warmup_path(tpe, id)
    }
}
impl WriteBackend for ActorBe {
    fn create(&self) -> RusticResult<()> {
        self.sh.store.create()
    }
    fn write_bytes(&self, tpe: FileType, id: &Id, cacheable: bool, content: BytesList) -> RusticResult<()> {
        self.gate(tpe);
        let _ = self.sh.archive.write_bytes(tpe, id, cacheable, content.clone());
        self.logged(Kind::Write, tpe, id, || self.sh.store.write_bytes(tpe, id, cacheable, content))
    }
    fn remove(&self, tpe: FileType, id: &Id, cacheable: bool) -> RusticResult<()> {
        self.gate(tpe);
        self.logged(Kind::Remove, tpe, id, || self.sh.store.remove(tpe, id, cacheable))
    }
}

#[derive(Clone, Debug)]
enum Cmd {
    Backup(PathBuf),
    Prune { kd_ms: i64, repack: bool },
    Forget(Id),
}

#[derive(Clone, Debug, Default)]
struct ActorInfo {
    kind: char, // 'B', 'P', 'F', 'I'
    kd_ms: i64,
    ok: bool,
    err: String,
    snap: Option<Id>,
    dir: Option<PathBuf>,
    start_ms: i64,
    end_ms: i64,
}

fn prune_opts(kd_ms: i64, repack: bool) -> PruneOptions {
    let mut o = PruneOptions::default().keep_delete(Span::new().milliseconds(kd_ms)).no_resize(true);
    if repack {
        o = o.max_unused(LimitOption::Percentage(0)).max_repack(LimitOption::Unlimited);
    } else {
        o = o.max_unused(LimitOption::Unlimited);
    }
    o
}

fn run_cmd(sh: &Arc<Shared>, actor: usize, key: &MasterKey, cmd: &Cmd) -> Result<Option<Id>> {
    let be: Arc<dyn WriteBackend> = Arc::new(ActorBe { sh: sh.clone(), actor });
    let repo = open_repo(be, None, key, &repo_opts())?;
    match cmd {
        Cmd::Backup(dir) => {
            let (_r, snap) = backup_dir(repo, dir, "src", None)?;
            Ok(Some(*snap.id))
        }
        Cmd::Prune { kd_ms, repack } => {
            let o = prune_opts(*kd_ms, *repack);
            let plan = repo.prune_plan(&o)?;
            repo.prune(&o, plan)?;
            Ok(None)
        }
        Cmd::Forget(id) => {
            repo.delete_snapshots(&[(*id).into()])?;
            Ok(None)
        }
    }
}

struct World {
    sh: Arc<Shared>,
    key: MasterKey,
    actors: Mutex<Vec<ActorInfo>>,
}

impl World {
    fn register(&self, cmd: &Cmd, park_at: Option<usize>) -> usize {
        let a = self.sh.new_actor(park_at);
        let mut info = ActorInfo::default();
        match cmd {
            Cmd::Backup(d) => {
                info.kind = 'B';
                info.dir = Some(d.clone());
            }
            Cmd::Prune { kd_ms, .. } => {
                info.kind = 'P';
                info.kd_ms = *kd_ms;
            }
            Cmd::Forget(_) => info.kind = 'F',
        }
        let mut v = self.actors.lock().unwrap();
        assert_eq!(v.len(), a);
        v.push(info);
        a
    }
    fn exec(&self, a: usize, cmd: &Cmd) {
        let t0 = now_ms();
        let r = std::panic::catch_unwind(std::panic::AssertUnwindSafe(|| run_cmd(&self.sh, a, &self.key, cmd)));
        let t1 = now_ms();
        let mut v = self.actors.lock().unwrap();
        v[a].start_ms = t0;
        v[a].end_ms = t1;
        match r {
            Ok(Ok(s)) => {
                v[a].ok = true;
                v[a].snap = s;
            }
            Ok(Err(e)) => v[a].err = format!("{e}").replace(char::is_whitespace, "_").chars().take(120).collect(),
            Err(_) => v[a].err = "panic".into(),
        }
        drop(v);
        self.sh.set_done(a);
    }
    fn run_now(&self, cmd: Cmd) -> usize {
        let a = self.register(&cmd, None);
        self.exec(a, &cmd);
        a
    }
}

fn write_files(dir: &Path, files: &[(String, u64, usize)]) -> Result<()> {
    let mut ents = Vec::new();
    for (name, seed, len) in files {
        ents.push(Entry {
            path: PathBuf::from(name),
            kind: verif_harness::e2e::Kind::File(Content::Random { seed: *seed, len: *len }),
            mode: 0o644,
            mtime: (1_600_000_000 + (*seed % 1000) as i64, 0),
        });
    }
    materialize(dir, &ents)?;
    set_mtime(dir, (1_600_000_000, 0))?;
    Ok(())
}

struct Numbering {
    m: BTreeMap<String, usize>,
}
impl Numbering {
    fn new() -> Self {
        Self { m: BTreeMap::new() }
    }
    fn get(&mut self, id: &str) -> usize {
        let n = self.m.len();
        *self.m.entry(id.to_string()).or_insert(n)
    }
}

fn case(line: &str) -> String {
    match run_case(line) {
        Ok(s) => s,
        Err(e) => format!("error {}", format!("{e:#}").replace('\n', " ")),
    }
}

fn run_case(line: &str) -> Result<String> {
    let mut t = Toks::new(line);
    let seed = t.u();
    let scenario = t.u();
    let k = t.u() as usize;
    let j = t.u() as usize;
    let kd_ms = t.i();
    let variant = t.u();
    let mut r = SplitMix(seed);

    // ---- source directories: every file is one blob (far below the minimum chunk size)
    let tmp = tempfile::tempdir()?;
    let nfiles = 5 + r.below(4) as usize;
    let mut pool: Vec<(String, u64, usize)> = Vec::new();
    for i in 0..(nfiles * 3) {
        pool.push((format!("f{i:02}"), r.next(), 300 + r.below(1500) as usize));
    }
    let (pa, rest) = pool.split_at(nfiles);
    let (pb, pc) = rest.split_at(nfiles);
    let d1 = tmp.path().join("d1");
    let d2 = tmp.path().join("d2");
    let d3 = tmp.path().join("d3");
    let common: Vec<_> = pc[..nfiles / 2].to_vec();
    let fresh: Vec<_> = pc[nfiles / 2..].to_vec();
    let mut f1 = pa.to_vec();
    f1.extend(common.clone());
    let mut f2 = pb.to_vec();
    f2.extend(common.clone());
    // d3: part of d1's own files again (blobs no snapshot needs once snapshot 1 is forgotten), some of d2, new files
    let mut f3: Vec<_> = pa.iter().filter(|_| r.below(3) != 0).cloned().collect();
    f3.extend(pb.iter().filter(|_| r.below(3) == 0).cloned());
    f3.extend(fresh.iter().filter(|_| r.below(2) == 0).cloned());
    if f3.is_empty() {
        f3.push(pa[0].clone());
    }
    write_files(&d1, &f1)?;
    write_files(&d2, &f2)?;
    write_files(&d3, &f3)?;

    // ---- repository
    let store = mem();
    let archive = mem();
    let sh = Arc::new(Shared {
        store: store.clone(),
        archive: archive.clone(),
        log: Mutex::new(Vec::new()),
        gate: Mutex::new(Gate::default()),
        cv: Condvar::new(),
    });
    let a_init = sh.new_actor(None);
    let init_be: Arc<dyn WriteBackend> = Arc::new(ActorBe { sh: sh.clone(), actor: a_init });
    let pack = 1500 + r.below(3000) as u32;
    let (_repo, key) = init_repo(init_be, None, &small_pack_config(pack, 1200), &repo_opts())?;
    let w = Arc::new(World { sh: sh.clone(), key, actors: Mutex::new(vec![ActorInfo { kind: 'I', ok: true, ..Default::default() }]) });
    let base_ms = now_ms();
    let repack = variant & 2 != 0;

    // ---- set-up history
    let a1 = w.run_now(Cmd::Backup(d1.clone()));
    if variant & 32 == 0 && scenario != 5 {
        let _a2 = w.run_now(Cmd::Backup(d2.clone()));
    }
    let s1 = w.actors.lock().unwrap()[a1].snap.ok_or_else(|| anyhow!("set-up backup failed: {}", w.actors.lock().unwrap()[a1].err))?;
    if scenario != 5 {
        let _ = w.run_now(Cmd::Forget(s1));
    }
    let mut parked_a = false;
    let mut parked_b = false;
    let (mut act_a, mut act_b) = (0usize, 0usize);

    if scenario == 3 {
        // slow_prune_run on the real code
        // variant bit 1: prune 1 repacks, so that it is parked at a repack pack write (BEFORE the marks are
        // stamped); otherwise it is parked inside the index write (AFTER they were stamped)
        let c1 = Cmd::Prune { kd_ms, repack };
        let p1 = w.register(&c1, Some(0));
        let w1 = w.clone();
        let h1 = std::thread::spawn(move || w1.exec(p1, &c1));
        parked_a = sh.wait_parked_or_done(p1);
        let t_plan = now_ms();
        std::thread::sleep(Duration::from_millis((kd_ms * 6 / 10) as u64));
        let cb = Cmd::Backup(d1.clone());
        let b = w.register(&cb, Some(0));
        let w2 = w.clone();
        let hb = std::thread::spawn(move || w2.exec(b, &cb));
        parked_b = sh.wait_parked_or_done(b);
        sh.release(p1);
        let _ = h1.join();
        let wait = t_plan + kd_ms + 60 - now_ms();
        if wait > 0 {
            std::thread::sleep(Duration::from_millis(wait as u64));
        }
        let _ = w.run_now(Cmd::Prune { kd_ms, repack: false });
        sh.release(b);
        let _ = hb.join();
        act_a = p1;
        act_b = b;
    } else if scenario == 6 {
        let ca = Cmd::Backup(d1.clone());
        let a = w.register(&ca, Some(0));
        let wa = w.clone();
        let ha = std::thread::spawn(move || wa.exec(a, &ca));
        parked_a = sh.wait_parked_or_done(a);
        let _ = w.run_now(Cmd::Prune { kd_ms, repack });
        let t_marks = now_ms();
        std::thread::sleep(Duration::from_millis((kd_ms * 8 / 10) as u64));
        let c2 = Cmd::Prune { kd_ms, repack: false };
        let p2 = w.register(&c2, Some(usize::MAX));
        let w2 = w.clone();
        let h2 = std::thread::spawn(move || w2.exec(p2, &c2));
        parked_b = sh.wait_parked_or_done(p2);
        sh.release(a);
        let _ = ha.join();
        let wait = t_marks + kd_ms + 80 - now_ms();
        if wait > 0 {
            std::thread::sleep(Duration::from_millis(wait as u64));
        }
        sh.release(p2);
        let _ = h2.join();
        act_a = a;
        act_b = p2;
    } else {
        if variant & 1 != 0 {
            let _ = w.run_now(Cmd::Prune { kd_ms, repack });
        }
        if variant & 4 != 0 {
            std::thread::sleep(Duration::from_millis((kd_ms + 50) as u64));
        }
        let (ca, cb) = match scenario {
            0 => (Cmd::Backup(d3.clone()), Cmd::Prune { kd_ms, repack }),
            1 => (Cmd::Prune { kd_ms, repack }, Cmd::Backup(d3.clone())),
            2 => (Cmd::Backup(d3.clone()), Cmd::Backup(d1.clone())),
            4 => (Cmd::Backup(d1.clone()), Cmd::Prune { kd_ms, repack }),
            _ => (Cmd::Backup(if seed & 1 == 0 { d1.clone() } else { d3.clone() }), Cmd::Prune { kd_ms, repack }),
        };
        let a = w.register(&ca, Some(k));
        let wa = w.clone();
        let ca2 = ca.clone();
        let ha = std::thread::spawn(move || wa.exec(a, &ca2));
        parked_a = sh.wait_parked_or_done(a);
        if scenario == 5 {
            let _ = w.run_now(Cmd::Forget(s1));
        }
        let late = variant & 16 != 0;
        let b = w.register(&cb, if j > 0 { Some(j) } else { None });
        if j > 0 {
            let wb = w.clone();
            let cb2 = cb.clone();
            let hb = std::thread::spawn(move || wb.exec(b, &cb2));
            parked_b = sh.wait_parked_or_done(b);
            sh.release(a);
            let _ = ha.join();
            sh.release(b);
            let _ = hb.join();
        } else {
            w.exec(b, &cb);
            if late {
                std::thread::sleep(Duration::from_millis((kd_ms + 60) as u64));
            }
            sh.release(a);
            let _ = ha.join();
        }
        act_a = a;
        act_b = b;
    }

    // ---- the further prune (default keep_delete: nothing is deleted, needed marked packs are recovered)
    let further = if variant & 8 != 0 && scenario != 3 {
        std::thread::sleep(Duration::from_millis((kd_ms + 60) as u64));
        w.run_now(Cmd::Prune { kd_ms, repack: false })
    } else {
        w.run_now(Cmd::Prune { kd_ms: 23 * 3600 * 1000, repack: false })
    };

    // ---- oracle on the real store (plain handle, not logged)
    let plain: Arc<dyn WriteBackend> = store.clone();
    let repo = open_repo(plain.clone(), None, &w.key, &repo_opts())?;
    let clean = check_clean(&repo).unwrap_or(false);
    let actors = w.actors.lock().unwrap().clone();
    let snaps_present: Vec<Id> = store.list(FileType::Snapshot)?;
    let mut bad_restore = Vec::new();
    for (ai, info) in actors.iter().enumerate() {
        if let (Some(sn), Some(dir)) = (&info.snap, &info.dir) {
            if !snaps_present.contains(sn) {
                continue;
            }
            let dst = tempfile::tempdir()?;
            let repo = open_repo(plain.clone(), None, &w.key, &repo_opts())?;
            let res = std::panic::catch_unwind(std::panic::AssertUnwindSafe(|| {
                restore_to(repo, &sn.to_hex(), dst.path(), RestoreOptions::default())
            }));
            let good = match res {
                Ok(Ok(_)) => compare_dirs(dir, &dst.path().join("src"), CmpOpts { mode: true, mtime: true, dir_mtime: false })
                    .map(|d| d.is_empty())
                    .unwrap_or(false),
                _ => false,
            };
            if !good {
                bad_restore.push(ai);
            }
        }
    }

    // ---- decode everything ever written (archive) into small numbers
    let arch: Arc<dyn WriteBackend> = archive.clone();
    let arepo = open_repo(arch, None, &w.key, &repo_opts())?;
    let mut index_files: BTreeMap<String, IndexFile> = BTreeMap::new();
    for r in arepo.stream_files::<IndexFile>()? {
        let (id, f) = r?;
        let _ = index_files.insert(id.to_hex().to_string(), f);
    }
    let mut pack_blobs: BTreeMap<String, Vec<String>> = BTreeMap::new();
    for f in index_files.values() {
        for p in f.packs.iter().chain(f.packs_to_delete.iter()) {
            if !p.blobs.is_empty() {
                let _ = pack_blobs
                    .entry(p.id.to_hex().to_string())
                    .or_insert_with(|| p.blobs.iter().map(|b| b.id.to_hex().to_string()).collect());
            }
        }
    }
    let arepo = arepo.to_indexed()?;
    let mut snap_needs: BTreeMap<String, Vec<String>> = BTreeMap::new();
    for id in archive.list(FileType::Snapshot)? {
        let hex = id.to_hex().to_string();
        let mut needs = BTreeSet::new();
        let sn: SnapshotFile = arepo.get_file(&id.into())?;
        let _ = needs.insert(sn.tree.to_hex().to_string());
        let node = arepo.node_from_snapshot_path(&hex, |_| true)?;
        for item in arepo.ls(&node, &LsOptions::default())? {
            let (_p, n) = item?;
            if let Some(c) = &n.content {
                for d in c {
                    let _ = needs.insert(d.to_hex().to_string());
                }
            }
            if let Some(tr) = &n.subtree {
                let _ = needs.insert(tr.to_hex().to_string());
            }
        }
        let _ = snap_needs.insert(hex, needs.into_iter().collect());
    }

    let (mut bn, mut pn, mut inn, mut sn) = (Numbering::new(), Numbering::new(), Numbering::new(), Numbering::new());
    let tick = |ms: i64| -> i64 { ((ms - base_ms).max(0)) / 10 };
    let blobs_s = |bn: &mut Numbering, v: &[String]| -> String {
        let mut s = format!("{}", v.len());
        for b in v {
            s.push_str(&format!(" {}", bn.get(b)));
        }
        s
    };
    let log = sh.log.lock().unwrap().clone();
    // ---- mark times, normalised by ORDER of logged operations (no wall-clock tolerance):
    // a mark whose time lies between the previous logged operation of the SAME prune and the logged index
    // write that publishes it was "stamped for this write" (repaired source: release_removals stamps right
    // before finalize) and is reported as the tick of that write; a mark that lies between the prune's pack
    // listing and its next operation, but not in the first range, carries the PLAN time (unrepaired source) and
    // moves the tick of the listing to itself; any other mark (carried over) was classified when it was made.
    let prev_op_ms = |li: usize, a: usize| -> i64 {
        log[..li].iter().rev().find(|x| x.actor == a).map_or(base_ms, |x| x.ms)
    };
    let next_op_ms = |li: usize, a: usize| -> i64 {
        log[li + 1..].iter().find(|x| x.actor == a).map_or(i64::MAX, |x| x.ms)
    };
    let mut write_of_mark: BTreeMap<i64, usize> = BTreeMap::new(); // mark time (ms) -> log index of its index write
    let mut plan_ms: BTreeMap<usize, i64> = BTreeMap::new(); // prune -> plan time carried by marks (unrepaired shape)
    for (li, e) in log.iter().enumerate() {
        if matches!(e.kind, Kind::Write) && e.ok && e.tpe == FileType::Index && actors[e.actor].kind == 'P' {
            if let Some(f) = index_files.get(e.id.to_hex().as_str()) {
                let lo = prev_op_ms(li, e.actor) - 2;
                for p in &f.packs_to_delete {
                    if let Some(tm) = p.time {
                        let tm = tm.as_millisecond();
                        if write_of_mark.contains_key(&tm) {
                            continue;
                        }
                        if lo <= tm && tm <= e.ms {
                            let _ = write_of_mark.insert(tm, li);
                        } else {
                            let m = plan_ms.entry(e.actor).or_insert(0);
                            *m = (*m).max(tm);
                        }
                    }
                }
            }
        }
    }
    // tick of every logged event (pass 1), so that a normalised mark can name the tick of its write
    let mut ev_tick: Vec<i64> = vec![0; log.len()];
    {
        let mut cur = 0i64;
        let mut seen_lp: BTreeSet<usize> = BTreeSet::new();
        for (li, e) in log.iter().enumerate() {
            let a = e.actor;
            if actors[a].kind == 'I' || !e.ok {
                ev_tick[li] = cur;
                continue;
            }
            let mut ms = e.ms;
            if actors[a].kind == 'P' && matches!(e.kind, Kind::List) && e.tpe == FileType::Pack && seen_lp.insert(a) {
                if let Some(pm) = plan_ms.get(&a) {
                    if e.ms - 2 <= *pm && *pm <= next_op_ms(li, a) {
                        ms = (*pm).max(e.ms);
                    }
                }
            }
            cur = cur.max(tick(ms));
            ev_tick[li] = cur;
        }
    }
    // A prune that deleted a pack started at or after `stamp + keep_delete`; the model sees the stamp at the tick
    // of the index write that published it, which is later than the stamp by the duration of that write.  A prune
    // that started inside this short window (real: expired, model clock: not yet) cannot be replayed faithfully:
    // the case is reported as timing-ambiguous instead of being compared.
    let mut ambiguous = false;
    for (a2, info) in actors.iter().enumerate() {
        if info.kind != 'P' {
            continue;
        }
        let removed: BTreeSet<String> = log
            .iter()
            .filter(|x| x.actor == a2 && x.ok && matches!(x.kind, Kind::Remove) && x.tpe == FileType::Pack)
            .map(|x| x.id.to_hex().to_string())
            .collect();
        let Some(first) = log.iter().find(|x| x.actor == a2) else { continue };
        if removed.is_empty() {
            continue;
        }
        for f in index_files.values() {
            for p in &f.packs_to_delete {
                if removed.contains(p.id.to_hex().as_str()) {
                    if let Some(li1) = p.time.and_then(|t| write_of_mark.get(&t.as_millisecond())) {
                        if *li1 < log.len() && log[*li1].actor != a2 && first.ms < log[*li1].ms + info.kd_ms + 10 && info.kd_ms > 0 {
                            ambiguous = true;
                        }
                    }
                }
            }
        }
    }
    let mark_tick = |tm: i64| -> i64 { write_of_mark.get(&tm).map_or_else(|| tick(tm), |li| ev_tick[*li]) };
    let mut toks: Vec<String> = Vec::new();
    let mut started: BTreeSet<usize> = BTreeSet::new();
    let mut listed_packs: BTreeSet<usize> = BTreeSet::new();
    let mut listed_snaps: BTreeSet<usize> = BTreeSet::new();
    let mut cur_tick = 0i64;
    let mut ended: BTreeSet<usize> = BTreeSet::new();
    let last_of: BTreeMap<usize, usize> = log.iter().enumerate().map(|(i, e)| (e.actor, i)).collect();
    for (li, e) in log.iter().enumerate() {
        let a = e.actor;
        let info = &actors[a];
        if info.kind == 'I' || !e.ok {
            if last_of.get(&a) == Some(&li) && info.kind != 'I' && ended.insert(a) {
                toks.push(format!("END {a} {}", u8::from(info.ok)));
            }
            continue;
        }
        if ev_tick[li] > cur_tick {
            cur_tick = ev_tick[li];
            toks.push(format!("T {cur_tick}"));
        }
        if started.insert(a) {
            match info.kind {
                'B' => {
                    let want = info.snap.as_ref().and_then(|s| snap_needs.get(s.to_hex().as_str())).cloned().unwrap_or_default();
                    toks.push(format!("KIND {a} B {}", blobs_s(&mut bn, &want)));
                }
                'P' => toks.push(format!("KIND {a} P {}", info.kd_ms / 10)),
                _ => toks.push(format!("KIND {a} F")),
            }
        }
        let hex = e.id.to_hex().to_string();
        match (&e.kind, e.tpe) {
            (Kind::List, FileType::Index) => toks.push(format!("LI {a}")),
            (Kind::List, FileType::Snapshot) => {
                if info.kind == 'P' && listed_snaps.insert(a) {
                    toks.push(format!("LS {a}"));
                }
            }
            (Kind::List, FileType::Pack) => {
                if info.kind == 'P' && listed_packs.insert(a) {
                    toks.push(format!("LP {a}"));
                }
            }
            (Kind::Read, FileType::Index) => {
                if info.kind == 'B' {
                    toks.push(format!("RI {a} {}", inn.get(&hex)));
                }
            }
            (Kind::Write, FileType::Pack) => {
                let bl = pack_blobs.get(&hex).cloned().unwrap_or_default();
                toks.push(format!("WP {a} {} {}", pn.get(&hex), blobs_s(&mut bn, &bl)));
            }
            (Kind::Write, FileType::Index) => {
                let f = index_files.get(&hex).ok_or_else(|| anyhow!("index file not decodable"))?;
                let mut s = format!("WI {a} {} {}", inn.get(&hex), f.packs.len());
                for p in &f.packs {
                    let bl: Vec<String> = p.blobs.iter().map(|b| b.id.to_hex().to_string()).collect();
                    s.push_str(&format!(" {} {}", pn.get(p.id.to_hex().as_str()), blobs_s(&mut bn, &bl)));
                }
                s.push_str(&format!(" {}", f.packs_to_delete.len()));
                for p in &f.packs_to_delete {
                    let bl: Vec<String> = p.blobs.iter().map(|b| b.id.to_hex().to_string()).collect();
                    s.push_str(&format!(
                        " {} {} {}",
                        pn.get(p.id.to_hex().as_str()),
                        p.time.map_or(-1, |t| mark_tick(t.as_millisecond())),
                        blobs_s(&mut bn, &bl)
                    ));
                }
                toks.push(s);
            }
            (Kind::Write, FileType::Snapshot) => {
                let want = snap_needs.get(&hex).cloned().unwrap_or_default();
                toks.push(format!("WS {a} {} {}", sn.get(&hex), blobs_s(&mut bn, &want)));
            }
            (Kind::Remove, FileType::Index) => toks.push(format!("XI {a} {}", inn.get(&hex))),
            (Kind::Remove, FileType::Pack) => toks.push(format!("XP {a} {}", pn.get(&hex))),
            (Kind::Remove, FileType::Snapshot) => toks.push(format!("XS {a} {}", sn.get(&hex))),
            _ => {}
        }
        if last_of.get(&a) == Some(&li) && ended.insert(a) {
            toks.push(format!("END {a} {}", u8::from(info.ok)));
        }
    }

    // ---- the real final state in the same numbering
    let mut fin = String::from("FINAL packs");
    let mut present: Vec<(usize, String)> = Vec::new();
    for id in store.list(FileType::Pack)? {
        let hex = id.to_hex().to_string();
        let mut bl: Vec<usize> = pack_blobs.get(&hex).cloned().unwrap_or_default().iter().map(|b| bn.get(b)).collect();
        bl.sort_unstable();
        bl.dedup();
        present.push((pn.get(&hex), bl.iter().map(ToString::to_string).collect::<Vec<_>>().join(",")));
    }
    present.sort();
    for (p, bl) in &present {
        fin.push_str(&format!(" {p}:{bl}"));
    }
    let mut unm: BTreeSet<(usize, String)> = BTreeSet::new();
    let mut mk: BTreeSet<(usize, i64, String)> = BTreeSet::new();
    for id in store.list(FileType::Index)? {
        let f = index_files.get(id.to_hex().as_str()).ok_or_else(|| anyhow!("final index not decodable"))?;
        let cv = |bn: &mut Numbering, p: &rustic_core::repofile::IndexPack| -> String {
            let mut bl: Vec<usize> = p.blobs.iter().map(|b| bn.get(b.id.to_hex().as_str())).collect();
            bl.sort_unstable();
            bl.dedup();
            bl.iter().map(ToString::to_string).collect::<Vec<_>>().join(",")
        };
        for p in &f.packs {
            let _ = unm.insert((pn.get(p.id.to_hex().as_str()), cv(&mut bn, p)));
        }
        for p in &f.packs_to_delete {
            let _ = mk.insert((pn.get(p.id.to_hex().as_str()), p.time.map_or(-1, |t| mark_tick(t.as_millisecond())), cv(&mut bn, p)));
        }
    }
    fin.push_str(" ; unm");
    for (p, bl) in &unm {
        fin.push_str(&format!(" {p}:{bl}"));
    }
    fin.push_str(" ; mk");
    for (p, tm, bl) in &mk {
        fin.push_str(&format!(" {p}@{tm}:{bl}"));
    }
    fin.push_str(" ; snaps");
    let mut sl: Vec<String> = Vec::new();
    for id in &snaps_present {
        let mut bl: Vec<usize> = snap_needs.get(id.to_hex().as_str()).cloned().unwrap_or_default().iter().map(|b| bn.get(b)).collect();
        bl.sort_unstable();
        sl.push(bl.iter().map(ToString::to_string).collect::<Vec<_>>().join(","));
    }
    sl.sort();
    for s in &sl {
        fin.push_str(&format!(" {s}"));
    }

    let ia = &actors[act_a];
    let ib = &actors[act_b];
    let first_a = log
        .iter()
        .find(|e| e.actor == act_a && matches!(e.kind, Kind::Write | Kind::Remove))
        .map_or("none", |e| match e.tpe {
            FileType::Pack => "pack",
            FileType::Index => "index",
            FileType::Snapshot => "snapshot",
            _ => "other",
        });
    let (park_a, park_b) = {
        let g = sh.gate.lock().unwrap();
        let nm = |t: Option<FileType>| t.map_or("-", |t| match t {
            FileType::Pack => "pack",
            FileType::Index => "index",
            FileType::Snapshot => "snapshot",
            _ => "other",
        });
        (nm(g.park_tpe[act_a]), nm(g.park_tpe[act_b]))
    };
    let maxbk = actors.iter().filter(|i| i.kind == 'B').map(|i| i.end_ms - i.start_ms).max().unwrap_or(0);
    let head = format!(
        "ok scen={scenario} variant={variant} maxbk={maxbk} kdms={kd_ms} ambig={} firstA={first_a} parkopA={park_a} parkopB={park_b} errF={} A={}{} B={}{} parkedA={} parkedB={} durA={} durB={} kd={} further={} clean={} badrestore={} nsnaps={} errA={} errB={}",
        u8::from(ambiguous),
        if actors[further].err.is_empty() { "-" } else { &actors[further].err },
        ia.kind,
        u8::from(ia.ok),
        ib.kind,
        u8::from(ib.ok),
        u8::from(parked_a),
        u8::from(parked_b),
        ia.end_ms - ia.start_ms,
        ib.end_ms - ib.start_ms,
        kd_ms / 10,
        u8::from(actors[further].ok),
        u8::from(clean),
        bad_restore.len(),
        snaps_present.len(),
        if ia.err.is_empty() { "-" } else { &ia.err },
        if ib.err.is_empty() { "-" } else { &ib.err },
    );
    Ok(format!("{head} | {} | {fin}", toks.join(" ")))
}

fn main() {
    for_each_case(case);
}
