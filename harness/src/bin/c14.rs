//! C14 — restore yields exactly the snapshot and never writes outside the target.
//!
//! One case per input line, one JSON object per output line.
//!
//!   e2e <seed> <delete> <verify> <sparse> <noown> <destkind> <chunk> <hardlinks>
//!       seeded source tree -> backup -> destination derived from the snapshot by mutation
//!       (or unrelated / empty / identical) with sentinels around it -> real restore ->
//!       the property evaluated path by path (the oracle), every difference reported with the
//!       facts needed to classify it.
//!   hostile <variant> <delete>
//!       a snapshot whose tree contains a hostile node name (crafted through the C14 hook),
//!       restored into a directory surrounded by sentinels; reports every change outside.
//!   hostile2 <kind 0=file 1=dir 2=symlink> <name 0..8> <spelling 0..4> <delete>
//!       the same with the hostile name stored in an ESCAPED spelling (`\x2e\x2e`, `\u002e`,
//!       `\U0000002f`, mixed literal/escaped): the stored string is one harmless-looking
//!       component, `Node::name()` unescapes it to `..`, `/abs`, `a/b`, `.`
//!   model <tokens...>
//!       a small abstract case (same tokens as the extracted Coq model reads): source tree with
//!       fixed-size chunks, destination state, options; reports outcome and final state.
use std::collections::{BTreeMap, BTreeSet};
use std::ffi::OsString;
use std::fs;
use std::io::BufRead;
use std::os::unix::ffi::{OsStrExt, OsStringExt};
use std::os::unix::fs::{MetadataExt, PermissionsExt};
use std::panic::{AssertUnwindSafe, catch_unwind};
use std::path::{Path, PathBuf};
use std::sync::Arc;

use anyhow::{Result, anyhow};
use rustic_core::repofile::{Chunker, Node, SnapshotFile, Tree};
use rustic_core::verif_hooks::c14::{SparseRestore, save_trees, snapshot_for_tree};
use rustic_core::{ConfigOptions, FileType, LocalDestination, LsOptions, RestoreOptions};
use serde_json::{Value, json};
use verif_harness::e2e::*;
use verif_harness::{SplitMix, Toks};

// ------------------------------------------------------------------ file-system state

#[derive(Clone, Debug, PartialEq, Eq)]
struct St {
    kind: char, // f d l o
    bytes: Vec<u8>,
    target: Vec<u8>,
    mode: u32,
    mtime: (i64, u32),
    ino: u64,
}

fn stat(p: &Path) -> Option<St> {
    let md = fs::symlink_metadata(p).ok()?;
    let ft = md.file_type();
    let kind = if ft.is_dir() { 'd' } else if ft.is_file() { 'f' } else if ft.is_symlink() { 'l' } else { 'o' };
    Some(St {
        kind,
        bytes: if kind == 'f' { fs::read(p).unwrap_or_default() } else { vec![] },
        target: if kind == 'l' { fs::read_link(p).map(|t| t.as_os_str().as_bytes().to_vec()).unwrap_or_default() } else { vec![] },
        mode: md.mode() & 0o7777,
        mtime: (md.mtime(), md.mtime_nsec() as u32),
        ino: md.ino(),
    })
}

/// all entries below `root` (not `root` itself), not following symlinks, skipping `skip`
fn scan(root: &Path, skip: Option<&Path>) -> BTreeMap<PathBuf, St> {
    let mut m = BTreeMap::new();
    let mut stack = vec![root.to_path_buf()];
    while let Some(d) = stack.pop() {
        let Ok(rd) = fs::read_dir(&d) else { continue };
        for e in rd.flatten() {
            let p = e.path();
            if skip.is_some_and(|s| s == p) {
                continue;
            }
            if let Some(st) = stat(&p) {
                if st.kind == 'd' {
                    stack.push(p.clone());
                }
                let _ = m.insert(p.strip_prefix(root).unwrap().to_path_buf(), st);
            }
        }
    }
    m
}

fn lossy(p: &Path) -> String {
    p.to_string_lossy().into_owned()
}

// ------------------------------------------------------------------ repository helpers

fn config(chunk: u64) -> ConfigOptions {
    let c = small_pack_config(6_000, 2_000);
    if chunk == 0 {
        c
    } else {
        c.set_chunker(Chunker::FixedSize).set_chunk_size(bytesize::ByteSize(chunk))
    }
}

struct Outcome {
    outcome: &'static str, // ok | err | panic
    msg: String,
    to_packs_ok: bool,
    reads: usize,
}

fn ropts(delete: bool, verify: bool, sparse: bool, noown: bool) -> RestoreOptions {
    RestoreOptions::default()
        .delete(delete)
        .verify_existing(verify)
        .no_ownership(noown)
        .sparse(if sparse { Some(SparseRestore::ByContent) } else { None })
}

/// prepare_restore + restore of `snap_path` into `dest`, panics caught; also checks that the data
/// packs read while restoring are among RestorePlan::to_packs (C16 uses this).
fn do_restore(rec: &Arc<RecBackend>, key: &rustic_core::repofile::MasterKey, snap_path: &str, dest: &Path, o: RestoreOptions) -> Outcome {
    let r = catch_unwind(AssertUnwindSafe(|| -> Result<(bool, usize)> {
        let repo = open_repo(rec.clone(), None, key, &repo_opts())?.to_indexed()?;
        let node = repo.node_from_snapshot_path(snap_path, |_| true)?;
        let ls = repo.ls(&node, &LsOptions::default())?;
        let d = LocalDestination::new(dest.to_str().ok_or_else(|| anyhow!("utf8"))?, true, !node.is_dir())?;
        let plan = repo.prepare_restore(&o, ls.clone(), &d, false)?;
        let planned: BTreeSet<String> = plan.to_packs().iter().map(|p| p.to_hex().to_string()).collect();
        rec.set_plan(FaultPlan { record_reads: true, ..Default::default() });
        let _ = rec.take_log();
        let res = repo.restore(plan, &o, ls, &d);
        let log = rec.take_log();
        rec.set_plan(FaultPlan::default());
        let mut ok = true;
        let mut n = 0;
        for op in &log {
            if op.tpe == FileType::Pack && matches!(op.kind, OpKind::ReadPartial | OpKind::ReadFull) && !op.cacheable {
                n += 1;
                if !planned.contains(op.id.to_hex().as_str()) {
                    ok = false;
                }
            }
        }
        res?;
        Ok((ok, n))
    }));
    rec.set_plan(FaultPlan::default());
    match r {
        Ok(Ok((ok, n))) => Outcome { outcome: "ok", msg: String::new(), to_packs_ok: ok, reads: n },
        Ok(Err(e)) => Outcome { outcome: "err", msg: format!("{e:#}").chars().take(300).collect(), to_packs_ok: true, reads: 0 },
        Err(p) => {
            let m = p.downcast_ref::<String>().cloned().or_else(|| p.downcast_ref::<&str>().map(|s| (*s).to_string())).unwrap_or_default();
            Outcome { outcome: "panic", msg: m.chars().take(300).collect(), to_packs_ok: true, reads: 0 }
        }
    }
}

struct World {
    _tmp: tempfile::TempDir,
    w: PathBuf,
    target: PathBuf,
}

/// W/outer/target is the destination; sentinels next to and above it.
fn world() -> Result<World> {
    let tmp = tempfile::Builder::new().prefix("c14w").tempdir()?;
    let w = tmp.path().to_path_buf();
    let outer = w.join("outer");
    fs::create_dir_all(outer.join("sentinel_dir"))?;
    fs::write(w.join("sentinel_top"), b"top sentinel\n")?;
    fs::write(outer.join("sentinel_file"), b"sentinel next to the target\n")?;
    fs::write(outer.join("sentinel_dir").join("f"), b"inside sentinel dir\n")?;
    fs::create_dir_all(outer.join("target2"))?;
    fs::write(outer.join("target2").join("g"), b"sibling with the target's name as prefix\n")?;
    fs::create_dir_all(w.join("abs_victim_dir"))?;
    fs::write(w.join("abs_victim"), b"absolute victim\n")?;
    let target = outer.join("target");
    Ok(World { _tmp: tmp, w, target })
}

// ------------------------------------------------------------------ e2e mode

fn mutate_bytes(r: &mut SplitMix, b: &mut [u8]) {
    if b.is_empty() {
        return;
    }
    let k = 1 + r.below(3);
    for _ in 0..k {
        let i = r.below(b.len() as u64) as usize;
        let n = 1 + r.below(64) as usize;
        for x in b.iter_mut().skip(i).take(n) {
            *x = x.wrapping_add(1 + r.below(200) as u8);
        }
    }
}

fn lit(path: PathBuf, bytes: Vec<u8>, mode: u32, mtime: (i64, u32)) -> Entry {
    Entry { path, kind: Kind::File(Content::Literal(bytes)), mode, mtime }
}

/// destination entries derived from the snapshot entries; returns (entries, stale paths)
fn derive_dest(r: &mut SplitMix, snap: &[Entry], w: &World, destkind: u64) -> (Vec<Entry>, BTreeSet<PathBuf>) {
    let mut out: Vec<Entry> = Vec::new();
    let mut stale = BTreeSet::new();
    if destkind == 0 {
        return (out, stale);
    }
    let other_m = (1_400_000_000 + r.below(50_000_000) as i64, r.below(1_000_000_000) as u32);
    if destkind == 3 {
        // unrelated tree with the same naming scheme (clashing names of other types/contents)
        let tp = TreeParams { max_entries: 14, max_depth: 3, max_file: 9000, odd_names: false, symlinks: true, hardlinks: false };
        let mut r2 = SplitMix(r.next());
        out = gen_tree(&mut r2, &tp);
    } else {
        let mut dropped: Vec<PathBuf> = Vec::new();
        for e in snap {
            if dropped.iter().any(|d| e.path.starts_with(d)) {
                continue;
            }
            let m = if destkind == 1 { 0 } else { r.below(100) };
            match &e.kind {
                Kind::File(c) => {
                    let b = c.bytes();
                    match m {
                        0..=29 => out.push(lit(e.path.clone(), b, e.mode, e.mtime)),
                        30..=36 => {
                            // same size, same mtime, other content (outside the property's condition unless verify)
                            let mut b2 = b.clone();
                            mutate_bytes(r, &mut b2);
                            if b2 != b {
                                let _ = stale.insert(e.path.clone());
                            }
                            out.push(lit(e.path.clone(), b2, e.mode, e.mtime));
                        }
                        37..=46 => {
                            let mut b2 = b.clone();
                            mutate_bytes(r, &mut b2);
                            out.push(lit(e.path.clone(), b2, e.mode, other_m));
                        }
                        47..=54 => {
                            let n = if b.is_empty() { 0 } else { r.below(b.len() as u64) as usize };
                            let keep_m = r.below(3) == 0;
                            out.push(lit(e.path.clone(), b[..n].to_vec(), e.mode, if keep_m { e.mtime } else { other_m }));
                        }
                        55..=62 => {
                            let mut b2 = b.clone();
                            let extra = 1 + r.below(5000) as usize;
                            b2.extend(Content::Random { seed: r.next(), len: extra }.bytes());
                            let keep_m = r.below(3) == 0;
                            out.push(lit(e.path.clone(), b2, e.mode, if keep_m { e.mtime } else { other_m }));
                        }
                        63..=68 => {
                            out.push(Entry { path: e.path.clone(), kind: Kind::Dir, mode: 0o755, mtime: other_m });
                            out.push(lit(e.path.join("child"), b"child of a clashing dir".to_vec(), 0o644, other_m));
                        }
                        69..=74 => {
                            let t: Vec<u8> = match r.below(3) {
                                0 => b"nowhere".to_vec(),
                                1 => w.w.join("outer").join("sentinel_file").as_os_str().as_bytes().to_vec(),
                                _ => b"../sentinel_file".to_vec(),
                            };
                            out.push(Entry { path: e.path.clone(), kind: Kind::Symlink(t), mode: 0o777, mtime: other_m });
                        }
                        75..=82 => {}
                        83..=87 => out.push(lit(e.path.clone(), b, e.mode ^ 0o111, e.mtime)),
                        88..=93 => {
                            // same size, every byte non-zero, other mtime (zero blobs of the snapshot meet old data)
                            // ... of the same size, or longer / shorter (then no blob can match and the whole file
                            // is rewritten over the old bytes)
                            let n = match r.below(3) {
                                0 => b.len(),
                                1 => b.len() + 1 + r.below(3000) as usize,
                                _ => b.len() - b.len().min(1 + r.below(600) as usize),
                            };
                            out.push(lit(e.path.clone(), vec![0xAA; n], e.mode, other_m));
                        }
                        _ => out.push(lit(e.path.clone(), b, e.mode, other_m)),
                    }
                }
                Kind::Dir => match m {
                    0..=69 => out.push(e.clone()),
                    70..=76 => {
                        out.push(lit(e.path.clone(), b"file where the snapshot has a directory".to_vec(), 0o644, other_m));
                        dropped.push(e.path.clone());
                    }
                    77..=82 => {
                        let t: Vec<u8> = match r.below(2) {
                            0 => b"nowhere_dir".to_vec(),
                            _ => w.w.join("outer").join("sentinel_dir").as_os_str().as_bytes().to_vec(),
                        };
                        out.push(Entry { path: e.path.clone(), kind: Kind::Symlink(t), mode: 0o777, mtime: other_m });
                        dropped.push(e.path.clone());
                    }
                    83..=90 => dropped.push(e.path.clone()),
                    _ => out.push(Entry { path: e.path.clone(), kind: Kind::Dir, mode: 0o700, mtime: other_m }),
                },
                Kind::Symlink(t) => match m {
                    0..=49 => out.push(e.clone()),
                    50..=64 => out.push(Entry { path: e.path.clone(), kind: Kind::Symlink(b"other_target".to_vec()), mode: 0o777, mtime: other_m }),
                    65..=74 => out.push(lit(e.path.clone(), b"file where the snapshot has a symlink".to_vec(), 0o644, other_m)),
                    75..=84 => {
                        out.push(Entry { path: e.path.clone(), kind: Kind::Dir, mode: 0o755, mtime: other_m });
                        out.push(lit(e.path.join("child"), b"x".to_vec(), 0o644, other_m));
                    }
                    _ => {
                        let _ = t;
                    }
                },
                Kind::Hardlink(to) => match m {
                    0..=59 => {
                        // keep as a hard link when the link source is still an identical-kind file in the destination
                        if out.iter().any(|x| &x.path == to && matches!(x.kind, Kind::File(_))) {
                            out.push(e.clone());
                        }
                    }
                    60..=79 => {
                        // independent copy of the content
                        if let Some(Entry { kind: Kind::File(c), .. }) = snap.iter().find(|x| &x.path == to) {
                            out.push(lit(e.path.clone(), c.bytes(), e.mode, other_m));
                        }
                    }
                    _ => {}
                },
            }
        }
    }
    // extra entries
    let dirs: Vec<PathBuf> = std::iter::once(PathBuf::new())
        .chain(out.iter().filter(|e| matches!(e.kind, Kind::Dir)).map(|e| e.path.clone()))
        .collect();
    let nx = r.below(4);
    for i in 0..nx {
        let d = dirs[r.below(dirs.len() as u64) as usize].clone();
        // names sorting before, between and after the snapshot's "e<i>" names
        let nm = match r.below(3) {
            0 => format!("a_extra{i}"),
            1 => format!("e{}x", r.below(20)),
            _ => format!("x_extra{i}"),
        };
        let p = d.join(nm);
        if out.iter().any(|e| e.path == p) || snap.iter().any(|e| e.path == p) {
            continue;
        }
        match r.below(4) {
            0 => {
                out.push(Entry { path: p.clone(), kind: Kind::Dir, mode: 0o750, mtime: other_m });
                out.push(lit(p.join("in_extra_dir"), b"inside an extra dir".to_vec(), 0o600, other_m));
            }
            1 => out.push(Entry { path: p, kind: Kind::Symlink(b"extra_target".to_vec()), mode: 0o777, mtime: other_m }),
            _ => out.push(lit(p, Content::Random { seed: r.next(), len: r.below(3000) as usize }.bytes(), 0o640, other_m)),
        }
    }
    (out, stale)
}

/// clusters: dir `x` (with children) and siblings `x-y`, `x.z`, `x y`, `x!`, `x0` as files or dirs,
/// at the root, inside a random directory and inside a cluster's own `x`
fn add_clusters(r: &mut SplitMix, entries: &mut Vec<Entry>, cluster_dirs: &mut Vec<PathBuf>) {
    let mut parents: Vec<PathBuf> = vec![PathBuf::new()];
    let dirs: Vec<PathBuf> = entries.iter().filter(|e| matches!(e.kind, Kind::Dir)).map(|e| e.path.clone()).collect();
    if !dirs.is_empty() {
        parents.push(dirs[r.below(dirs.len() as u64) as usize].clone());
    }
    let mut i = 0;
    while i < parents.len() && i < 4 {
        let par = parents[i].clone();
        i += 1;
        let base = ["x", "a", "e1"][r.below(3) as usize];
        let x = par.join(base);
        if entries.iter().any(|e| e.path == x) {
            continue;
        }
        let m = (1_500_000_000 + r.below(100_000_000) as i64, r.below(1_000_000_000) as u32);
        entries.push(Entry { path: x.clone(), kind: Kind::Dir, mode: 0o755, mtime: m });
        for c in 0..r.below(3) {
            entries.push(lit(x.join(format!("c{c}")), Content::Random { seed: r.next(), len: r.below(3000) as usize }.bytes(), 0o644, m));
        }
        cluster_dirs.push(x.clone());
        if r.below(3) == 0 {
            parents.push(x.clone()); // a nested cluster
        }
        for suf in ["-y", ".z", " y", "!", "0", "+w", ",v"] {
            if r.below(3) == 0 {
                continue;
            }
            let sp = par.join(format!("{base}{suf}"));
            if entries.iter().any(|e| e.path == sp) {
                continue;
            }
            if r.below(2) == 0 {
                entries.push(Entry { path: sp.clone(), kind: Kind::Dir, mode: 0o755, mtime: m });
                for c in 0..1 + r.below(2) {
                    entries.push(lit(sp.join(format!("f{c}")), Content::Random { seed: r.next(), len: 1 + r.below(2000) as usize }.bytes(), 0o600, m));
                }
            } else {
                entries.push(lit(sp, Content::Random { seed: r.next(), len: 1 + r.below(2000) as usize }.bytes(), 0o644, m));
            }
        }
    }
}

fn kind_of(m: &BTreeMap<PathBuf, St>, p: &Path) -> String {
    m.get(p).map_or("-".to_string(), |s| s.kind.to_string())
}

fn e2e_case(t: &mut Toks) -> Result<Value> {
    let seed = t.u();
    let (delete, verify, sparse, noown) = (t.u() == 1, t.u() == 1, t.u() == 1, t.u() == 1);
    let destkind = t.u();
    let chunk = t.u();
    let hardlinks = t.u() == 1;
    // optional 9th token: 1 = add clusters of sibling names around a directory `x`
    // (`x-y`, `x.z`, `x y`, `x!` sort after `x/...` as paths but before it as strings; `x0` after both)
    let shape = t.opt_s().is_some_and(|x| x == "1");
    let mut r = SplitMix(seed.wrapping_mul(0x9E37_79B9).wrapping_add(17));
    let tp = TreeParams { max_entries: if shape { 8 } else { 18 }, max_depth: 3, max_file: 12_000, odd_names: r.below(4) == 0, symlinks: true, hardlinks };
    let mut entries = gen_tree(&mut r, &tp);
    let mut cluster_dirs: Vec<PathBuf> = Vec::new();
    if shape {
        add_clusters(&mut r, &mut entries, &mut cluster_dirs);
    }
    let srcdir = tempfile::Builder::new().prefix("c14s").tempdir()?;
    materialize(srcdir.path(), &entries)?;
    let src = scan(srcdir.path(), None);
    // repository
    let store = mem();
    let rec = RecBackend::new(store, "main");
    let (repo, key) = init_repo(rec.clone(), None, &config(chunk), &repo_opts())?;
    let (_repo, snap) = backup_dir(repo, srcdir.path(), "src", None)?;
    // destination
    let w = world()?;
    let (mut dest_entries, stale) = derive_dest(&mut r, &entries, &w, destkind);
    if destkind != 0 {
        // an extra entry inside every cluster directory that still is a directory in the destination,
        // sorting after all snapshot children (what makes a string-wise merge fall out of step)
        for d in &cluster_dirs {
            if dest_entries.iter().any(|e| &e.path == d && matches!(e.kind, Kind::Dir)) {
                let p = d.join("zz_extra");
                if !dest_entries.iter().any(|e| e.path == p) {
                    dest_entries.push(lit(p, b"extra inside the cluster dir".to_vec(), 0o640, (1_450_000_000, 7)));
                }
            }
        }
        materialize(&w.target, &dest_entries)?;
    }
    let pre = scan(&w.target, None);
    let outside_pre = scan(&w.w, Some(&w.target));
    let o = ropts(delete, verify, sparse, noown);
    let out = do_restore(&rec, &key, &format!("{}:src", snap.id.to_hex().as_str()), &w.target, o);
    let post = scan(&w.target, None);
    let outside_post = scan(&w.w, Some(&w.target));

    // ---- the oracle: the property, path by path
    // the property's exclusion: an existing file with the snapshot's size and mtime but other bytes
    // (only when verify_existing is off); hard links of the snapshot share its fate
    let stale_scan = |p: &Path| -> bool {
        match (pre.get(p), src.get(p)) {
            (Some(a), Some(b)) => a.kind == 'f' && b.kind == 'f' && a.bytes.len() == b.bytes.len() && a.mtime == b.mtime && a.bytes != b.bytes,
            _ => false,
        }
    };
    let group = |p: &Path| -> Vec<PathBuf> {
        match src.get(p) {
            Some(s) if s.kind == 'f' => src.iter().filter(|(_, x)| x.kind == 'f' && x.ino == s.ino).map(|(q, _)| q.clone()).collect(),
            _ => vec![p.to_path_buf()],
        }
    };
    let mut diffs: Vec<Value> = Vec::new();
    let mut add = |p: &Path, what: &str, detail: String| {
        // nearest ancestor-or-self that existed before with a type different from the snapshot's
        let mut clash: Option<String> = None;
        // ... of the path itself or of a path the snapshot hard-links it with
        for g in group(p) {
            let mut cur = Some(g.as_path());
            while let Some(c) = cur {
                if c.as_os_str().is_empty() {
                    break;
                }
                if let (Some(a), Some(b)) = (pre.get(c), src.get(c)) {
                    if a.kind != b.kind {
                        clash = Some(format!("{}:{}>{}", lossy(c), a.kind, b.kind));
                    }
                }
                cur = c.parent();
            }
        }
        diffs.push(json!({"p": lossy(p), "what": what, "detail": detail, "pre": kind_of(&pre, p), "snap": kind_of(&src, p),
            "post": kind_of(&post, p), "clash": clash,
            "pre_same_target": pre.get(p).zip(src.get(p)).map(|(a, b)| a.target == b.target),
            "snap_nlink_gt1": src.get(p).is_some_and(|s| s.kind == 'f' && src.values().filter(|x| x.kind == 'f' && x.ino == s.ino).count() > 1),
            "snap_has_zero_run": src.get(p).is_some_and(|s| s.kind == 'f' && has_zero_run(&s.bytes, if chunk == 0 { 512 } else { chunk as usize })),
            // the restored file differs from the snapshot only where the snapshot has zero bytes (and has its length)
            "only_where_snap_zero": src.get(p).zip(post.get(p)).is_some_and(|(s, q)| s.kind == 'f' && q.kind == 'f' && s.bytes.len() == q.bytes.len()
                && s.bytes.iter().zip(q.bytes.iter()).all(|(a, b)| a == b || *a == 0)),
        }));
    };
    for (p, s) in &src {
        match post.get(p) {
            None => add(p, "snapshot-path-missing", String::new()),
            Some(q) => {
                if q.kind != s.kind {
                    add(p, "snapshot-path-type", format!("{} instead of {}", q.kind, s.kind));
                    continue;
                }
                let unconstrained = !verify && (stale.contains(p) || group(p).iter().any(|g| stale_scan(g)));
                if s.kind == 'f' && q.bytes != s.bytes && !unconstrained {
                    let first = q.bytes.iter().zip(s.bytes.iter()).position(|(a, b)| a != b).unwrap_or(q.bytes.len().min(s.bytes.len()));
                    add(p, "snapshot-path-content", format!("{} vs {} bytes, first difference at {}", q.bytes.len(), s.bytes.len(), first));
                }
                if s.kind == 'l' && q.target != s.target {
                    add(p, "snapshot-path-target", String::new());
                }
                if s.kind != 'l' && q.mode != s.mode {
                    add(p, "snapshot-path-mode", format!("{:o} vs {:o}", q.mode, s.mode));
                }
                if s.kind != 'l' && q.mtime != s.mtime {
                    add(p, "snapshot-path-mtime", format!("{:?} vs {:?}", q.mtime, s.mtime));
                }
            }
        }
    }
    // hard links of the snapshot are hard links afterwards
    for (p, s) in &src {
        if s.kind != 'f' {
            continue;
        }
        for (p2, s2) in &src {
            if p2 > p && s2.kind == 'f' && s2.ino == s.ino {
                if let (Some(a), Some(b)) = (post.get(p), post.get(p2)) {
                    if a.ino != b.ino {
                        add(p2, "snapshot-hardlink-not-linked", lossy(p));
                    }
                }
            }
        }
    }
    for (p, a) in &pre {
        if src.contains_key(p) {
            continue;
        }
        match post.get(p) {
            None => {
                if !delete {
                    add(p, "extra-removed-without-delete", String::new());
                }
            }
            Some(q) => {
                if delete {
                    add(p, "extra-kept-with-delete", String::new());
                } else if q.kind != a.kind || q.bytes != a.bytes || q.target != a.target || (a.kind != 'l' && (q.mode != a.mode || q.mtime != a.mtime)) {
                    // an extra directory's own mtime changes legitimately only if something below it changed, which must not happen
                    add(p, "extra-modified", format!("{:?}/{:o} vs {:?}/{:o}", q.mtime, q.mode, a.mtime, a.mode));
                }
            }
        }
    }
    for p in post.keys() {
        if !src.contains_key(p) && !pre.contains_key(p) {
            add(p, "unexpected-entry", String::new());
        }
    }
    let mut outside: Vec<Value> = Vec::new();
    for (p, a) in &outside_pre {
        match outside_post.get(p) {
            None => outside.push(json!({"p": lossy(p), "what": "outside-removed"})),
            Some(q) => {
                // the directory `outer` holds the target: its mtime changes when the target is created
                let is_parent_of_target = p == Path::new("outer");
                if q.kind != a.kind || q.bytes != a.bytes || q.target != a.target || q.mode != a.mode || (q.mtime != a.mtime && !is_parent_of_target) {
                    outside.push(json!({"p": lossy(p), "what": "outside-modified"}));
                }
            }
        }
    }
    for p in outside_post.keys() {
        if !outside_pre.contains_key(p) {
            outside.push(json!({"p": lossy(p), "what": "outside-created"}));
        }
    }
    let pre_clash: Vec<String> = pre.iter().filter_map(|(p, a)| src.get(p).filter(|b| b.kind != a.kind).map(|b| format!("{}:{}>{}", lossy(p), a.kind, b.kind))).collect();
    let pre_symlink_other: usize = pre.iter().filter(|(p, a)| a.kind == 'l' && src.get(*p).is_some_and(|b| b.kind == 'l' && b.target != a.target)).count();
    let nfiles = src.values().filter(|s| s.kind == 'f').count();
    let n_existing_files = src.iter().filter(|(p, s)| s.kind == 'f' && pre.get(*p).is_some_and(|a| a.kind == 'f')).count();
    let n_extras = pre.keys().filter(|p| !src.contains_key(*p)).count();
    Ok(json!({"mode": "e2e", "outcome": out.outcome, "msg": out.msg, "to_packs_ok": out.to_packs_ok, "pack_reads": out.reads,
        "nsnap": src.len(), "nfiles": nfiles, "npre": pre.len(), "existing_files": n_existing_files, "extras": n_extras,
        "stale": stale.len(), "pre_clash": pre_clash, "pre_symlink_other": pre_symlink_other,
        "diffs": diffs, "outside": outside}))
}

fn has_zero_run(b: &[u8], n: usize) -> bool {
    let mut run = 0;
    for x in b {
        if *x == 0 {
            run += 1;
            if run >= n {
                return true;
            }
        } else {
            run = 0;
        }
    }
    false
}

// ------------------------------------------------------------------ hostile names

/// Source: top (file), d/inner (file), lnk (symlink).  `edit` renames one node of the tree of `src`
/// to a hostile stored name; the crafted tree is saved through the hook and restored into a
/// directory surrounded by sentinels.
fn hostile_run(delete: bool, edit: impl FnOnce(&mut Tree, &World) -> Result<(String, Vec<PathBuf>)>) -> Result<Value> {
    let srcdir = tempfile::Builder::new().prefix("c14s").tempdir()?;
    let m = (1_600_000_000, 5);
    let entries = vec![
        Entry { path: "d".into(), kind: Kind::Dir, mode: 0o755, mtime: m },
        lit("d/inner".into(), b"inner payload written by restore\n".to_vec(), 0o644, m),
        Entry { path: "lnk".into(), kind: Kind::Symlink(b"link-payload".to_vec()), mode: 0o777, mtime: m },
        lit("top".into(), b"top payload written by restore\n".to_vec(), 0o644, m),
    ];
    materialize(srcdir.path(), &entries)?;
    let store = mem();
    let rec = RecBackend::new(store, "main");
    let (repo, key) = init_repo(rec.clone(), None, &config(0), &repo_opts())?;
    let (repo, snap) = backup_dir(repo, srcdir.path(), "src", None)?;
    let w = world()?;
    // load the trees of the snapshot
    let repo = repo.to_indexed()?;
    let root: Tree = repo.get_tree(&snap.tree)?;
    let srcnode: Node = root.nodes.iter().find(|n| n.name == "src").cloned().ok_or_else(|| anyhow!("no src node"))?;
    let mut srctree: Tree = repo.get_tree(&srcnode.subtree.ok_or_else(|| anyhow!("no subtree"))?)?;
    let (desc, expect_outside) = edit(&mut srctree, &w)?;
    let stored: Vec<String> = srctree.nodes.iter().map(|n| n.name.clone()).collect();
    let ids = save_trees(&repo, std::slice::from_ref(&srctree))?;
    let mut roottree = root.clone();
    let j = find_node(&roottree, "src")?;
    roottree.nodes[j].subtree = Some(ids[0]);
    let ids2 = save_trees(&repo, std::slice::from_ref(&roottree))?;
    let hsnap: SnapshotFile = snapshot_for_tree(&repo, ids2[0])?;
    drop(repo);
    fs::create_dir_all(&w.target)?;
    fs::write(w.target.join("old_extra"), b"already in the target\n")?;
    let outside_pre = scan(&w.w, Some(&w.target));
    let out = do_restore(&rec, &key, &format!("{}:src", hsnap.id.to_hex().as_str()), &w.target, ropts(delete, false, false, true));
    let outside_post = scan(&w.w, Some(&w.target));
    let mut outside: Vec<Value> = Vec::new();
    for (p, a) in &outside_pre {
        match outside_post.get(p) {
            None => outside.push(json!({"p": lossy(p), "what": "outside-removed"})),
            Some(q) => {
                let dir_mtime_only = a.kind == 'd' && q.kind == 'd' && q.mode == a.mode;
                if q.kind != a.kind || q.bytes != a.bytes || q.target != a.target || q.mode != a.mode || (q.mtime != a.mtime && !dir_mtime_only) {
                    outside.push(json!({"p": lossy(p), "what": "outside-modified"}));
                } else if q.mtime != a.mtime && p != Path::new("outer") {
                    outside.push(json!({"p": lossy(p), "what": "outside-dir-mtime"}));
                }
            }
        }
    }
    for p in outside_post.keys() {
        if !outside_pre.contains_key(p) {
            outside.push(json!({"p": lossy(p), "what": "outside-created"}));
        }
    }
    let inside: Vec<String> = scan(&w.target, None).keys().map(|p| lossy(p)).collect();
    Ok(json!({"mode": "hostile", "desc": desc, "stored_names": stored, "delete": delete, "outcome": out.outcome, "msg": out.msg,
        "outside": outside, "expected_outside_if_unconfined": expect_outside.iter().map(|p| lossy(p)).collect::<Vec<_>>(), "inside": inside}))
}

fn find_node(tr: &Tree, n: &str) -> Result<usize> {
    tr.nodes.iter().position(|x| x.name == n).ok_or_else(|| anyhow!("node {n}"))
}

fn hostile_case(t: &mut Toks) -> Result<Value> {
    let variant = t.u();
    let delete = t.u() == 1;
    let mut v = hostile_run(delete, |srctree, w| {
        let abs_victim = w.w.join("abs_victim");
        let abs_new = w.w.join("abs_created");
        let esc = |s: &[u8]| -> String { String::from_utf8_lossy(s).into_owned() };
        let find = find_node;
        let (desc, expect_outside): (&str, Vec<PathBuf>) = match variant {
            0 => {
                let i = find(srctree, "top")?;
                srctree.nodes[i].name = "../escaped_file".into();
                ("file node named ../escaped_file", vec!["outer/escaped_file".into()])
            }
            1 => {
                let i = find(srctree, "d")?;
                srctree.nodes[i].name = "..".into();
                ("dir node named .. with a file child", vec!["outer/inner".into()])
            }
            2 => {
                let i = find(srctree, "top")?;
                srctree.nodes[i].name = esc(abs_new.as_os_str().as_bytes());
                ("file node with an absolute name (new file)", vec!["abs_created".into()])
            }
            3 => {
                let i = find(srctree, "top")?;
                srctree.nodes[i].name = esc(abs_victim.as_os_str().as_bytes());
                ("file node with the absolute name of an existing file", vec!["abs_victim".into()])
            }
            4 => {
                let i = find(srctree, "top")?;
                srctree.nodes[i].name = "../sentinel_file".into();
                ("file node named ../sentinel_file (existing sentinel)", vec!["outer/sentinel_file".into()])
            }
            5 => {
                let i = find(srctree, "lnk")?;
                srctree.nodes[i].name = "../escaped_link".into();
                ("symlink node named ../escaped_link", vec!["outer/escaped_link".into()])
            }
            6 => {
                let i = find(srctree, "top")?;
                srctree.nodes[i].name = "sub/deeper/file".into();
                ("file node named sub/deeper/file (separators, stays inside)", vec![])
            }
            7 => {
                let i = find(srctree, "d")?;
                srctree.nodes[i].name = esc(w.w.join("abs_victim_dir").as_os_str().as_bytes());
                ("dir node with the absolute name of an existing outside dir", vec!["abs_victim_dir/inner".into()])
            }
            8 => {
                let i = find(srctree, "top")?;
                srctree.nodes[i].name = "d/../../escaped_via_subdir".into();
                ("file node named d/../../escaped_via_subdir", vec!["outer/escaped_via_subdir".into()])
            }
            _ => ("unchanged tree (control)", vec![]),
        };
        Ok((desc.to_string(), expect_outside))
    })?;
    v["variant"] = json!(variant);
    v["hostile_name"] = json!(variant != 9);
    Ok(v)
}

/// stored spelling of an unescaped hostile name: the bytes `.` and `/` written as escapes
fn spell(name: &[u8], spelling: u64) -> String {
    let mut out = String::new();
    let mut k = 0;
    for &b in name {
        let hostile = b == b'.' || b == b'/';
        let escape = hostile
            && match spelling {
                0 | 1 | 2 => true,
                3 => {
                    k += 1;
                    k % 2 == 0 // every second hostile byte, the first stays literal
                }
                _ => b == b'/',
            };
        if escape {
            match spelling {
                1 => out.push_str(&format!("\\u{b:04x}")),
                2 => out.push_str(&format!("\\U{b:08x}")),
                _ => out.push_str(&format!("\\x{b:02x}")),
            }
        } else {
            out.push(b as char);
        }
    }
    out
}

fn hostile2_case(t: &mut Toks) -> Result<Value> {
    let kind = t.u();
    let name_id = t.u();
    let spelling = t.u();
    let delete = t.u() == 1;
    let mut v = hostile_run(delete, |srctree, w| {
        let node = ["top", "d", "lnk"][(kind % 3) as usize];
        let wp = |x: &str| w.w.join(x).as_os_str().as_bytes().to_vec();
        let (plain, expect): (Vec<u8>, Vec<PathBuf>) = match name_id {
            0 => (b"..".to_vec(), if kind == 1 { vec!["outer/inner".into()] } else { vec![] }),
            1 => (b"../escaped_x".to_vec(), vec!["outer/escaped_x".into()]),
            2 => (wp("abs_created"), vec!["abs_created".into()]),
            3 => (wp(if kind == 1 { "abs_victim_dir" } else { "abs_victim" }), vec![if kind == 1 { "abs_victim_dir/inner".into() } else { "abs_victim".into() }]),
            4 => (b"sub/deeper".to_vec(), vec![]),
            5 => (b".".to_vec(), vec![]),
            6 => (b"d/../../escaped_via_subdir".to_vec(), vec!["outer/escaped_via_subdir".into()]),
            7 => (b"../sentinel_file".to_vec(), vec!["outer/sentinel_file".into()]),
            _ => (b"./../escaped_dot".to_vec(), vec!["outer/escaped_dot".into()]),
        };
        let stored = spell(&plain, spelling);
        let i = find_node(srctree, node)?;
        srctree.nodes[i].name = stored.clone();
        Ok((format!("{} node, stored name `{}` = `{}` unescaped", ["file", "dir", "symlink"][(kind % 3) as usize], stored, String::from_utf8_lossy(&plain)), expect))
    })?;
    v["variant"] = json!(format!("{kind}/{name_id}/{spelling}"));
    v["hostile_name"] = json!(true);
    Ok(v)
}

// ------------------------------------------------------------------ model correspondence
//
// tokens:  delete verify sparse chunk  NS {snapshot entry}*  ND {dest entry}*
//   entry: depth(k) name_1..name_k kind  [f: mtime mode len byte*] [d: mtime mode] [l: target]
//   names are numbers n -> "n%04d" (order preserved); mtime in seconds; mode octal digits as decimal number
// output: outcome + final state of the destination in the same canonical form

/// names of the model cases, sorted bytewise (order of numbers = order of names): a directory
/// `x` and siblings whose next byte is below '/', plus one above it
const NAME_TABLE: [&str; 8] = ["a", "x", "x y", "x!", "x-y", "x.z", "x0", "z"];
fn name_of(n: u64) -> String {
    NAME_TABLE.get(n as usize).map_or_else(|| format!("zz{n:04}"), |s| (*s).to_string())
}
fn number_of(s: &str) -> String {
    NAME_TABLE.iter().position(|x| *x == s).map_or_else(|| s.replace(' ', "_"), |i| i.to_string())
}

fn rd_entries(t: &mut Toks) -> Vec<Entry> {
    let n = t.u();
    let mut v = Vec::new();
    for _ in 0..n {
        let k = t.u();
        let mut p = PathBuf::new();
        for _ in 0..k {
            p.push(name_of(t.u()));
        }
        match t.s() {
            "f" => {
                let mtime = t.i();
                let mode = t.u() as u32;
                let len = t.u();
                let b: Vec<u8> = (0..len).map(|_| t.u() as u8).collect();
                v.push(lit(p, b, mode, (mtime, 0)));
            }
            "d" => {
                let mtime = t.i();
                let mode = t.u() as u32;
                v.push(Entry { path: p, kind: Kind::Dir, mode, mtime: (mtime, 0) });
            }
            _ => {
                let tg = t.u();
                v.push(Entry { path: p, kind: Kind::Symlink(format!("t{tg}").into_bytes()), mode: 0o777, mtime: (0, 0) });
            }
        }
    }
    v
}

fn canon_state(m: &BTreeMap<PathBuf, St>) -> String {
    let mut parts = Vec::new();
    for (p, s) in m {
        let comps: Vec<String> = p.components().map(|c| number_of(&c.as_os_str().to_string_lossy())).collect();
        let path = comps.join("/");
        match s.kind {
            'f' => parts.push(format!("{path}:f:{}:{:o}:{}", s.mtime.0, s.mode, s.bytes.iter().map(|b| b.to_string()).collect::<Vec<_>>().join(","))),
            'd' => parts.push(format!("{path}:d:{}:{:o}", s.mtime.0, s.mode)),
            'l' => parts.push(format!("{path}:l:{}", String::from_utf8_lossy(&s.target).trim_start_matches('t'))),
            _ => parts.push(format!("{path}:o")),
        }
    }
    parts.join(" ")
}

fn model_case(t: &mut Toks) -> Result<Value> {
    let (delete, verify, sparse) = (t.u() == 1, t.u() == 1, t.u() == 1);
    let chunk = t.u();
    let snap_entries = rd_entries(t);
    let dest_entries = rd_entries(t);
    let srcdir = tempfile::Builder::new().prefix("c14s").tempdir()?;
    materialize(srcdir.path(), &snap_entries)?;
    let store = mem();
    let rec = RecBackend::new(store, "main");
    let (repo, key) = init_repo(rec.clone(), None, &config(chunk), &repo_opts())?;
    let (_repo, snap) = backup_dir(repo, srcdir.path(), "src", None)?;
    let w = world()?;
    fs::create_dir_all(&w.target)?;
    materialize(&w.target, &dest_entries)?;
    let out = do_restore(&rec, &key, &format!("{}:src", snap.id.to_hex().as_str()), &w.target, ropts(delete, verify, sparse, true));
    let post = scan(&w.target, None);
    Ok(json!({"mode": "model", "outcome": out.outcome, "msg": out.msg, "state": canon_state(&post), "to_packs_ok": out.to_packs_ok}))
}

fn main() {
    std::panic::set_hook(Box::new(|_| {}));
    let args: Vec<String> = std::env::args().collect();
    let rd: Box<dyn BufRead> = if args.len() > 1 && args[1] != "-" {
        Box::new(std::io::BufReader::new(fs::File::open(&args[1]).expect("open cases")))
    } else {
        Box::new(std::io::BufReader::new(std::io::stdin()))
    };
    for line in rd.lines() {
        let line = line.expect("read");
        if line.trim().is_empty() {
            continue;
        }
        let mut t = Toks::new(&line);
        let mode = t.s().to_string();
        let r = catch_unwind(AssertUnwindSafe(|| match mode.as_str() {
            "e2e" => e2e_case(&mut t),
            "hostile" => hostile_case(&mut t),
            "hostile2" => hostile2_case(&mut t),
            "model" => model_case(&mut t),
            _ => Err(anyhow!("unknown mode")),
        }));
        let v = match r {
            Ok(Ok(v)) => v,
            Ok(Err(e)) => json!({"mode": mode, "outcome": "harness-error", "msg": format!("{e:#}")}),
            Err(_) => json!({"mode": mode, "outcome": "harness-panic"}),
        };
        println!("{v}");
    }
    let _ = OsString::from_vec(vec![]);
}
