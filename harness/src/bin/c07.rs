//! C07: identical content is stored once; unchanged data adds nothing.
//! A case is a seeded source tree plus an EDIT SCRIPT; after every step of the script the
//! tree is backed up through a fresh `Repository` handle (index reloaded) over a recording
//! backend, and everything the property talks about is printed: the loaded typed index, the
//! item stream of the new snapshot (names, metadata digests, chunk ids and lengths, tree
//! ids), the packs written (write order, typed blob ids), the summary counters, the
//! resolved edits.  The harness only observes; prediction and oracle are in check.py / Coq.
//!
//! Case line (all integers):
//!   <seed> <nfiles> <maxfile> <datapack> <treepack> <nsteps> { <nops> { <op> <a> <b> <c> <d> }* <force> }*
//! ops: 0 nop | 1 insert(file a, off b, len c, seed d) | 2 delete(a, off b, len c) | 3 overwrite(a, off b, len c, seed d)
//!      4 prepend(a, len c, seed d) | 5 append(a, len c, seed d) | 6 duplicate(a) | 7 rename/move(a, dir b)
//!      8 remove(a) | 9 new file(len c, seed d, kind b) | 10 file `{"nodes":[]}\n` | 11 empty directory
//!      12 file whose bytes are a tree blob of the previous snapshot (b-th tree) | 13 ~c filler files of 1..40 bytes
//!      14 duplicate the most recently added file
//! Output: `ok | B<k> key=val .. G n (t id)* I (N name meta | E tid | O name meta n (id len)*)* P t n id* .. X kind name off removed inserted .. | ...`
use std::collections::BTreeMap;
use std::fs;
use std::path::{Path, PathBuf};
use std::sync::Arc;

use rustic_core::repofile::{IndexFile, MasterKey};
use rustic_core::{BackupOptions, ConfigOptions, FileType, LsOptions, ParentOptions, ReadBackend};
use sha2::{Digest, Sha256};
use verif_harness::e2e::*;
use verif_harness::*;

const DIRS: [&str; 5] = ["", "a", "a/b", "c", "c/d/e"];

struct World {
    root: PathBuf,
    /// live files: (name, dir index)
    files: Vec<(String, usize)>,
    next: usize,
    dense: BTreeMap<String, usize>,
    /// hex ids of the tree blobs of the previous snapshot
    last_trees: Vec<String>,
}

impl World {
    fn path(&self, i: usize) -> PathBuf {
        let (n, d) = &self.files[i];
        self.root.join(DIRS[*d]).join(n)
    }
    fn dense(&mut self, hex: &str) -> usize {
        let n = self.dense.len() + 1;
        *self.dense.entry(hex.to_string()).or_insert(n)
    }
    fn fresh(&mut self, prefix: &str) -> String {
        self.next += 1;
        format!("{prefix}{}", self.next)
    }
}

fn rnd(seed: u64, len: usize) -> Vec<u8> {
    Content::Random { seed, len }.bytes()
}

/// first letter of a file name = kind of its content: r random, z zeros, p periodic, x other
fn gen_content(r: &mut SplitMix, maxfile: usize) -> (char, Vec<u8>) {
    let len = match r.below(10) {
        0 => 0,
        1 => r.below(100) as usize,
        2 | 3 => r.below(20_000) as usize,
        _ => maxfile / 4 + r.below((maxfile - maxfile / 4).max(1) as u64) as usize,
    };
    match r.below(10) {
        0 => ('z', Content::Zero { len }.bytes()),
        1 => ('p', Content::Periodic { seed: r.next(), period: 1 + r.below(5000) as usize, len }.bytes()),
        _ => ('r', Content::Random { seed: r.next(), len }.bytes()),
    }
}

fn write_file(p: &Path, b: &[u8]) {
    if let Some(d) = p.parent() {
        fs::create_dir_all(d).unwrap();
    }
    fs::write(p, b).unwrap();
}

/// apply one op; returns the resolved edit for the report
fn apply_op(w: &mut World, op: u64, a: u64, b: u64, c: u64, d: u64, repo_blob: &dyn Fn(&str) -> Option<Vec<u8>>) -> Option<String> {
    let nf = w.files.len();
    let pick = |a: u64| (a as usize) % nf.max(1);
    match op {
        1..=5 if nf > 0 => {
            let i = pick(a);
            let p = w.path(i);
            let old = fs::read(&p).unwrap();
            let (off, rem, ins): (usize, usize, Vec<u8>) = match op {
                1 => ((b as usize) % (old.len() + 1), 0, rnd(d, c as usize)),
                2 => {
                    let off = (b as usize) % (old.len() + 1);
                    (off, (c as usize).min(old.len() - off), Vec::new())
                }
                3 => {
                    let off = (b as usize) % (old.len() + 1);
                    let l = (c as usize).min(old.len() - off);
                    (off, l, rnd(d, l))
                }
                4 => (0, 0, rnd(d, c as usize)),
                _ => (old.len(), 0, rnd(d, c as usize)),
            };
            let mut new = Vec::with_capacity(old.len() + ins.len());
            new.extend_from_slice(&old[..off]);
            new.extend_from_slice(&ins);
            new.extend_from_slice(&old[off + rem..]);
            write_file(&p, &new);
            Some(format!("X {op} {} {off} {rem} {} {}", w.files[i].0, ins.len(), old.len()))
        }
        6 | 14 if nf > 0 => {
            // 14: duplicate the most recently added file (identical content inside ONE backup)
            let i = if op == 14 { nf - 1 } else { pick(a) };
            let kind = w.files[i].0.chars().next().unwrap_or('x');
            let name = w.fresh(&format!("{kind}dup"));
            let dir = (b as usize) % DIRS.len();
            let bytes = fs::read(w.path(i)).unwrap();
            w.files.push((name.clone(), dir));
            write_file(&w.path(nf), &bytes);
            Some(format!("X 6 {} 0 0 0 {} {name}", w.files[i].0, bytes.len()))
        }
        7 if nf > 0 => {
            let i = pick(a);
            let from = w.path(i);
            let old = w.files[i].0.clone();
            let name = w.fresh(&format!("{}mv", old.chars().next().unwrap_or('x')));
            w.files[i] = (name.clone(), (b as usize) % DIRS.len());
            let to = w.path(i);
            fs::create_dir_all(to.parent().unwrap()).unwrap();
            fs::rename(from, to).unwrap();
            Some(format!("X 7 {old} 0 0 0 0 {name}"))
        }
        8 if nf > 0 => {
            let i = pick(a);
            fs::remove_file(w.path(i)).unwrap();
            let (n, _) = w.files.remove(i);
            Some(format!("X 8 {n} 0 0 0 0"))
        }
        9 => {
            let name = w.fresh(["rnew", "znew", "pnew"][(b % 3) as usize]);
            let bytes = match b % 3 {
                0 => rnd(d, c as usize),
                1 => vec![0u8; c as usize],
                _ => Content::Periodic { seed: d, period: 1 + (d % 3000) as usize, len: c as usize }.bytes(),
            };
            w.files.push((name.clone(), (a as usize) % DIRS.len()));
            write_file(&w.path(nf), &bytes);
            Some(format!("X 9 {name} 0 0 {} 0", bytes.len()))
        }
        10 => {
            let name = w.fresh("xcol");
            w.files.push((name.clone(), (a as usize) % DIRS.len()));
            write_file(&w.path(nf), b"{\"nodes\":[]}\n");
            Some(format!("X 10 {name} 0 0 13 0"))
        }
        11 => {
            let name = w.fresh("xemptydir");
            fs::create_dir_all(w.root.join(DIRS[(a as usize) % DIRS.len()]).join(&name)).unwrap();
            Some(format!("X 11 {name} 0 0 0 0"))
        }
        12 if !w.last_trees.is_empty() => {
            let hex = w.last_trees[(b as usize) % w.last_trees.len()].clone();
            let bytes = repo_blob(&hex)?;
            // only when the file is a single chunk (shorter than the minimal chunk size)
            if bytes.len() >= 4096 {
                return None;
            }
            let name = w.fresh("xastree");
            w.files.push((name.clone(), (a as usize) % DIRS.len()));
            write_file(&w.path(nf), &bytes);
            Some(format!("X 12 {name} 0 0 {} 0", bytes.len()))
        }
        13 => {
            let mut r = SplitMix(d);
            let n = c.min(200);
            for _ in 0..n {
                let name = w.fresh("xfill");
                w.files.push((name, (r.below(DIRS.len() as u64)) as usize));
                let l = 1 + r.below(40) as usize;
                let bytes = rnd(r.next(), l);
                write_file(&w.path(w.files.len() - 1), &bytes);
            }
            Some(format!("X 13 fill 0 0 {n} 0"))
        }
        _ => None,
    }
}

fn meta_digest(n: &rustic_core::repofile::Node) -> u64 {
    let mut h = Sha256::new();
    h.update(serde_json::to_vec(&n.node_type).unwrap_or_default());
    h.update(serde_json::to_vec(&n.meta).unwrap_or_default());
    let d = h.finalize();
    u64::from_be_bytes(d[..8].try_into().unwrap()) >> 24
}

fn backup_and_report(
    w: &mut World,
    store: &Arc<rustic_testing::backend::in_memory_backend::InMemoryBackend>,
    key: &MasterKey,
    force: bool,
    k: usize,
    edits: &[String],
) -> anyhow::Result<String> {
    let rec = RecBackend::new(store.clone(), "s");
    // ---- the index a fresh handle loads
    let repo = open_repo(rec.clone(), None, key, &repo_opts())?;
    let mut loaded: Vec<(u8, String)> = Vec::new();
    let mut old_packs: std::collections::BTreeSet<String> = Default::default();
    for r in repo.stream_files::<IndexFile>()? {
        let (_id, f) = r?;
        for p in f.packs {
            let _ = old_packs.insert(p.id.to_hex().to_string());
            for b in &p.blobs {
                loaded.push((u8::from(b.tpe == rustic_core::repofile::BlobType::Tree), b.id.to_hex().to_string()));
            }
        }
    }
    let packs_before: Vec<_> = store.list(FileType::Pack)?;
    let _ = &mut loaded;
    // "existed before" = listed by the index AND lying in a pack file the repository holds: entries of
    // packs that are missing from the pack listing are counted separately and are not part of G
    let existing: std::collections::BTreeSet<String> = packs_before.iter().map(|i| i.to_hex().to_string()).collect();
    let mut dangling = 0usize;
    loaded.clear();
    for r in repo.stream_files::<IndexFile>()? {
        let (_id, f) = r?;
        for p in f.packs {
            let present = existing.contains(p.id.to_hex().as_str());
            for b in &p.blobs {
                if present {
                    loaded.push((u8::from(b.tpe == rustic_core::repofile::BlobType::Tree), b.id.to_hex().to_string()));
                } else {
                    dangling += 1;
                }
            }
        }
    }
    loaded.sort();
    loaded.dedup();
    let _ = rec.take_log();
    // ---- backup
    let opts = BackupOptions::default().parent_opts(ParentOptions::default().force(force));
    let (repo, snap) = backup_dir(repo, &w.root, "src", Some(opts))?;
    let log = rec.take_log();
    drop(repo);
    // ---- observe through another fresh handle
    let repo = open_repo(rec.clone(), None, key, &repo_opts())?.to_indexed()?;
    let mut ipacks: BTreeMap<String, (u8, Vec<(String, u32)>)> = BTreeMap::new();
    let mut lens: BTreeMap<(u8, String), u32> = BTreeMap::new();
    for r in repo.stream_files::<IndexFile>()? {
        let (_id, f) = r?;
        for p in f.packs {
            let t = u8::from(p.blob_type() == rustic_core::repofile::BlobType::Tree);
            let mut v = Vec::new();
            for b in &p.blobs {
                let bt = u8::from(b.tpe == rustic_core::repofile::BlobType::Tree);
                let _ = lens.insert((bt, b.id.to_hex().to_string()), b.location.data_length());
                v.push((b.id.to_hex().to_string(), b.location.data_length()));
            }
            let _ = ipacks.insert(p.id.to_hex().to_string(), (t, v));
        }
    }
    let packs_after: Vec<_> = store.list(FileType::Pack)?;
    let sm = snap.summary.clone().unwrap_or_default();
    let mut s = format!(
        "B{k} force={} tree={} data_added={} data_blobs={} tree_blobs={} data_added_files={} data_added_trees={} files_new={} files_changed={} files_unmodified={} packs_before={} packs_after={} dangling={dangling}",
        u8::from(force), w.dense(&snap.tree.to_hex()), sm.data_added, sm.data_blobs, sm.tree_blobs, sm.data_added_files,
        sm.data_added_trees, sm.files_new, sm.files_changed, sm.files_unmodified, packs_before.len(), packs_after.len()
    );
    // loaded index
    s.push_str(&format!(" G {}", loaded.len()));
    for (t, id) in &loaded {
        s.push_str(&format!(" {t} {}", w.dense(id)));
    }
    // item stream of the new snapshot
    s.push_str(" I");
    let node = repo.node_from_snapshot_path(&snap.id.to_hex(), |_| true)?;
    let mut stack: Vec<(PathBuf, String)> = Vec::new(); // open directories with their tree id
    let mut trees: Vec<String> = vec![snap.tree.to_hex().to_string()];
    let mut unindexed = 0usize;
    for item in repo.ls(&node, &LsOptions::default())? {
        let (path, n) = item?;
        while let Some((top, tid)) = stack.last() {
            if path.starts_with(top) {
                break;
            }
            s.push_str(&format!(" E {}", w.dense(tid)));
            let _ = stack.pop();
        }
        let name = n.name().to_string_lossy().to_string();
        let md = meta_digest(&n);
        if n.is_dir() {
            let tid = n.subtree.map(|t| t.to_hex().to_string()).unwrap_or_default();
            if !lens.contains_key(&(1, tid.clone())) {
                unindexed += 1;
            }
            trees.push(tid.clone());
            s.push_str(&format!(" N {name} {md}"));
            stack.push((path.clone(), tid));
        } else {
            let c = n.content.clone().unwrap_or_default();
            s.push_str(&format!(" O {name} {md} {}", c.len()));
            for d in &c {
                let hex = d.to_hex().to_string();
                let l = lens.get(&(0, hex.clone())).copied();
                if l.is_none() {
                    unindexed += 1;
                }
                s.push_str(&format!(" {} {}", w.dense(&hex), l.unwrap_or(0)));
            }
        }
    }
    while let Some((_, tid)) = stack.pop() {
        s.push_str(&format!(" E {}", w.dense(&tid)));
    }
    if !lens.contains_key(&(1, snap.tree.to_hex().to_string())) {
        unindexed += 1;
    }
    // packs written by this run, in write order
    let mut written = 0;
    for op in &log {
        if op.kind == OpKind::Write && op.tpe == FileType::Pack && op.ok {
            written += 1;
            let hex = op.id.to_hex().to_string();
            if let Some((t, ids)) = ipacks.get(&hex) {
                let reused = u8::from(old_packs.contains(&hex));
                s.push_str(&format!(" P {t} {reused} {}", ids.len()));
                for (id, _) in ids.clone() {
                    s.push_str(&format!(" {}", w.dense(&id)));
                }
            } else {
                s.push_str(" P 9 0 0");
            }
        }
    }
    for e in edits {
        s.push(' ');
        s.push_str(e);
    }
    let index_writes = log.iter().filter(|o| o.kind == OpKind::Write && o.tpe == FileType::Index).count();
    let removes = log.iter().filter(|o| o.kind == OpKind::Remove).count();
    s.push_str(&format!(" Z written={written} unindexed_refs={unindexed} index_writes={index_writes} removes={removes}"));
    w.last_trees = trees;
    Ok(s)
}

/// The search that runs when the writer-order obligation (`pack_written_before_indexed`) is broken:
/// a run with more than 50 000 new blobs (fixed-size chunker, 2-byte chunks, a file holding all 65536
/// two-byte values => packs of 10 000 blobs, the indexer flushes an index file with the 5th pack)
/// whose `fail_pack`-th pack write fails; then the same source is backed up again through a fresh
/// handle and observed like every other backup.  Line: `fault <seed> <fail_pack>`.
fn fault_case(seed: u64, fail_pack: usize) -> String {
    let src = tempfile::tempdir().unwrap();
    let mut w = World { root: src.path().to_path_buf(), files: Vec::new(), next: 0, dense: BTreeMap::new(), last_trees: Vec::new() };
    let mut vals: Vec<u16> = (0..=u16::MAX).collect();
    let mut r = SplitMix(seed);
    for i in (1..vals.len()).rev() {
        vals.swap(i, r.below(i as u64 + 1) as usize);
    }
    let data: Vec<u8> = vals.into_iter().flat_map(u16::to_le_bytes).collect();
    w.files.push(("xall".to_string(), 0));
    write_file(&w.path(0), &data);
    let store = mem();
    let key = MasterKey::new();
    let cfg = ConfigOptions::default().set_chunker(rustic_core::repofile::Chunker::FixedSize).set_chunk_size(bytesize::ByteSize(2));
    let init = || -> anyhow::Result<()> {
        let mut config = rustic_core::repofile::ConfigFile::default();
        config.version = 2;
        config.chunker_polynomial = format!("{:x}", POLYS[0]);
        cfg.apply(&mut config)?;
        let bes = rustic_core::RepositoryBackends::new(store.clone(), None);
        let repo = rustic_core::Repository::new(&repo_opts(), &bes)?;
        let _ = repo.init_with_config(&rustic_core::Credentials::Masterkey(key.clone()), &rustic_core::KeyOptions::default(), config)?;
        Ok(())
    };
    if let Err(e) = init() {
        return format!("err init {}", e.to_string().replace('\n', " "));
    }
    // run 1: the fail_pack-th pack write fails
    let rec = RecBackend::new(store.clone(), "f");
    let rec2 = rec.clone();
    let packs = Arc::new(std::sync::atomic::AtomicUsize::new(0));
    let packs2 = packs.clone();
    rec.set_before(Some(Arc::new(move |op: &Op| {
        if op.kind == OpKind::Write && op.tpe == FileType::Pack {
            let n = packs2.fetch_add(1, std::sync::atomic::Ordering::SeqCst) + 1;
            if n == fail_pack {
                rec2.plan.lock().unwrap().fail_mutating_at = Some(rec2.mutating_count());
            }
        }
    })));
    let failed = match open_repo(rec.clone(), None, &key, &repo_opts()) {
        Ok(repo) => backup_dir(repo, &w.root, "src", Some(BackupOptions::default().parent_opts(ParentOptions::default().force(true)))).is_err(),
        Err(e) => return format!("err open {}", e.to_string().replace('\n', " ")),
    };
    rec.set_before(None);
    // worker threads of the failed run may still be writing: wait until the store is quiet
    let mut last = usize::MAX;
    for _ in 0..50 {
        let n = rec.mutating_count();
        if n == last {
            break;
        }
        last = n;
        std::thread::sleep(std::time::Duration::from_millis(300));
    }
    let listed = store.list(FileType::Pack).map(|l| l.len()).unwrap_or(0);
    let snaps = store.list(FileType::Snapshot).map(|l| l.len()).unwrap_or(0);
    let mut out = format!("ok | FAULT failed={} pack_writes={} packs_listed={listed} snapshots={snaps}", u8::from(failed), packs.load(std::sync::atomic::Ordering::SeqCst));
    // run 2: healthy backend, index reloaded
    match backup_and_report(&mut w, &store, &key, true, 0, &[]) {
        Ok(s) => {
            out.push_str(" | ");
            out.push_str(&s);
        }
        Err(e) => return format!("err step=0 {}", e.to_string().replace('\n', " ")),
    }
    let clean = open_repo(store.clone(), None, &key, &repo_opts()).ok().and_then(|r| check_clean(&r).ok()).unwrap_or(false);
    out.push_str(&format!(" | END clean={}", u8::from(clean)));
    out
}

/// Directed scenario "healing run with skip_if_unchanged" (line `heal <seed>`): backup, add a file,
/// backup, remove the FIRST index file, backup with skip_if_unchanged (the parent's root tree is
/// still loadable, the chunks the lost index file described are stored again, the tree equals the
/// parent's, no snapshot is written), reload the index, back up the unchanged source again.
/// Prints only counters: `ok | HEAL key=val ..`.
fn heal_case(seed: u64) -> String {
    use rustic_core::WriteBackend as _;
    let run = || -> anyhow::Result<String> {
        let mut r = SplitMix(seed);
        let src = tempfile::tempdir()?;
        let root = src.path().to_path_buf();
        write_file(&root.join("a.bin"), &rnd(r.next(), 150_000 + r.below(200_000) as usize));
        write_file(&root.join("sub/b.bin"), &rnd(r.next(), 100_000 + r.below(200_000) as usize));
        let store = mem();
        let key = MasterKey::new();
        let cfg = ConfigOptions::default()
            .set_chunk_size(bytesize::ByteSize(8192))
            .set_chunk_min_size(bytesize::ByteSize(4096))
            .set_chunk_max_size(bytesize::ByteSize(65536));
        let mut config = rustic_core::repofile::ConfigFile::default();
        config.version = 2;
        config.chunker_polynomial = format!("{:x}", POLYS[(seed % POLYS.len() as u64) as usize]);
        cfg.apply(&mut config)?;
        let bes = rustic_core::RepositoryBackends::new(store.clone(), None);
        let _ = rustic_core::Repository::new(&repo_opts(), &bes)?
            .init_with_config(&rustic_core::Credentials::Masterkey(key.clone()), &rustic_core::KeyOptions::default(), config)?;
        let opts = || BackupOptions::default().parent_opts(ParentOptions::default().skip_if_unchanged(true));
        let backup = || -> anyhow::Result<rustic_core::repofile::SnapshotFile> {
            let repo = open_repo(store.clone(), None, &key, &repo_opts())?;
            Ok(backup_dir(repo, &root, "src", Some(opts()))?.1)
        };
        let packs_of_index = || -> anyhow::Result<BTreeMap<String, Vec<String>>> {
            let repo = open_repo(store.clone(), None, &key, &repo_opts())?;
            let mut m = BTreeMap::new();
            for r in repo.stream_files::<IndexFile>()? {
                let (id, f) = r?;
                let _ = m.insert(id.to_hex().to_string(), f.packs.iter().map(|p| p.id.to_hex().to_string()).collect());
            }
            Ok(m)
        };
        // 1. two backups, the second adds a file
        let s1 = backup()?;
        let first: Vec<_> = store.list(FileType::Index)?;
        write_file(&root.join("sub/c.bin"), &rnd(r.next(), 100_000 + r.below(200_000) as usize));
        let s2 = backup()?;
        let nindex2 = store.list(FileType::Index)?.len();
        // 2. the first index file gets lost
        let before = packs_of_index()?;
        let lost: Vec<String> = first.first().and_then(|i| before.get(i.to_hex().as_str()).cloned()).unwrap_or_default();
        if let Some(i) = first.first() {
            store.remove(FileType::Index, i, false)?;
        }
        // 3. healing backup with skip_if_unchanged
        let s3 = backup()?;
        let sm3 = s3.summary.clone().unwrap_or_default();
        let listed3: Vec<String> = store.list(FileType::Pack)?.iter().map(|i| i.to_hex().to_string()).collect();
        let indexed3: std::collections::BTreeSet<String> = packs_of_index()?.values().flatten().cloned().collect();
        let unindexed3 = listed3.iter().filter(|p| !indexed3.contains(*p)).count();
        let unindexed3_not_lost = listed3.iter().filter(|p| !indexed3.contains(*p) && !lost.contains(*p)).count();
        let snaps3 = store.list(FileType::Snapshot)?.len();
        // 4. index reloaded, nothing changed
        let s4 = backup()?;
        let sm4 = s4.summary.clone().unwrap_or_default();
        let listed4 = store.list(FileType::Pack)?.len();
        let clean = open_repo(store.clone(), None, &key, &repo_opts()).ok().and_then(|r| check_clean(&r).ok()).unwrap_or(false);
        Ok(format!(
            "ok | HEAL index_files_after_1={} index_files_after_2={nindex2} lost_packs={} tree12_differ={} tree3_eq_tree2={} tree4_eq_tree2={} heal_data_blobs={} heal_tree_blobs={} snapshots_after_3={snaps3} packs_after_3={} unindexed_after_3={unindexed3} unindexed_after_3_not_lost={unindexed3_not_lost} last_data_blobs={} last_tree_blobs={} last_data_added={} packs_after_4={listed4} clean={}",
            first.len(), lost.len(), u8::from(s1.tree != s2.tree), u8::from(s3.tree == s2.tree), u8::from(s4.tree == s2.tree),
            sm3.data_blobs, sm3.tree_blobs, listed3.len(), sm4.data_blobs, sm4.tree_blobs, sm4.data_added, u8::from(clean)
        ))
    };
    run().unwrap_or_else(|e| format!("err heal {}", e.to_string().replace('\n', " ")))
}

/// irreducible polynomials of degree 53 (restic's documented example + polynomials drawn by `init`)
const POLYS: [u64; 6] = [
    0x3DA3358B4DC173, 0x2e275b928699d1, 0x34110dbce30fa7, 0x252ad901f21e1b, 0x2b6a4ad79585f7, 0x33fd4c16e1a84f,
];

fn case(line: &str) -> String {
    if line.trim() == "poly" {
        // a polynomial as `init` draws it (used once to collect POLYS)
        return match init_repo(mem(), None, &ConfigOptions::default(), &repo_opts()) {
            Ok((repo, _)) => repo.config().chunker_polynomial.clone(),
            Err(e) => format!("err {e}"),
        };
    }
    if let Some(rest) = line.trim().strip_prefix("heal") {
        return heal_case(Toks::new(rest).u());
    }
    if let Some(rest) = line.trim().strip_prefix("fault") {
        let mut t = Toks::new(rest);
        let (seed, fail_pack) = (t.u(), t.u() as usize);
        return fault_case(seed, fail_pack);
    }
    let mut t = Toks::new(line);
    let (seed, nfiles, maxfile, dp, tp, nsteps) = (t.u(), t.u() as usize, t.u() as usize, t.u() as u32, t.u() as u32, t.u() as usize);
    let mut r = SplitMix(seed);
    let src = tempfile::tempdir().unwrap();
    let mut w = World { root: src.path().to_path_buf(), files: Vec::new(), next: 0, dense: BTreeMap::new(), last_trees: Vec::new() };
    fs::create_dir_all(&w.root).unwrap();
    for i in 0..nfiles {
        let dir = r.below(DIRS.len() as u64) as usize;
        // every sixth file or so repeats the previous file's content (sharing inside one backup)
        let (kind, b) = if i > 0 && r.below(6) == 0 {
            (w.files[i - 1].0.chars().next().unwrap_or('x'), fs::read(w.path(i - 1)).unwrap())
        } else {
            gen_content(&mut r, maxfile.max(4))
        };
        w.files.push((format!("{kind}f{i}"), dir));
        write_file(&w.path(i), &b);
    }
    let store = mem();
    let cfg = small_pack_config(dp, tp)
        .set_chunk_size(bytesize::ByteSize(8192))
        .set_chunk_min_size(bytesize::ByteSize(4096))
        .set_chunk_max_size(bytesize::ByteSize(65536));
    // the chunker polynomial is normally drawn at random by `init`; it is fixed per case here so
    // that a case line replays with the same chunk boundaries
    let key = MasterKey::new();
    let init = || -> anyhow::Result<()> {
        let mut config = rustic_core::repofile::ConfigFile::default();
        config.version = 2;
        config.chunker_polynomial = format!("{:x}", POLYS[(seed % POLYS.len() as u64) as usize]);
        cfg.apply(&mut config)?;
        let bes = rustic_core::RepositoryBackends::new(store.clone(), None);
        let repo = rustic_core::Repository::new(&repo_opts(), &bes)?;
        let _ = repo.init_with_config(&rustic_core::Credentials::Masterkey(key.clone()), &rustic_core::KeyOptions::default(), config)?;
        Ok(())
    };
    if let Err(e) = init() {
        return format!("err init {}", e.to_string().replace('\n', " "));
    }
    let mut out = String::from("ok");
    // step 0: the initial backup; then the script
    for k in 0..=nsteps {
        let mut edits = Vec::new();
        let mut force = true;
        if k > 0 {
            let nops = t.u();
            for _ in 0..nops {
                let (op, a, b, c, d) = (t.u(), t.u(), t.u(), t.u(), t.u());
                let st = store.clone();
                let key2 = key.clone();
                let blob = move |hex: &str| -> Option<Vec<u8>> {
                    let repo = open_repo(st.clone(), None, &key2, &repo_opts()).ok()?.to_indexed().ok()?;
                    repo.cat_blob(rustic_core::repofile::BlobType::Tree, hex).ok().map(|b| b.to_vec())
                };
                if let Some(e) = apply_op(&mut w, op, a, b, c, d, &blob) {
                    edits.push(e);
                }
            }
            force = t.u() != 0;
        }
        match backup_and_report(&mut w, &store, &key, force, k, &edits) {
            Ok(s) => {
                out.push_str(" | ");
                out.push_str(&s);
            }
            Err(e) => return format!("err step={k} {}", e.to_string().replace('\n', " ")),
        }
    }
    // final state of the repository must be sound
    let clean = open_repo(store.clone(), None, &key, &repo_opts()).ok().and_then(|r| check_clean(&r).ok()).unwrap_or(false);
    out.push_str(&format!(" | END clean={}", u8::from(clean)));
    out
}

/// Like `verif_harness::for_each_case`, but the panic message is part of the result line, so that
/// check.py can tell the documented load flakiness ("index still in use", index.rs: a 100 ms wait
/// for worker threads inside `check`) from a panic of the code under test.
fn main() {
    use std::io::{BufRead, Write};
    static LAST: std::sync::Mutex<String> = std::sync::Mutex::new(String::new());
    std::panic::set_hook(Box::new(|info| {
        let msg = info.payload().downcast_ref::<&str>().map(|s| (*s).to_string())
            .or_else(|| info.payload().downcast_ref::<String>().cloned()).unwrap_or_default();
        let loc = info.location().map(|l| format!("{}:{}", l.file(), l.line())).unwrap_or_default();
        if let Ok(mut l) = LAST.lock() {
            *l = format!("{msg} at {loc}").replace('\n', " ");
        }
    }));
    let args: Vec<String> = std::env::args().collect();
    let rd: Box<dyn BufRead> = if args.len() > 1 && args[1] != "-" {
        Box::new(std::io::BufReader::new(fs::File::open(&args[1]).expect("open cases")))
    } else {
        Box::new(std::io::BufReader::new(std::io::stdin()))
    };
    let out = std::io::stdout();
    let mut out = std::io::BufWriter::new(out.lock());
    for line in rd.lines() {
        let line = line.expect("read");
        if line.trim().is_empty() {
            continue;
        }
        let r = std::panic::catch_unwind(|| case(&line))
            .unwrap_or_else(|_| format!("panic {}", LAST.lock().map(|l| l.clone()).unwrap_or_default()));
        writeln!(out, "{r}").unwrap();
    }
}
