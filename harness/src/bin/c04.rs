//! C04 — Rust side of the correspondence: framing round trips and tamper probes through the
//! hooks, nonce distinctness, key files, and end-to-end runs (plaintext scan of every stored
//! file, tamper matrix on every stored file, key-management histories).
//! One case per input line, one result line per case (format: see props/C04/check.py).
use std::collections::BTreeMap;
use std::sync::{Arc, Mutex};

use bytes::Bytes;
use rustic_core::repofile::{KeyId, MasterKey, SnapshotId};
use rustic_core::verif_hooks::c04 as hk;
use rustic_core::{
    BytesList, ConfigOptions, Credentials, ErrorKind, FileType, Id, KeyOptions, PruneOptions, ReadBackend,
    Repository, RepositoryBackends, RusticError, RusticResult, WriteBackend,
};
use rustic_testing::backend::in_memory_backend::InMemoryBackend;
use verif_harness::e2e::*;
use verif_harness::{SplitMix, Toks, for_each_case};

fn unhex(s: &str) -> Vec<u8> {
    if s == "-" { Vec::new() } else { hex::decode(s).expect("hex") }
}
/// passwords travel as hex tokens ("-" = empty) so that they may contain white space
fn pw(s: &str) -> String {
    String::from_utf8(unhex(s)).expect("password is not UTF-8")
}
fn hx(b: &[u8]) -> String {
    if b.is_empty() { "-".to_string() } else { hex::encode(b) }
}
fn key_bytes(seed: u64) -> Vec<u8> {
    let mut r = SplitMix(seed);
    let mut v = Vec::new();
    while v.len() < 64 {
        v.extend_from_slice(&r.next().to_le_bytes());
    }
    v
}
fn zopt(s: &str) -> Option<i32> {
    if s == "n" { None } else { Some(s.parse().expect("level")) }
}
fn be_new() -> Arc<InMemoryBackend> {
    Arc::new(InMemoryBackend::new())
}
/// store `data` under its own hash (so that an id-verifying read accepts it) and return the id
fn put(be: &Arc<InMemoryBackend>, tpe: FileType, data: &[u8]) -> Id {
    let id = hk::hash_id(data);
    be.write_bytes(tpe, &id, false, Bytes::copy_from_slice(data).into()).unwrap();
    id
}

/// apply one probe to stored bytes: t<j> truncate to j, x<j> extend by j bytes, f<pos>.<bit> flip,
/// j<n> replace by the plaintext JSON {"forged":n}
fn apply_probe(p: &str, s: &[u8]) -> Vec<u8> {
    let mut v = s.to_vec();
    match &p[..1] {
        "t" => v.truncate(p[1..].parse().unwrap()),
        "x" => {
            let n: usize = p[1..].parse().unwrap();
            v.extend((0..n).map(|i| (i * 37 + 11) as u8));
        }
        // forged plaintext: the stored bytes are replaced by hand-written JSON
        "j" => v = format!("{{\"forged\":{}}}", &p[1..]).into_bytes(),
        "f" => {
            let (a, b) = p[1..].split_once('.').unwrap();
            let pos: usize = a.parse().unwrap();
            let bit: u32 = b.parse().unwrap();
            v[pos] ^= 1 << bit;
        }
        _ => panic!("probe"),
    }
    v
}

fn case_file(t: &mut Toks) -> String {
    let k = key_bytes(t.u());
    let z = zopt(t.s());
    let ev = t.u() == 1;
    let data = unhex(t.s());
    let np = t.u();
    let be = be_new();
    let id = match hk::hash_write_full(be.clone(), &k, z, ev, FileType::Snapshot, &data) {
        Ok(id) => id,
        Err(c) => return format!("err {c}"),
    };
    let stored = be.read_full(FileType::Snapshot, &id).unwrap().to_vec();
    let idok = hk::hash_id(&stored) == id;
    let payload = hk::decrypt_data(&k, &stored).map(|p| hx(&p)).unwrap_or_else(|c| format!("!{c}"));
    let rt = match hk::read_encrypted_full(be.clone(), &k, FileType::Snapshot, &id) {
        Ok(d) if d == data => "ok".to_string(),
        Ok(_) => "diff".to_string(),
        Err((c, _)) => c.to_string(),
    };
    let mut pr = Vec::new();
    for _ in 0..np {
        let tb = apply_probe(t.s(), &stored);
        let tid = put(&be, FileType::Snapshot, &tb);
        pr.push(match hk::read_encrypted_full(be.clone(), &k, FileType::Snapshot, &tid) {
            Ok(d) if d == data => "same".to_string(),
            Ok(_) => "diff".to_string(),
            Err((c, _)) => c.to_string(),
        });
    }
    format!("ok len={} idok={} payload={} rt={} probes={}", stored.len(), u8::from(idok), payload, rt, pr.join(","))
}

fn case_blob(t: &mut Toks) -> String {
    let k = key_bytes(t.u());
    let z = zopt(t.s());
    let ev = t.u() == 1;
    let data = unhex(t.s());
    let np = t.u();
    let be = be_new();
    let (ct, dlen, ul) = match hk::encode_blob(be.clone(), &k, z, ev, &data) {
        Ok(x) => x,
        Err(c) => return format!("err {c}"),
    };
    let payload = hk::decrypt_data(&k, &ct).map(|p| hx(&p)).unwrap_or_else(|c| format!("!{c}"));
    let dec = |c: &[u8], u: Option<u32>| match hk::decode_blob(be.clone(), &k, c, u) {
        Ok(d) if d == data => "same".to_string(),
        Ok(_) => "diff".to_string(),
        Err(c) => c.to_string(),
    };
    let rt = match dec(&ct, ul).as_str() {
        "same" => "ok".to_string(),
        o => o.to_string(),
    };
    let mut pr = Vec::new();
    for _ in 0..np {
        let p = t.s();
        if let Some(u) = p.strip_prefix('u') {
            let u: u32 = u.parse().unwrap();
            pr.push(dec(&ct, if u == 0 { None } else { Some(u) }));
        } else {
            pr.push(dec(&apply_probe(p, &ct), ul));
        }
    }
    format!(
        "ok len={} dlen={} ul={} payload={} rt={} probes={}",
        ct.len(),
        dlen,
        ul.map_or("none".to_string(), |u| u.to_string()),
        payload,
        rt,
        pr.join(",")
    )
}

/// encrypt a crafted plaintext with Key::encrypt_data, then decode it as a file / as a blob
fn case_plain(t: &mut Toks) -> String {
    let k = key_bytes(t.u());
    let payload = unhex(t.s());
    let how = t.s();
    let ct = match hk::encrypt_data(&k, &payload) {
        Ok(c) => c,
        Err(c) => return format!("err {c}"),
    };
    let be = be_new();
    let r = if how == "f" {
        let id = put(&be, FileType::Index, &ct);
        hk::read_encrypted_full(be.clone(), &k, FileType::Index, &id).map_err(|(c, _)| c)
    } else {
        let u: u32 = how[1..].parse().unwrap();
        hk::decode_blob(be.clone(), &k, &ct, if u == 0 { None } else { Some(u) })
    };
    match r {
        Ok(d) => format!("ok len={} out={}", ct.len(), hx(&d)),
        Err(c) => format!("ok len={} out=!{}", ct.len(), c),
    }
}

fn case_nonces(t: &mut Toks) -> String {
    let k = key_bytes(t.u());
    let n = t.u() as usize;
    let msg = b"the same message every time";
    let mut nonces = std::collections::BTreeSet::new();
    let mut cts = std::collections::BTreeSet::new();
    let mut lens_ok = true;
    for _ in 0..n {
        let c = hk::encrypt_data(&k, msg).unwrap();
        lens_ok &= c.len() == msg.len() + 32;
        let _ = nonces.insert(c[..16].to_vec());
        let _ = cts.insert(c[16..].to_vec());
    }
    format!("ok n={} distinct_nonces={} distinct_bodies={} lens_ok={}", n, nonces.len(), cts.len(), u8::from(lens_ok))
}

const B64: &[u8; 64] = b"ABCDEFGHIJKLMNOPQRSTUVWXYZabcdefghijklmnopqrstuvwxyz0123456789+/";
fn b64dec(s: &str) -> Vec<u8> {
    let mut out = Vec::new();
    let (mut acc, mut bits) = (0u32, 0u32);
    for c in s.bytes().filter(|c| *c != b'=') {
        let v = B64.iter().position(|x| *x == c).expect("b64") as u32;
        acc = (acc << 6) | v;
        bits += 6;
        if bits >= 8 {
            bits -= 8;
            out.push((acc >> bits) as u8);
            acc &= (1 << bits) - 1;
        }
    }
    out
}
fn b64enc(b: &[u8]) -> String {
    let mut s = String::new();
    for ch in b.chunks(3) {
        let n = (u32::from(ch[0]) << 16) | (u32::from(*ch.get(1).unwrap_or(&0)) << 8) | u32::from(*ch.get(2).unwrap_or(&0));
        for i in 0..4 {
            if i <= ch.len() {
                s.push(B64[((n >> (18 - 6 * i)) & 63) as usize] as char);
            } else {
                s.push('=');
            }
        }
    }
    s
}

/// tampered key files: `kft K PASS OTHERPASS` — a genuine key file for PASS with its `data` / `salt` /
/// `N` fields modified, or `data` taken from the key file of OTHERPASS (same master key), opened
/// with PASS: must never yield a key.  Output: `ok base=<ok|..> <mutation>=<class> ...`
fn case_kft(t: &mut Toks) -> String {
    let k = key_bytes(t.u());
    let pass = pw(t.s());
    let other = pw(t.s());
    let (_, data) = hk::keyfile_generate(&k, &pass).unwrap();
    let (_, data2) = hk::keyfile_generate(&k, &other).unwrap();
    let json: serde_json::Value = serde_json::from_slice(&data).unwrap();
    let json2: serde_json::Value = serde_json::from_slice(&data2).unwrap();
    let open = |j: &serde_json::Value, p: &str| match hk::keyfile_open(&serde_json::to_vec(j).unwrap(), p) {
        Ok(m) if m == k => "ok".to_string(),
        Ok(_) => "otherkey".to_string(),
        Err(c) => c.to_string(),
    };
    let mut out = vec![format!("base={}", open(&json, &pass))];
    let d = b64dec(json["data"].as_str().unwrap());
    let salt = b64dec(json["salt"].as_str().unwrap());
    let with = |f: &str, v: serde_json::Value| {
        let mut j = json.clone();
        j[f] = v;
        j
    };
    let mut muts: Vec<(String, serde_json::Value)> = Vec::new();
    for pos in [0usize, 15, 16, d.len() / 2, d.len() - 17, d.len() - 16, d.len() - 1] {
        let mut x = d.clone();
        x[pos] ^= 1 << (pos % 8);
        muts.push((format!("data-flip{pos}"), with("data", b64enc(&x).into())));
    }
    for l in [0usize, 10, 16, 31, 32, d.len() - 1] {
        muts.push((format!("data-trunc{l}"), with("data", b64enc(&d[..l]).into())));
    }
    let mut x = d.clone();
    x.push(0);
    muts.push(("data-ext1".to_string(), with("data", b64enc(&x).into())));
    let mut x = salt.clone();
    x[0] ^= 1;
    muts.push(("salt-flip".to_string(), with("salt", b64enc(&x).into())));
    muts.push(("salt-trunc".to_string(), with("salt", b64enc(&salt[..salt.len() - 1]).into())));
    muts.push(("salt-empty".to_string(), with("salt", "".into())));
    muts.push(("n-halved".to_string(), with("N", (json["N"].as_u64().unwrap() / 2).into())));
    muts.push(("r-changed".to_string(), with("r", (json["r"].as_u64().unwrap() / 2).into())));
    muts.push(("data-of-other-keyfile".to_string(), with("data", json2["data"].clone())));
    muts.push(("salt-of-other-keyfile".to_string(), with("salt", json2["salt"].clone())));
    for (name, j) in &muts {
        out.push(format!("{name}={}", open(j, &pass)));
    }
    // the other key file with this password, and this one with the other password
    out.push(format!("other-file-this-pass={}", open(&json2, &pass)));
    out.push(format!("this-file-other-pass={}", open(&json, &other)));
    format!("ok {}", out.join(" "))
}

/// key file: generate with PASS, open with PASS and with wrong passwords
fn case_kf(t: &mut Toks) -> String {
    let k = key_bytes(t.u());
    let pass = &pw(t.s());
    let nw = t.u();
    let (id, data) = hk::keyfile_generate(&k, pass).unwrap();
    let idok = hk::hash_id(&data) == id;
    let json: serde_json::Value = serde_json::from_slice(&data).unwrap();
    let fields: Vec<String> = json.as_object().unwrap().keys().cloned().collect();
    let right = match hk::keyfile_open(&data, pass) {
        Ok(m) if m == k => "ok".to_string(),
        Ok(_) => "diff".to_string(),
        Err(c) => c.to_string(),
    };
    let mut wrong = Vec::new();
    for _ in 0..nw {
        wrong.push(match hk::keyfile_open(&data, &pw(t.s())) {
            Ok(m) if m == k => "ok".to_string(),
            Ok(_) => "diff".to_string(),
            Err(c) => c.to_string(),
        });
    }
    format!("ok idok={} json={} fields={} right={} wrong={}", u8::from(idok), u8::from(data.first() == Some(&b'{')), fields.join("+"), right, wrong.join(","))
}

// ------------------------------------------------------------------ overlay backend

/// In-memory store with per-file overrides; partial reads are bounds-checked (a real backend
/// returns an error on a short read, it does not panic).
#[derive(Debug)]
struct Overlay {
    inner: Arc<InMemoryBackend>,
    over: Mutex<BTreeMap<(String, Id), Bytes>>,
}
impl Overlay {
    fn new(inner: Arc<InMemoryBackend>) -> Arc<Self> {
        Arc::new(Self { inner, over: Mutex::new(BTreeMap::new()) })
    }
    fn set(&self, tpe: FileType, id: &Id, b: Vec<u8>) {
        let _ = self.over.lock().unwrap().insert((tpe.dirname().to_string(), *id), Bytes::from(b));
    }
    fn clear(&self) {
        self.over.lock().unwrap().clear();
    }
    fn get(&self, tpe: FileType, id: &Id) -> Option<Bytes> {
        self.over.lock().unwrap().get(&(tpe.dirname().to_string(), *id)).cloned()
    }
}
impl ReadBackend for Overlay {
    fn location(&self) -> String {
        "overlay".to_string()
    }
    fn warmup_path(&self, tpe: FileType, id: &Id) -> String {
        self.inner.warmup_path(tpe, id)
    }
    fn list_with_size(&self, tpe: FileType) -> RusticResult<Vec<(Id, u32)>> {
        Ok(self
            .inner
            .list_with_size(tpe)?
            .into_iter()
            .map(|(id, s)| (id, self.get(tpe, &id).map_or(s, |b| b.len() as u32)))
            .collect())
    }
    fn read_full(&self, tpe: FileType, id: &Id) -> RusticResult<Bytes> {
        match self.get(tpe, id) {
            Some(b) => Ok(b),
            // the config file is stored under a fixed name: whatever id is asked for, it is THE config
            None if tpe == FileType::Config => match self.inner.list(tpe)?.first() {
                Some(cur) => self.inner.read_full(tpe, cur),
                None => self.inner.read_full(tpe, id),
            },
            None => self.inner.read_full(tpe, id),
        }
    }
    fn read_partial(&self, tpe: FileType, id: &Id, _c: bool, offset: u32, length: u32) -> RusticResult<Bytes> {
        let b = self.read_full(tpe, id)?;
        let (o, l) = (offset as usize, length as usize);
        if o.checked_add(l).is_none_or(|e| e > b.len()) {
            return Err(RusticError::new(ErrorKind::Backend, "short read"));
        }
        Ok(b.slice(o..o + l))
    }
}
impl WriteBackend for Overlay {
    fn create(&self) -> RusticResult<()> {
        Ok(())
    }
    fn write_bytes(&self, tpe: FileType, id: &Id, c: bool, content: BytesList) -> RusticResult<()> {
        if tpe == FileType::Config {
            // real backends store the config under a fixed name: a new config replaces the old one
            for old in self.inner.list(tpe)? {
                self.inner.remove(tpe, &old, c)?;
            }
        }
        self.inner.write_bytes(tpe, id, c, content)
    }
    fn remove(&self, tpe: FileType, id: &Id, c: bool) -> RusticResult<()> {
        self.inner.remove(tpe, id, c)
    }
}

// ------------------------------------------------------------------ e2e

fn master_bytes(k: &MasterKey) -> Vec<u8> {
    let r = [k.encrypt.clone(), k.mac.k.clone(), k.mac.r.clone()].concat();
    assert_eq!(r.len(), 64);
    r
}

/// plaintext markers that must never appear in a stored file (other than key files)
struct Markers {
    strings: Vec<Vec<u8>>,
}

fn scan_store(be: &dyn ReadBackend, m: &Markers, stage: &str, out: &mut Vec<String>, scanned: &mut usize) {
    const ZMAGIC: [u8; 4] = [0x28, 0xb5, 0x2f, 0xfd];
    for ((dir, id), b) in dump_store(be) {
        if dir == "keys" {
            continue;
        }
        *scanned += 1;
        for s in &m.strings {
            if b.windows(s.len()).any(|w| w == &s[..]) {
                out.push(format!("{stage}: {dir}/{} contains plaintext marker {:?}", &id[..8], String::from_utf8_lossy(s)));
            }
        }
        let json_like = |x: &[u8]| {
            matches!(x.first(), Some(b'{' | b'[')) && serde_json::from_slice::<serde_json::Value>(x).is_ok()
        };
        if json_like(&b) {
            out.push(format!("{stage}: {dir}/{} is plain JSON", &id[..8]));
        }
        if b.starts_with(&ZMAGIC) || (b.first() == Some(&2) && b[1..].starts_with(&ZMAGIC)) {
            out.push(format!("{stage}: {dir}/{} starts with a zstd frame", &id[..8]));
        }
    }
}

#[derive(Clone, Debug)]
struct BlobLoc {
    tree: bool,
    id: String,
    off: u32,
    len: u32,
    ul: Option<u32>,
}

fn outcome<T: PartialEq>(r: Result<T, String>, base: &T) -> (String, String) {
    match r {
        Ok(x) if &x == base => ("same".to_string(), String::new()),
        Ok(_) => ("diff".to_string(), String::new()),
        Err(e) => ("err".to_string(), e),
    }
}

fn catch<T>(f: impl FnOnce() -> Result<T, String>) -> Result<T, String> {
    std::panic::catch_unwind(std::panic::AssertUnwindSafe(f)).unwrap_or_else(|_| Err("panic".to_string()))
}

/// Every read path that consumes index / snapshot files as a whole (not by id), run on a handle
/// with a history (opened, then a config change of an unrelated option): listing snapshots,
/// latest, by id prefix, check, prune_plan, to_indexed_ids, to_indexed.
/// Ok(canonical result) or Err(what failed) per path.
fn loader_paths(
    obe: &Arc<dyn WriteBackend>,
    key: &MasterKey,
    blobs: &[(bool, Id)],
    prefixes: &[String],
) -> Vec<(String, Result<String, String>)> {
    let es = |e: Box<RusticError>| format!("{}:{}", hk::classify(&e), e.to_string().lines().nth(3).unwrap_or("").chars().take(120).collect::<String>());
    let open = || -> Result<RepoOpen, String> {
        let mut h = open_repo(obe.clone(), None, key, &repo_opts()).map_err(|e| format!("open:{e}"))?;
        let v = !h.config().extra_verify();
        let _ = h.apply_config(&ConfigOptions::default().set_extra_verify(v)).map_err(|e| format!("apply_config:{e}"))?;
        Ok(h)
    };
    let mut out: Vec<(String, Result<String, String>)> = Vec::new();
    let mut h = match open() {
        Ok(h) => h,
        Err(e) => return vec![("open".to_string(), Err(e))],
    };
    out.push(("get_all_snapshots".to_string(), catch(|| {
        h.get_all_snapshots().map_err(es).map(|mut v| {
            v.sort_by_key(|s| s.id);
            v.iter().map(|s| serde_json::to_string(s).unwrap_or_default()).collect::<Vec<_>>().join("|")
        })
    })));
    out.push(("latest".to_string(), catch(|| h.get_snapshot_from_str("latest", |_| true).map_err(es).map(|s| s.id.to_hex().to_string()))));
    for p in prefixes {
        out.push((format!("snapshot-by-prefix:{p}"), catch(|| {
            h.get_snapshot_from_str(p, |_| true).map_err(es).map(|s| serde_json::to_string(&s).unwrap_or_default())
        })));
    }
    out.push(("check".to_string(), catch(|| match h.check(rustic_core::CheckOptions::default()) {
        Ok(r) if r.is_ok().is_ok() => Ok("clean".to_string()),
        Ok(_) => Err("check reports errors".to_string()),
        Err(e) => Err(es(e)),
    })));
    let popts = PruneOptions::default();
    out.push(("prune_plan".to_string(), catch(|| h.prune_plan(&popts).map_err(es).map(|p| format!("{:?}", p.stats)))));
    let has = |n: usize| format!("has={n}/{}", blobs.len());
    match catch(move || h.to_indexed_ids().map_err(es)) {
        Ok(hi) => {
            out.push(("to_indexed_ids".to_string(), Ok(has(blobs.iter().filter(|(t, id)| hk::index_has(&hi, *t, id)).count()))));
            h = hi.drop_index();
        }
        Err(e) => {
            out.push(("to_indexed_ids".to_string(), Err(e)));
            h = match open() {
                Ok(h) => h,
                Err(e) => {
                    out.push(("reopen".to_string(), Err(e)));
                    return out;
                }
            };
        }
    }
    match catch(move || h.to_indexed().map_err(es)) {
        Ok(hi) => out.push(("to_indexed".to_string(), Ok(has(blobs.iter().filter(|(t, id)| hk::index_has(&hi, *t, id)).count())))),
        Err(e) => out.push(("to_indexed".to_string(), Err(e))),
    }
    out
}

fn case_e2e(t: &mut Toks) -> anyhow::Result<String> {
    let seed = t.u();
    let nflip = t.u() as usize;
    let compress = t.s().to_string(); // "d" default, "n" none(level... v2 uncompressed = not settable) , or level
    let mut r = SplitMix(seed);
    let mut res = serde_json::Map::new();
    // --- source tree with distinctive names and contents
    let mut entries = Vec::new();
    let mut markers = Markers { strings: Vec::new() };
    let mk = |path: String, c: Content| Entry { path: path.into(), kind: Kind::File(c), mode: 0o644, mtime: (1_600_000_000, 0) };
    let dname = format!("secretdir-{seed}");
    entries.push(Entry { path: dname.clone().into(), kind: Kind::Dir, mode: 0o755, mtime: (1_600_000_000, 0) });
    markers.strings.push(dname.clone().into_bytes());
    for i in 0..6u64 {
        let name = format!("secretname-{seed}-{i}.txt");
        let line = format!("SECRET-CONTENT-{seed}-{i};");
        markers.strings.push(name.clone().into_bytes());
        markers.strings.push(line.clone().into_bytes());
        let mut body = Vec::new();
        let reps = 1 + r.below(40) as usize;
        for _ in 0..reps {
            body.extend_from_slice(line.as_bytes());
        }
        body.extend(Content::Random { seed: r.next(), len: r.below(3000) as usize }.bytes());
        entries.push(mk(format!("{dname}/{name}"), Content::Literal(body)));
    }
    // equal-sized incompressible files: blobs of identical length at identical offsets in several packs
    for i in 0..10u64 {
        entries.push(mk(format!("{dname}/eq-{i}.bin"), Content::Random { seed: r.next(), len: 700 }));
    }
    entries.push(mk(format!("{dname}/zeros.bin"), Content::Zero { len: 5000 }));
    entries.push(mk(format!("{dname}/jsonlike.json"), Content::Literal(format!("{{\"nodes\":[],\"SECRET-CONTENT-{seed}-json\":1}}").into_bytes())));
    markers.strings.push(format!("SECRET-CONTENT-{seed}-json").into_bytes());
    markers.strings.push(b"\"hostname\"".to_vec());
    markers.strings.push(b"\"nodes\"".to_vec());
    markers.strings.push(b"\"packs\"".to_vec());
    markers.strings.push(b"\"chunker_polynomial\"".to_vec());
    let src = tempfile::tempdir()?;
    materialize(src.path(), &entries)?;
    // --- repository
    let store = be_new();
    let mut cfg = small_pack_config(2_200, 1_200);
    if compress != "d" {
        cfg = cfg.set_compression(compress.parse::<i32>()?);
    }
    let ov = Overlay::new(store.clone());
    let obe: Arc<dyn WriteBackend> = ov.clone();
    let (repo, key) = init_repo(obe.clone(), None, &cfg, &repo_opts())?;
    let kb = master_bytes(&key);
    let mut scan = Vec::new();
    let mut scanned = 0usize;
    scan_store(&*store, &markers, "init", &mut scan, &mut scanned);
    let (repo, snap1) = backup_dir(repo, src.path(), "src", None)?;
    scan_store(&*store, &markers, "backup1", &mut scan, &mut scanned);
    // second backup: one file changed, one added
    std::fs::write(src.path().join(&dname).join("added.txt"), format!("SECRET-CONTENT-{seed}-added;").repeat(30))?;
    markers.strings.push(format!("SECRET-CONTENT-{seed}-added;").into_bytes());
    let (mut repo, _snap2) = backup_dir(repo, src.path(), "src", None)?;
    scan_store(&*store, &markers, "backup2", &mut scan, &mut scanned);
    // a config change of an unrelated option on the SAME handle (it keeps being used below)
    let changed = repo.apply_config(&ConfigOptions::default().set_min_packsize_tolerate_percent(31u32))?;
    anyhow::ensure!(changed, "apply_config did not change the config");
    scan_store(&*store, &markers, "apply-config", &mut scan, &mut scanned);
    let pw = format!("pw-{seed}");
    let _kid = repo.add_key(&pw, &KeyOptions::default())?;
    scan_store(&*store, &markers, "key-add", &mut scan, &mut scanned);
    repo.delete_snapshots(&[snap1.id])?;
    scan_store(&*store, &markers, "forget", &mut scan, &mut scanned);
    let mut popts = PruneOptions::default();
    popts.instant_delete = true;
    popts.keep_delete = Default::default();
    popts.keep_pack = Default::default();
    let plan = repo.prune_plan(&popts)?;
    repo.prune(&popts, plan)?;
    scan_store(&*store, &markers, "prune", &mut scan, &mut scanned);
    // a third backup so that there are at least two snapshots to swap
    std::fs::write(src.path().join(&dname).join("added2.txt"), b"more")?;
    let (repo, _snap3) = backup_dir(repo, src.path(), "src", None)?;
    scan_store(&*store, &markers, "backup3", &mut scan, &mut scanned);
    let clean = check_clean(&repo)?;
    // `hist`: the handle with a history (backups, apply_config, add_key, forget, prune)
    let hist = repo;
    let _ = res.insert("check_clean_before_tamper".into(), clean.into());
    let _ = res.insert("files_scanned".into(), scanned.into());
    let _ = res.insert("scan_violations".into(), scan.clone().into());
    // key files are JSON by design
    let keys_json = store.list(FileType::Key)?.iter().all(|id| {
        store.read_full(FileType::Key, id).is_ok_and(|b| serde_json::from_slice::<serde_json::Value>(&b).is_ok())
    });
    let _ = res.insert("key_files_are_json".into(), keys_json.into());

    // --- tamper matrix
    // the reads of snapshot and index files go through the PUBLIC API of a repository opened over
    // the overlay (Repository::cat_file -> the DecryptBackend configured by open_raw); the config
    // file and pack contents through the hooks
    let rp = open_repo(obe.clone(), None, &key, &repo_opts())?;
    let api_read_on = |h: &RepoOpen, tpe: FileType, id: &Id| -> Result<Vec<u8>, String> {
        if tpe == FileType::Config {
            hk::read_encrypted_full(obe.clone(), &kb, tpe, id).map_err(|e| format!("{}:{}", e.0, e.1))
        } else {
            h.cat_file(tpe, id.to_hex().as_str())
                .map(|b| b.to_vec())
                .map_err(|e| format!("{}:{}", hk::classify(&e), e.to_string().replace('\n', " ")))
        }
    };
    let api_read = |tpe: FileType, id: &Id| api_read_on(&rp, tpe, id);
    let mut by: BTreeMap<String, usize> = BTreeMap::new();
    let mut viol: Vec<serde_json::Value> = Vec::new();
    let mut count = |k: String| *by.entry(k).or_insert(0) += 1;
    // index: pack -> blobs
    let mut packs: BTreeMap<Id, Vec<BlobLoc>> = BTreeMap::new();
    let mut files: Vec<(FileType, Id, Vec<u8>)> = Vec::new();
    for tpe in [FileType::Config, FileType::Snapshot, FileType::Index, FileType::Pack] {
        for id in store.list(tpe)? {
            files.push((tpe, id, store.read_full(tpe, &id)?.to_vec()));
        }
    }
    for (tpe, id, _) in &files {
        if *tpe == FileType::Index {
            let d = hk::read_encrypted_full(obe.clone(), &kb, *tpe, id).map_err(|e| anyhow::anyhow!(e.1))?;
            let v: serde_json::Value = serde_json::from_slice(&d)?;
            for p in v["packs"].as_array().into_iter().flatten() {
                let pid = Id::from_hex(p["id"].as_str().unwrap())?;
                let e = packs.entry(pid).or_default();
                for b in p["blobs"].as_array().unwrap() {
                    e.push(BlobLoc {
                        tree: b["type"].as_str() == Some("tree"),
                        id: b["id"].as_str().unwrap().to_string(),
                        off: b["offset"].as_u64().unwrap() as u32,
                        len: b["length"].as_u64().unwrap() as u32,
                        ul: b["uncompressed_length"].as_u64().map(|x| x as u32),
                    });
                }
            }
        }
    }
    let probes_for = |len: usize, r: &mut SplitMix| -> Vec<String> {
        let mut p = vec![format!("f0.{}", r.below(8)), format!("f{}.{}", len - 1, r.below(8))];
        for pos in [15usize, 16, len.saturating_sub(16), len.saturating_sub(17), len.saturating_sub(4), len.saturating_sub(5)] {
            if pos < len {
                p.push(format!("f{}.{}", pos, r.below(8)));
            }
        }
        for _ in 0..nflip {
            p.push(format!("f{}.{}", r.below(len as u64), r.below(8)));
        }
        for j in [0usize, 1, 15, 16, 31, 32, len / 2, len - 1] {
            if j < len {
                p.push(format!("t{j}"));
            }
        }
        for j in [1usize, 16, 100] {
            p.push(format!("x{j}"));
        }
        p
    };
    // every read path that consumes index / snapshot files as a whole: baseline on the untampered store
    let all_blobs: Vec<(bool, Id)> = packs.values().flatten().map(|b| (b.tree, Id::from_hex(&b.id).unwrap())).collect();
    let prefixes: Vec<String> = files.iter().filter(|f| f.0 == FileType::Snapshot).map(|f| f.1.to_hex().as_str()[..10].to_string()).collect();
    let loader_base: BTreeMap<String, String> = loader_paths(&obe, &key, &all_blobs, &prefixes)
        .into_iter()
        .map(|(n, r)| r.map(|v| (n.clone(), v)).map_err(|e| anyhow::anyhow!("loader baseline {n} failed: {e}")))
        .collect::<Result<_, _>>()?;
    let _ = res.insert("loader_paths".into(), loader_base.keys().cloned().collect::<Vec<_>>().into());
    let mut nloader = 0usize;
    let mut nprobes = 0usize;
    for (tpe, id, orig) in &files {
        let mut swap_done = false;
        let tname = tpe.dirname().to_string();
        // candidates for substitution: other files of the same type
        let others: Vec<&(FileType, Id, Vec<u8>)> = files.iter().filter(|f| f.0 == *tpe && f.1 != *id).collect();
        let mut variants: Vec<(String, Vec<u8>)> = probes_for(orig.len(), &mut r).into_iter().map(|p| (p.clone(), apply_probe(&p, orig))).collect();
        for k in 0..others.len().min(3) {
            let o = others[(r.below(others.len() as u64) as usize + k) % others.len()];
            variants.push((format!("swap:{}", &o.1.to_hex().as_str()[..8]), o.2.clone()));
        }
        // baselines
        let base_file = if *tpe == FileType::Pack { None } else { Some(hk::read_encrypted_full(obe.clone(), &kb, *tpe, id).map_err(|e| anyhow::anyhow!(e.1))?) };
        let blobs = packs.get(id).cloned().unwrap_or_default();
        let mut base_blobs = Vec::new();
        let mut base_hdr = None;
        if *tpe == FileType::Pack {
            for b in &blobs {
                base_blobs.push(hk::read_blob(obe.clone(), &kb, id, b.off, b.len, b.ul).map_err(|e| anyhow::anyhow!(e))?);
            }
            base_hdr = Some(hk::pack_header_from_file(obe.clone(), &kb, id, None, orig.len() as u32).map_err(|e| anyhow::anyhow!(e.1))?);
        }
        let data_end = blobs.iter().map(|b| b.off + b.len).max().unwrap_or(0) as usize;
        for (pname, tb) in variants {
            nprobes += 1;
            let class = if pname.starts_with("swap") { "swap" } else { &pname[..1] };
            let newlen = tb.len();
            ov.set(*tpe, id, tb);
            // loaders: index and snapshot files, boundary truncations / first+last byte flips / extension / one swap
            let sel = match class {
                "t" => [0, 1, 31, 32, orig.len() - 1].contains(&newlen),
                "f" => pname.starts_with("f0.") || pname.starts_with(&format!("f{}.", orig.len() - 1)),
                "x" => pname == "x1",
                _ => !std::mem::replace(&mut swap_done, true),
            };
            if sel && matches!(*tpe, FileType::Index | FileType::Snapshot) {
                for (name, r) in loader_paths(&obe, &key, &all_blobs, &prefixes) {
                    nloader += 1;
                    let o = match &r {
                        Err(_) => "err",
                        Ok(v) if loader_base.get(&name) == Some(v) => "same",
                        Ok(_) => "diff",
                    };
                    let path = name.split(':').next().unwrap_or("").to_string();
                    count(format!("loader/{tname}/{class}/{path}/{o}"));
                    // a path that does not consume this file may return the same result; a path that
                    // returns a DIFFERENT result without an error is a violation
                    if o == "diff" {
                        viol.push(serde_json::json!({"type": tname, "id": id.to_hex().as_str(), "probe": pname, "read": name, "outcome": "diff",
                            "expected": loader_base.get(&name), "got": r.ok()}));
                    }
                }
            }
            if let Some(base) = &base_file {
                let (tp, i2) = (*tpe, *id);
                // the same read on the handle with a history
                let (oh, _) = outcome(catch(|| api_read_on(&hist, tp, &i2)), base);
                count(format!("{tname}/{class}/history-handle/{oh}"));
                if oh != "err" {
                    viol.push(serde_json::json!({"type": tname, "id": id.to_hex().as_str(), "probe": pname, "read": "get_file on a handle with a history (backup, apply_config, prune)", "outcome": oh}));
                }
                let (o, msg) = outcome(catch(|| api_read(tp, &i2)), base);
                count(format!("{tname}/{class}/{o}"));
                if o == "err" {
                    count(format!("errclass/{}", msg.split(':').next().unwrap_or("?")));
                }
                if o != "err" {
                    viol.push(serde_json::json!({"type": tname, "id": id.to_hex().as_str(), "probe": pname, "read": "get_file", "outcome": o}));
                }
            } else {
                // pack: header read (affected by anything at or after the end of the blob area,
                // by every change of length and by substitution) and the blob reads
                let touched = |lo: usize, hi: usize| -> bool {
                    match class {
                        "f" => {
                            let pos: usize = pname[1..].split('.').next().unwrap().parse().unwrap();
                            pos >= lo && pos < hi
                        }
                        "t" => newlen < hi,
                        "x" => false,
                        _ => true,
                    }
                };
                let hdr_affected = class != "f" || touched(data_end, orig.len());
                {
                    let (be2, kb2, i2) = (obe.clone(), kb.clone(), *id);
                    let (o, msg) = outcome(
                        catch(move || hk::pack_header_from_file(be2, &kb2, &i2, None, newlen as u32).map_err(|e| format!("{}:{}", e.0, e.1))),
                        base_hdr.as_ref().unwrap(),
                    );
                    let aff = if hdr_affected { "affected" } else { "unaffected" };
                    count(format!("{tname}-header/{class}/{aff}/{o}"));
                    if o == "err" {
                        count(format!("errclass/{}", msg.split(':').next().unwrap_or("?")));
                    }
                    if hdr_affected && o != "err" {
                        viol.push(serde_json::json!({"type": tname, "id": id.to_hex().as_str(), "probe": pname, "read": "pack_header", "outcome": o}));
                    }
                    if !hdr_affected && o != "same" {
                        viol.push(serde_json::json!({"type": tname, "id": id.to_hex().as_str(), "probe": pname, "read": "pack_header_unaffected", "outcome": o}));
                    }
                }
                for (b, base) in blobs.iter().zip(&base_blobs) {
                    let aff = touched(b.off as usize, (b.off + b.len) as usize);
                    let (be2, kb2, i2, b2) = (obe.clone(), kb.clone(), *id, b.clone());
                    let (o, _msg) = outcome(catch(move || hk::read_blob(be2, &kb2, &i2, b2.off, b2.len, b2.ul)), base);
                    count(format!("{tname}-blob/{class}/{}/{o}", if aff { "affected" } else { "unaffected" }));
                    if aff && o != "err" {
                        viol.push(serde_json::json!({"type": tname, "id": id.to_hex().as_str(), "probe": pname, "read": "blob", "blob": b.id, "outcome": o}));
                    }
                    if !aff && o != "same" {
                        viol.push(serde_json::json!({"type": tname, "id": id.to_hex().as_str(), "probe": pname, "read": "blob_unaffected", "blob": b.id, "outcome": o}));
                    }
                }
            }
            ov.clear();
        }
    }
    let _ = res.insert("loader_reads".into(), nloader.into());
    let _ = res.insert("files_tampered".into(), files.len().into());
    let _ = res.insert("probes".into(), nprobes.into());
    let _ = res.insert("outcomes".into(), serde_json::to_value(&by)?);
    let _ = res.insert("tamper_violations".into(), viol.into());

    // --- the substitution replay: swap two snapshot files, read one, run check --read-data
    let snaps: Vec<&(FileType, Id, Vec<u8>)> = files.iter().filter(|f| f.0 == FileType::Snapshot).collect();
    if snaps.len() >= 2 {
        let (a, b) = (snaps[0], snaps[1]);
        let ca = hk::read_encrypted_full(obe.clone(), &kb, FileType::Snapshot, &a.1).map_err(|e| anyhow::anyhow!(e.1))?;
        let cb = hk::read_encrypted_full(obe.clone(), &kb, FileType::Snapshot, &b.1).map_err(|e| anyhow::anyhow!(e.1))?;
        ov.set(FileType::Snapshot, &a.1, b.2.clone());
        ov.set(FileType::Snapshot, &b.1, a.2.clone());
        let ra_hist = api_read_on(&hist, FileType::Snapshot, &a.1);
        let ra = match (api_read(FileType::Snapshot, &a.1), ra_hist) {
            (Err(e), Err(_)) => Err(e),
            (Ok(x), _) | (_, Ok(x)) => Ok(x),      // either handle returning content is reported
        };
        let how = match &ra {
            Ok(x) if *x == cb && ca != cb => "returns-other-content".to_string(),
            Ok(x) if *x == ca => "same".to_string(),
            Ok(_) => "diff".to_string(),
            Err(e) => format!("err:{}", e.split(':').next().unwrap_or("?")),
        };
        let chk = match open_repo(obe.clone(), None, &key, &repo_opts()) {
            Ok(rp) => match std::panic::catch_unwind(std::panic::AssertUnwindSafe(|| check_clean(&rp))) {
                Ok(Ok(true)) => "clean".to_string(),
                Ok(Ok(false)) => "errors-reported".to_string(),
                Ok(Err(e)) => format!("failed:{}", e.to_string().lines().next().unwrap_or("")),
                Err(_) => "panic".to_string(),
            },
            Err(e) => format!("open-failed:{}", e.to_string().lines().next().unwrap_or("")),
        };
        ov.clear();
        let _ = res.insert("swap_snapshots".into(), serde_json::json!({"get_file": how, "check_read_data": chk, "a": a.1.to_hex().as_str(), "b": b.1.to_hex().as_str()}));
    }
    // password added during the run opens, a wrong one does not
    let bes = RepositoryBackends::new(store.clone(), None);
    let ok_pw = Repository::new(&repo_opts(), &bes)?.open(&Credentials::password(&pw)).is_ok();
    let bad_pw = match Repository::new(&repo_opts(), &bes)?.open(&Credentials::password("wrong")) {
        Ok(_) => "ok".to_string(),
        Err(e) => hk::classify(&e).to_string(),
    };
    let _ = res.insert("open_added_password".into(), ok_pw.into());
    let _ = res.insert("open_wrong_password".into(), bad_pw.into());
    Ok(serde_json::Value::Object(res).to_string())
}

/// key-management history: `keys SEED INIT op*` with INIT = im | ip:<pass>; ops a:<pass> (add_key; passwords are hex tokens, "-" = empty),
/// d:<n> (delete the n-th key file added, 0 = the init key), dc:<pass> (open with pass and try to
/// delete the key used), o:<pass> (open), m:<0|1> (open with the right / a wrong master key)
fn case_keys(t: &mut Toks) -> anyhow::Result<String> {
    let _seed = t.u();
    let init = t.s().to_string();
    let store = be_new();
    let bes = RepositoryBackends::new(store.clone(), None);
    let cfg = ConfigOptions::default();
    let master = MasterKey::new();
    let mut added: Vec<Option<KeyId>> = Vec::new();
    let repo = if let Some(p) = init.strip_prefix("ip:") {
        let rp = Repository::new(&repo_opts(), &bes)?.init(&Credentials::password(pw(p)), &KeyOptions::default(), &cfg)?;
        added.push(*rp.key_id());
        rp
    } else {
        added.push(None);
        Repository::new(&repo_opts(), &bes)?.init(&Credentials::Masterkey(master.clone()), &KeyOptions::default(), &cfg)?
    };
    let real_master = repo.key();
    let mut out = Vec::new();
    let cls = |r: RusticResult<()>| match r {
        Ok(()) => "ok".to_string(),
        Err(e) => {
            let c = hk::classify(&e);
            if c == "other" && e.to_string().contains("currently used key") { "current".to_string() } else { c.to_string() }
        }
    };
    while let Some(op) = t.opt_s() {
        let (k, arg) = op.split_once(':').unwrap();
        // a / dc / o carry a password (hex), d / m a number
        let pass = if matches!(k, "a" | "dc" | "o") { pw(arg) } else { String::new() };
        // f:<pass> plants a foreign key file (see below)
        match k {
            "a" => {
                let id = repo.add_key(&pass, &KeyOptions::default())?;
                added.push(Some(id));
                out.push("a=ok".to_string());
            }
            "f" => {
                // a key file made elsewhere: foreign master key, password known to its maker
                let foreign = key_bytes(0xF0E1_D2C3);
                let (fid, fdata) = hk::keyfile_generate(&foreign, &pw(arg)).map_err(|e| anyhow::anyhow!(e))?;
                store.write_bytes(FileType::Key, &fid, false, Bytes::from(fdata).into())?;
                out.push("f=ok".to_string());
            }
            "d" => {
                let n: usize = arg.parse()?;
                let r = match added.get(n).copied().flatten() {
                    Some(id) => cls(repo.delete_key(&id)),
                    None => "nokey".to_string(),
                };
                out.push(format!("d={r}"));
            }
            "dc" => {
                let r = match Repository::new(&repo_opts(), &bes)?.open(&Credentials::password(&pass)) {
                    Ok(rp) => match *rp.key_id() {
                        Some(id) => cls(rp.delete_key(&id)),
                        None => "nokey".to_string(),
                    },
                    Err(e) => format!("open-{}", hk::classify(&e)),
                };
                out.push(format!("dc={r}"));
            }
            "o" => {
                let r = match Repository::new(&repo_opts(), &bes)?.open(&Credentials::password(&pass)) {
                    Ok(rp) => {
                        if master_bytes(&rp.key()) == master_bytes(&real_master) { "ok".to_string() } else { "diffkey".to_string() }
                    }
                    Err(e) => hk::classify(&e).to_string(),
                };
                out.push(format!("o={r}"));
            }
            "m" => {
                let k = if arg == "1" { real_master.clone() } else { MasterKey::new() };
                let r = match Repository::new(&repo_opts(), &bes)?.open(&Credentials::Masterkey(k)) {
                    Ok(_) => "ok".to_string(),
                    Err(e) => hk::classify(&e).to_string(),
                };
                out.push(format!("m={r}"));
            }
            _ => anyhow::bail!("op"),
        }
    }
    let nkeys = store.list(FileType::Key)?.len();
    Ok(format!("ok nkeys={} {}", nkeys, out.join(" ")))
}

fn main() {
    for_each_case(|line| {
        let mut t = Toks::new(line);
        match t.s() {
            "file" => case_file(&mut t),
            "blob" => case_blob(&mut t),
            "plain" => case_plain(&mut t),
            "nonces" => case_nonces(&mut t),
            "kf" => case_kf(&mut t),
            "kft" => case_kft(&mut t),
            "e2e" => case_e2e(&mut t).unwrap_or_else(|e| format!("fail {}", e.to_string().replace('\n', " "))),
            "keys" => case_keys(&mut t).unwrap_or_else(|e| format!("fail {}", e.to_string().replace('\n', " "))),
            _ => "badcase".to_string(),
        }
    });
}
