//! C11 correspondence.
//!
//! Default mode: drive the real `Parent` (hook `verif_hooks::c11`) on in-memory trees.
//! Case line (integers): `ic ii  ntrees {id kind nnodes node*}  nidx idx*  nparents pid*
//! nevents {0 node name | 1 | 2 node}` with
//! `node := name type targ size mt_opt ct_opt inode other ncontent(-1 = None) content* subtree_opt`,
//! `opt := 0 | 1 v` (time stamps in nanoseconds), type 0 file 1 dir 2 symlink(targ) 3 dev(targ) 4 chardev(targ) 5 fifo 6 socket,
//! tree kind 0 = JSON of the nodes, 1 = undecodable bytes.
//! Result: one token per event (`T:M<id>|T:N|T:X`, `E:ok|E:err`, `O:<M|N|X>:<content>`), then `| P<id|->`.
//!
//! Mode `e2e` (argv[2]): case line `seed popt prune stealth`; see `e2e_case`.
//! Mode `iter` (argv[2]): the real TreeIterator on a given item stream; see `iter_case`.
//! Mode `mem` (argv[2]): backups of in-memory sources with freely chosen metadata; see `mem_case`.
use std::collections::BTreeMap;
use std::ffi::OsString;
use std::fs;
use std::os::unix::fs::MetadataExt;
use std::path::{Path, PathBuf};

use rustic_core::jiff::Timestamp;
use rustic_core::repofile::{Metadata, Node, NodeType};
use rustic_core::verif_hooks::c11::{MemTrees, PResult, ParentHandle, tree_json};
use rustic_core::repofile::SnapshotFile;
use rustic_core::{
    ReadSource, ReadSourceEntry, RusticResult,
    BackupOptions, DataId, FileType, Id, ParentOptions, ReadBackend, RepairIndexOptions, RestoreOptions, TreeId,
    WriteBackend,
};
use sha2::{Digest, Sha256};
use verif_harness::e2e::*;
use verif_harness::*;

// ------------------------------------------------------------------ hook mode

fn name_of(n: u64) -> OsString {
    OsString::from(format!("n{n:06}"))
}

fn opt(t: &mut Toks) -> Option<u64> {
    if t.u() == 1 { Some(t.u()) } else { None }
}

/// time stamps travel as nanoseconds since the epoch
fn ts_of(ns: u64) -> Timestamp {
    Timestamp::new((ns / 1_000_000_000) as i64, (ns % 1_000_000_000) as i32).unwrap()
}

fn rd_node(t: &mut Toks) -> Node {
    let name = t.u();
    let ty = t.u();
    let targ = t.u();
    let size = t.u();
    let mt = opt(t);
    let ct = opt(t);
    let inode = t.u();
    let other = t.u();
    let nc = t.i();
    let content: Option<Vec<DataId>> = if nc < 0 {
        None
    } else {
        Some((0..nc).map(|_| DataId::from(id_from_u64(t.u()))).collect())
    };
    let subtree = opt(t).map(|i| TreeId::from(id_from_u64(i)));
    let node_type = match ty {
        0 => NodeType::File,
        1 => NodeType::Dir,
        2 => NodeType::Symlink { linktarget: format!("t{targ}"), linktarget_raw: None },
        3 => NodeType::Dev { device: targ },
        4 => NodeType::Chardev { device: targ },
        5 => NodeType::Fifo,
        _ => NodeType::Socket,
    };
    let mut meta = Metadata::default();
    meta.size = size;
    meta.mtime = mt.map(ts_of);
    meta.ctime = ct.map(ts_of);
    meta.inode = inode;
    meta.mode = Some(other as u32);
    let mut n = Node::new_node(&name_of(name), node_type, meta);
    n.content = content;
    n.subtree = subtree;
    n
}

fn content_str(n: &Node) -> String {
    match &n.content {
        None => "-".to_string(),
        Some(v) if v.is_empty() => "e".to_string(),
        Some(v) => v.iter().map(|d| id_to_u64(&**d).to_string()).collect::<Vec<_>>().join(","),
    }
}

fn hook_case(line: &str) -> String {
    let mut t = Toks::new(line);
    let ic = t.u() == 1;
    let ii = t.u() == 1;
    let ntrees = t.u();
    let mut trees = Vec::new();
    for _ in 0..ntrees {
        let id = id_from_u64(t.u());
        let kind = t.u();
        let nn = t.u();
        let nodes: Vec<Node> = (0..nn).map(|_| rd_node(&mut t)).collect();
        let bytes = if kind == 0 { tree_json(nodes) } else { b"{not a tree".to_vec() };
        trees.push((id, bytes));
    }
    let nidx = t.u();
    let idx: Vec<Id> = (0..nidx).map(|_| id_from_u64(t.u())).collect();
    let np = t.u();
    let parents: Vec<Id> = (0..np).map(|_| id_from_u64(t.u())).collect();
    let mem = MemTrees::new(trees, idx);
    let mut h = ParentHandle::new(mem, parents, ic, ii);
    let ne = t.u();
    let mut out = Vec::new();
    for _ in 0..ne {
        match t.u() {
            0 => {
                let node = rd_node(&mut t);
                let name = name_of(t.u());
                // a matched node without subtree makes the real code panic (unwrap): caught by the caller
                match h.new_tree(node, name) {
                    Ok(PResult::Matched(id)) => out.push(format!("T:M{}", id_to_u64(&id))),
                    Ok(PResult::NotFound) => out.push("T:N".to_string()),
                    Ok(PResult::NotMatched) => out.push("T:X".to_string()),
                    Err(()) => out.push("T:err".to_string()),
                }
            }
            1 => out.push(if h.end_tree() { "E:ok".to_string() } else { "E:err".to_string() }),
            _ => {
                let node = rd_node(&mut t);
                match h.other(node) {
                    Ok((n, r)) => {
                        let c = match r {
                            PResult::Matched(()) => "M",
                            PResult::NotFound => "N",
                            PResult::NotMatched => "X",
                        };
                        out.push(format!("O:{c}:{}", content_str(&n)));
                    }
                    Err(()) => out.push("O:err".to_string()),
                }
            }
        }
    }
    let p = h.tree_id().map_or("-".to_string(), |i| id_to_u64(&i).to_string());
    format!("{} | P{}", out.join(" "), p)
}

// ------------------------------------------------------------------ e2e mode

#[derive(Clone, Debug, PartialEq, Eq)]
struct Ent {
    kind: u8, // 0 file, 1 dir, 2 symlink
    size: u64,
    mtime: (i64, i64),
    ctime: (i64, i64),
    ino: u64,
    digest: Vec<u8>, // sha256 of the bytes / the link target
}

fn scan_state(root: &Path) -> BTreeMap<PathBuf, Ent> {
    use std::os::unix::ffi::OsStrExt;
    let mut m = BTreeMap::new();
    let mut stack = vec![root.to_path_buf()];
    while let Some(d) = stack.pop() {
        for e in fs::read_dir(&d).unwrap() {
            let p = e.unwrap().path();
            let md = fs::symlink_metadata(&p).unwrap();
            let ft = md.file_type();
            let (kind, digest) = if ft.is_dir() {
                stack.push(p.clone());
                (1, Vec::new())
            } else if ft.is_symlink() {
                (2, fs::read_link(&p).unwrap().as_os_str().as_bytes().to_vec())
            } else {
                (0, Sha256::digest(fs::read(&p).unwrap()).to_vec())
            };
            let _ = m.insert(
                p.strip_prefix(root).unwrap().to_path_buf(),
                Ent { kind, size: md.len(), mtime: (md.mtime(), md.mtime_nsec()), ctime: (md.ctime(), md.ctime_nsec()), ino: md.ino(), digest },
            );
        }
    }
    m
}

/// the closure of `is_parent` on what the local source records (type incl. link target, size, mtime, ctime, inode)
fn meta_match(p: &Ent, c: &Ent, ic: bool, ii: bool) -> bool {
    let ty = p.kind == c.kind && (p.kind != 2 || p.digest == c.digest);
    ty && p.size == c.size && p.mtime == c.mtime && (ic || p.ctime == c.ctime) && (!ii || p.ino == 0 || c.ino == 0 || p.ino == c.ino)
}

fn rand_upto(r: &mut SplitMix, max: u64) -> Vec<u8> {
    let len = r.below(max) as usize;
    rand_bytes(r, len)
}

fn rand_bytes(r: &mut SplitMix, len: usize) -> Vec<u8> {
    Content::Random { seed: r.next(), len }.bytes()
}

struct Editor<'a> {
    root: &'a Path,
    r: &'a mut SplitMix,
    clock: i64,
    fresh: u64,
    log: Vec<&'static str>,
}

impl Editor<'_> {
    fn fresh_mtime(&mut self) -> (i64, u32) {
        self.clock += 1;
        (self.clock, (self.r.below(1_000_000_000)) as u32)
    }
    fn fresh_name(&mut self, tag: &str) -> String {
        self.fresh += 1;
        format!("{tag}{}", self.fresh)
    }
    fn pick(&mut self, kind: u8) -> Option<PathBuf> {
        let st = scan_state(self.root);
        let c: Vec<&PathBuf> = st.iter().filter(|(_, e)| e.kind == kind).map(|(p, _)| p).collect();
        if c.is_empty() { None } else { Some(c[self.r.below(c.len() as u64) as usize].clone()) }
    }
    fn pick_dir_or_root(&mut self) -> PathBuf {
        if self.r.below(3) == 0 { PathBuf::new() } else { self.pick(1).unwrap_or_default() }
    }
    fn old_mtime(p: &Path) -> (i64, u32) {
        let md = fs::symlink_metadata(p).unwrap();
        (md.mtime(), md.mtime_nsec() as u32)
    }
    /// one edit; `stealth` allows the edit that keeps size and mtime
    /// `stealth`: 0 = never the edit that keeps size and mtime, 1 = sometimes, 2 = every second edit
    fn step(&mut self, stealth: u64) {
        let k = if stealth == 2 && self.r.below(2) == 0 { 17 } else { self.r.below(if stealth > 0 { 18 } else { 16 }) };
        match k {
            0 | 1 => {
                // content change with size change, new mtime
                if let Some(f) = self.pick(0) {
                    let p = self.root.join(&f);
                    let old = fs::metadata(&p).unwrap().len() as usize;
                    let delta = 1 + self.r.below(3000) as usize;
                    let len = if self.r.below(2) == 0 && old > delta { old - delta } else { old + delta };
                    let b = rand_bytes(self.r, len);
                    fs::write(&p, b).unwrap();
                    let t = self.fresh_mtime();
                    set_mtime(&p, t).unwrap();
                    self.log.push("content&size");
                }
            }
            2 => {
                // content change with size change, mtime restored
                if let Some(f) = self.pick(0) {
                    let p = self.root.join(&f);
                    let t = Self::old_mtime(&p);
                    let old = fs::metadata(&p).unwrap().len() as usize;
                    let extra = 1 + self.r.below(100) as usize;
                    let b = rand_bytes(self.r, old + extra);
                    fs::write(&p, b).unwrap();
                    set_mtime(&p, t).unwrap();
                    self.log.push("content&size,mtime-kept");
                }
            }
            3 | 4 => {
                // content change, same size, new mtime
                if let Some(f) = self.pick(0) {
                    let p = self.root.join(&f);
                    let old = fs::read(&p).unwrap();
                    if !old.is_empty() {
                        let mut b = old.clone();
                        let i = self.r.below(b.len() as u64) as usize;
                        b[i] ^= 1 + self.r.below(255) as u8;
                        fs::write(&p, b).unwrap();
                        let t = self.fresh_mtime();
                        set_mtime(&p, t).unwrap();
                        self.log.push("content-samesize,mtime");
                    }
                }
            }
            5 => {
                if let Some(f) = self.pick(0) {
                    let t = self.fresh_mtime();
                    set_mtime(&self.root.join(&f), t).unwrap();
                    self.log.push("touch");
                }
            }
            6 => {
                // rename a file, a directory or a symlink
                let kind = self.r.below(3) as u8;
                if let Some(f) = self.pick(kind) {
                    let n = self.fresh_name("r");
                    let to = self.root.join(f.parent().unwrap()).join(n);
                    fs::rename(self.root.join(&f), to).unwrap();
                    self.log.push("rename");
                }
            }
            7 => {
                // file -> dir with children
                if let Some(f) = self.pick(0) {
                    let p = self.root.join(&f);
                    fs::remove_file(&p).unwrap();
                    fs::create_dir(&p).unwrap();
                    for i in 0..1 + self.r.below(2) {
                        let b = rand_upto(self.r, 5000);
                        let c = p.join(format!("c{i}"));
                        fs::write(&c, b).unwrap();
                        let t = self.fresh_mtime();
                        set_mtime(&c, t).unwrap();
                    }
                    self.log.push("file->dir");
                }
            }
            8 => {
                // dir -> file
                if let Some(f) = self.pick(1) {
                    let p = self.root.join(&f);
                    fs::remove_dir_all(&p).unwrap();
                    let b = rand_upto(self.r, 5000);
                    fs::write(&p, b).unwrap();
                    let t = self.fresh_mtime();
                    set_mtime(&p, t).unwrap();
                    self.log.push("dir->file");
                }
            }
            9 => {
                // file -> symlink, symlink -> file, dir -> symlink
                let kind = self.r.below(3) as u8;
                if let Some(f) = self.pick(kind) {
                    let p = self.root.join(&f);
                    match kind {
                        0 => {
                            fs::remove_file(&p).unwrap();
                            std::os::unix::fs::symlink(format!("../t{}", self.r.below(9)), &p).unwrap();
                            self.log.push("file->symlink");
                        }
                        1 => {
                            fs::remove_dir_all(&p).unwrap();
                            std::os::unix::fs::symlink(format!("../t{}", self.r.below(9)), &p).unwrap();
                            self.log.push("dir->symlink");
                        }
                        _ => {
                            fs::remove_file(&p).unwrap();
                            let b = rand_upto(self.r, 5000);
                            fs::write(&p, b).unwrap();
                            let t = self.fresh_mtime();
                            set_mtime(&p, t).unwrap();
                            self.log.push("symlink->file");
                        }
                    }
                }
            }
            10 => {
                // retarget a symlink
                if let Some(f) = self.pick(2) {
                    let p = self.root.join(&f);
                    fs::remove_file(&p).unwrap();
                    std::os::unix::fs::symlink(format!("../u{}", self.r.below(99)), &p).unwrap();
                    self.log.push("symlink-retarget");
                }
            }
            11 => {
                // add a file (names before, between and after the existing ones)
                let d = self.pick_dir_or_root();
                let tag = ["A", "e1_", "zz"][self.r.below(3) as usize];
                let n = self.fresh_name(tag);
                let p = self.root.join(d).join(n);
                let b = rand_upto(self.r, 20000);
                fs::write(&p, b).unwrap();
                let t = self.fresh_mtime();
                set_mtime(&p, t).unwrap();
                self.log.push("add-file");
            }
            12 => {
                // add a directory with a file
                let d = self.pick_dir_or_root();
                let n = self.fresh_name("d");
                let p = self.root.join(d).join(n);
                fs::create_dir(&p).unwrap();
                let b = rand_upto(self.r, 5000);
                fs::write(p.join("f"), b).unwrap();
                self.log.push("add-dir");
            }
            13 => {
                // remove a file, a directory or a symlink
                let kind = self.r.below(3) as u8;
                if let Some(f) = self.pick(kind) {
                    let p = self.root.join(&f);
                    if kind == 1 { fs::remove_dir_all(&p).unwrap() } else { fs::remove_file(&p).unwrap() }
                    self.log.push("remove");
                }
            }
            14 | 15 => {
                // same size, other bytes, mtime moved WITHIN the same second: a whole-second mtime gets a
                // sub-second part, a fractional one becomes the whole second (inside the premise: mtime differs)
                if let Some(f) = self.pick(0) {
                    let p = self.root.join(&f);
                    let old = fs::read(&p).unwrap();
                    if !old.is_empty() {
                        let (s0, ns0) = Self::old_mtime(&p);
                        let ns = if ns0 == 0 { [1u32, 1000, 400_000_000, 999_999_999][self.r.below(4) as usize] } else { 0 };
                        let mut b = old.clone();
                        let i = self.r.below(b.len() as u64) as usize;
                        b[i] ^= 1 + self.r.below(255) as u8;
                        fs::write(&p, b).unwrap();
                        set_mtime(&p, (s0, ns)).unwrap();
                        self.log.push(if ns0 == 0 { "content-samesize,mtime-whole->subsec" } else { "content-samesize,mtime-subsec->whole" });
                    }
                }
            }
            _ => {
                // same size, other bytes, mtime restored: only ctime tells (OUTSIDE the premise iff ctime is ignored)
                if let Some(f) = self.pick(0) {
                    let p = self.root.join(&f);
                    let old = fs::read(&p).unwrap();
                    if !old.is_empty() {
                        let t = Self::old_mtime(&p);
                        let mut b = old.clone();
                        let i = self.r.below(b.len() as u64) as usize;
                        b[i] ^= 1 + self.r.below(255) as u8;
                        // rewrite in place (same inode)
                        fs::write(&p, b).unwrap();
                        set_mtime(&p, t).unwrap();
                        self.log.push("content-samesize,mtime-kept");
                    }
                }
            }
        }
    }
}

fn popts(popt: u64, parents: &[String]) -> ParentOptions {
    let po = ParentOptions::default();
    match popt {
        0 => po,
        1 => po.parents(vec![parents[0].clone()]),
        2 => po.parents(parents.to_vec()),
        3 => po.ignore_ctime(true),
        4 => po.ignore_inode(true),
        5 => po.skip_if_unchanged(true),
        6 => po.ignore_ctime(true).ignore_inode(true),
        _ => po.parents(parents.iter().rev().cloned().collect::<Vec<_>>()).ignore_ctime(true),
    }
}

/// `seed popt prune stealth`
/// state0 --backup--> snapA --edits--> state1' --backup--> snap1 --[prune]--edits--> state1
/// then backup with parent options `popt` (#2), restore #2, forced backup (#F), restore #F.
fn e2e_case(line: &str) -> String {
    let mut t = Toks::new(line);
    let seed = t.u();
    let popt = t.u();
    let prune = t.u();
    let stealth = t.u();
    let res = (|| -> anyhow::Result<String> {
        let mut r = SplitMix(seed);
        let tp = TreeParams { max_entries: 28, max_depth: 3, max_file: 30_000, odd_names: true, symlinks: true, hardlinks: false };
        let mut entries = gen_tree(&mut r, &tp);
        // at least two files
        for i in 0..2 {
            entries.push(Entry { path: PathBuf::from(format!("base{i}")), kind: Kind::File(Content::Random { seed: r.next(), len: 3000 + r.below(20000) as usize }), mode: 0o644, mtime: (1_600_000_000 + i, 5) });
        }
        let src = tempfile::Builder::new().prefix("c11src").tempdir()?;
        let root = src.path().join("src");
        materialize(&root, &entries)?;
        {
            let mut r2 = SplitMix(seed ^ 0x5eed_c11);
            for e in &entries {
                if matches!(e.kind, Kind::File(_)) && r2.below(2) == 0 {
                    set_mtime(&root.join(&e.path), (e.mtime.0, 0))?;
                }
            }
        }
        let store = mem();
        let (repo, _key) = init_repo(store.clone(), None, &small_pack_config(6_000, 600), &repo_opts())?;
        let ic = matches!(popt, 3 | 6 | 7);
        let ii = matches!(popt, 4 | 6);
        // snapshot A of state0
        let state_a = scan_state(&root);
        let (repo, snap_a) = backup_dir(repo, &root, "src", Some(BackupOptions::default().parent_opts(ParentOptions::default().force(true))))?;
        let mut ed = Editor { root: &root, r: &mut r, clock: 1_800_000_000, fresh: 0, log: Vec::new() };
        let two = matches!(popt, 2 | 7);
        let mut parent_states = vec![];
        let mut parent_ids = vec![];
        let (mut repo, snap1) = if two {
            if prune == 3 {
                // a NEWER VERSION of base0 with the same size (other bytes, new mtime): snapshot A keeps the older one
                let p = root.join("base0");
                let len = fs::metadata(&p)?.len() as usize;
                let b = rand_bytes(ed.r, len);
                fs::write(&p, b)?;
                let t = ed.fresh_mtime();
                set_mtime(&p, t)?;
            }
            let n = if prune == 3 { ed.r.below(2) } else { 1 + ed.r.below(3) };
            for _ in 0..n { ed.step(0); }
            let st = scan_state(&root);
            let (repo, s1) = backup_dir(repo, &root, "src", None)?;
            parent_states.push(st);
            parent_ids.push(s1.id.to_hex().to_string());
            parent_states.push(state_a.clone());
            parent_ids.push(snap_a.id.to_hex().to_string());
            (repo, s1)
        } else {
            parent_states.push(state_a.clone());
            parent_ids.push(snap_a.id.to_hex().to_string());
            (repo, snap_a.clone())
        };
        ed.log.clear();
        // partly pruned parent: drop one data pack holding a chunk of a parent file, rebuild the index
        let mut pruned_pack = String::from("-");
        if prune == 1 || prune == 3 {
            let irepo = repo.to_indexed()?;
            let mut victim = None;
            let base0 = PathBuf::from("base0");
            let files: Vec<&PathBuf> = if prune == 3 && parent_states[0].get(&base0).is_some_and(|e| e.kind == 0) {
                vec![&base0]       // the data pack of the newer version that only the newest parent holds
            } else {
                parent_states[0].iter().filter(|(_, e)| e.kind == 0 && e.size > 0).map(|(p, _)| p).collect()
            };
            if !files.is_empty() {
                let f = files[ed.r.below(files.len() as u64) as usize];
                let node = irepo.node_from_path(snap1.tree, &Path::new("src").join(f))?;
                if let Some(c) = node.content.as_ref().and_then(|c| c.first()) {
                    victim = Some(irepo.get_index_entry(c)?.pack);
                }
            }
            repo = irepo.drop_index();
            if let Some(v) = victim {
                store.remove(FileType::Pack, &v, false)?;
                repo.repair_index(&RepairIndexOptions::default(), false)?;
                pruned_pack = v.to_hex().to_string()[..8].to_string();
            }
        }
        // parent whose sub-tree blob was pruned: drop the tree pack holding only a sub-directory's tree
        let mut pruned_dir: Option<PathBuf> = None;
        if prune == 2 {
            let irepo = repo.to_indexed()?;
            let mut victim = None;
            let root_pack = irepo.get_index_entry(&snap1.tree)?.pack;
            let top = irepo.node_from_path(snap1.tree, Path::new("src"))?;
            if let Some(top_id) = top.subtree {
                let top_pack = irepo.get_index_entry(&top_id)?.pack;
                let tree = irepo.get_tree(&top_id)?;
                let dirs: Vec<&Node> = tree.nodes.iter().filter(|n| n.is_dir() && n.subtree.is_some()).collect();
                for n in dirs {
                    let pk = irepo.get_index_entry(&n.subtree.unwrap())?.pack;
                    if pk != root_pack && pk != top_pack {
                        victim = Some(pk);
                        pruned_dir = Some(PathBuf::from(n.name().into_owned()));
                        break;
                    }
                }
            }
            repo = irepo.drop_index();
            if let Some(v) = victim {
                store.remove(FileType::Pack, &v, true)?;
                repo.repair_index(&RepairIndexOptions::default(), false)?;
                pruned_pack = format!("tree:{}", &v.to_hex().to_string()[..8]);
            }
        }
        let before = scan_state(&root);
        let nsteps = if prune == 3 { ed.r.below(3) } else if stealth == 2 { 1 + ed.r.below(4) } else { ed.r.below(7) };
        for _ in 0..nsteps { ed.step(stealth); }
        let edits = ed.log.join("+");
        let state1 = scan_state(&root);
        // premise: every regular file whose bytes differ from a parent state's also differs in type/size/mtime/(ctime)
        let mut premise = true;
        let mut stealthy = 0;
        let used_parents = if two { parent_states.len() } else { 1 };
        for ps in parent_states.iter().take(used_parents) {
            for (p, c) in &state1 {
                if c.kind != 0 { continue; }
                if let Some(pe) = ps.get(p) {
                    if meta_match(pe, c, ic, false) && pe.digest != c.digest {
                        premise = false;
                        stealthy += 1;
                    }
                }
            }
        }
        // expected classification w.r.t. the first parent (single-parent variants)
        let p0 = &parent_states[0];
        let (mut e_unmod, mut e_changed, mut e_new) = (0, 0, 0);
        for (p, c) in &state1 {
            if c.kind == 1 { continue; }
            match p0.get(p) {
                // a directory of that name in the parent: found by name, type differs
                Some(pe) if meta_match(pe, c, ic, ii) => e_unmod += 1,
                Some(_) => e_changed += 1,
                None => e_new += 1,
            }
        }
        let untouched = state1.iter().filter(|(p, c)| c.kind != 1 && before.get(*p) == Some(*c)).count();
        // backup #2 with parents
        let po = popts(popt, &parent_ids);
        let (repo, snap2) = backup_dir(repo, &root, "src", Some(BackupOptions::default().parent_opts(po)))?;
        let sum2 = snap2.summary.clone().unwrap_or_default();
        let parents_used = snap2.parents.len();
        let saved2 = store.list(FileType::Snapshot)?.iter().any(|i| *i == *snap2.id);
        // restore #2 BEFORE the forced backup (which would re-save anything missing)
        let mut restore2 = String::from("skip");
        let dst = tempfile::Builder::new().prefix("c11dst").tempdir()?;
        let repo = if saved2 {
            match restore_to_catch(repo_reopen(&store, &_key)?, &snap2.id.to_hex(), dst.path()) {
                Ok(()) => {
                    let d = compare_dirs(&root, &dst.path().join("src"), CmpOpts { mode: true, mtime: true, dir_mtime: false })?;
                    restore2 = if d.is_empty() { "same".to_string() } else { format!("diff:{}", d[0].replace(' ', "_")) };
                }
                Err(e) => restore2 = format!("error:{}", e.replace([' ', '\n'], "_").chars().take(80).collect::<String>()),
            }
            repo
        } else {
            repo
        };
        // forced full backup of the same state
        let (_repo, snap_f) = backup_dir(repo, &root, "src", Some(BackupOptions::default().parent_opts(ParentOptions::default().force(true))))?;
        let sum_f = snap_f.summary.clone().unwrap_or_default();
        let mut restore_f = String::from("skip");
        if prune == 0 || true {
            let dst = tempfile::Builder::new().prefix("c11dstf").tempdir()?;
            match restore_to_catch(repo_reopen(&store, &_key)?, &snap_f.id.to_hex(), dst.path()) {
                Ok(()) => {
                    let d = compare_dirs(&root, &dst.path().join("src"), CmpOpts { mode: true, mtime: true, dir_mtime: false })?;
                    restore_f = if d.is_empty() { "same".to_string() } else { format!("diff:{}", d[0].replace(' ', "_")) };
                }
                Err(e) => restore_f = format!("error:{}", e.replace([' ', '\n'], "_").chars().take(80).collect::<String>()),
            }
        }
        let nfiles = state1.values().filter(|e| e.kind != 1).count();
        let pruned_dir_untouched = pruned_dir.as_ref().map_or(0, |d| {
            let same = |m: &BTreeMap<PathBuf, Ent>| -> Vec<(PathBuf, Ent)> { m.iter().filter(|(p, _)| p.starts_with(d)).map(|(p, e)| (p.clone(), e.clone())).collect() };
            u8::from(same(&before) == same(&state1))
        });
        Ok(format!(
            "ok tree_equal={} premise={} stealthy={} saved2={} parents_used={} restore2={} restoreF={} unmod={} changed={} new={} e_unmod={} e_changed={} e_new={} untouched={} nfiles={} f_new={} pruned={} pruned_dir_untouched={} edits={}",
            u8::from(snap2.tree == snap_f.tree), u8::from(premise), stealthy, u8::from(saved2), parents_used, restore2, restore_f,
            sum2.files_unmodified, sum2.files_changed, sum2.files_new, e_unmod, e_changed, e_new, untouched, nfiles,
            sum_f.files_new, pruned_pack, pruned_dir_untouched, if edits.is_empty() { "none".to_string() } else { edits }
        ))
    })();
    match res {
        Ok(s) => s,
        Err(e) => format!("error {}", format!("{e:#}").replace('\n', " ")),
    }
}

// ------------------------------------------------------------------ mem mode (in-memory source)

/// An in-memory backup source (public `ReadSource`): entries in the order a directory walk yields them,
/// with freely chosen metadata (mtime, ctime, inode) — what cannot be set on disk.
struct MemSource(Vec<(PathBuf, Node, Option<Vec<u8>>)>);

impl ReadSource for MemSource {
    type Open = std::io::Cursor<Vec<u8>>;
    type Iter = std::vec::IntoIter<RusticResult<ReadSourceEntry<Self::Open>>>;
    fn size(&self) -> RusticResult<Option<u64>> {
        Ok(None)
    }
    fn entries(&self) -> Self::Iter {
        self.0
            .iter()
            .map(|(path, node, data)| Ok(ReadSourceEntry { path: path.clone(), node: node.clone(), open: data.clone().map(std::io::Cursor::new) }))
            .collect::<Vec<_>>()
            .into_iter()
    }
}

/// one state: `nentries {kind depth name targ mt_opt ct_opt inode len seed}` in walk order below the root dir `r`
fn rd_state(t: &mut Toks) -> MemSource {
    let n = t.u();
    let mut v = Vec::new();
    let mut rmeta = Metadata::default();
    rmeta.mode = Some(0o755);
    rmeta.mtime = Some(ts_of(1_700_000_000_000_000_000));
    rmeta.ctime = Some(ts_of(1_700_000_000_000_000_000));
    v.push((PathBuf::from("r"), Node::new_node(std::ffi::OsStr::new("r"), NodeType::Dir, rmeta), None));
    let mut stack: Vec<PathBuf> = vec![PathBuf::from("r")];
    for _ in 0..n {
        let kind = t.u();
        let depth = t.u() as usize;
        let name = format!("n{:04}", t.u());
        let targ = t.u();
        let mt = opt(t);
        let ct = opt(t);
        let inode = t.u();
        let len = t.u() as usize;
        let seed = t.u();
        stack.truncate(depth);
        let path = stack.last().unwrap().join(&name);
        let mut meta = Metadata::default();
        meta.mtime = mt.map(ts_of);
        meta.ctime = ct.map(ts_of);
        meta.inode = inode;
        match kind {
            1 => {
                meta.mode = Some(0o755);
                v.push((path.clone(), Node::new_node(std::ffi::OsStr::new(&name), NodeType::Dir, meta), None));
                stack.push(path);
            }
            2 => {
                meta.mode = Some(0o777);
                let nt = NodeType::Symlink { linktarget: format!("t{targ}"), linktarget_raw: None };
                v.push((path, Node::new_node(std::ffi::OsStr::new(&name), nt, meta), None));
            }
            _ => {
                meta.mode = Some(0o644);
                meta.size = len as u64;
                let data = Content::Random { seed, len }.bytes();
                v.push((path, Node::new_node(std::ffi::OsStr::new(&name), NodeType::File, meta), Some(data)));
            }
        }
    }
    MemSource(v)
}

/// `ic ii skip nstates state*  nparents idx*  [gh gl gp gt {host label time}*nstates]`: states 0..n-2 are backed up with `force` (every file
/// read), the last one with the given parent options (explicit parents = snapshots of the listed
/// states, none listed = latest), then once more with `force`; every file of the parent-based
/// snapshot is dumped and compared with the source bytes.
fn mem_case(line: &str) -> String {
    let mut t = Toks::new(line);
    let ic = t.u() == 1;
    let ii = t.u() == 1;
    let skip = t.u() == 1;
    let ns = t.u() as usize;
    let states: Vec<MemSource> = (0..ns).map(|_| rd_state(&mut t)).collect();
    let np = t.u();
    let pidx: Vec<usize> = (0..np).map(|_| t.u() as usize).collect();
    // optional: group criterion and (host, label, time) of every state's snapshot (the last = the new one)
    let mut crit: Option<String> = None;
    let mut attrs: Vec<(u64, u64, u64)> = Vec::new();
    if let Some(first) = t.opt_s() {
        let flags = [first.parse::<u64>().unwrap(), t.u(), t.u(), t.u()];
        let names = ["host", "label", "paths", "tags"];
        crit = Some(names.iter().zip(flags).filter(|(_, f)| *f == 1).map(|(n, _)| *n).collect::<Vec<_>>().join(","));
        for _ in 0..ns {
            attrs.push((t.u(), t.u(), t.u()));
        }
    }
    let mk_snap = |k: usize| -> SnapshotFile {
        let mut sn = SnapshotFile::default();
        if let Some((h, l, tm)) = attrs.get(k) {
            sn.hostname = format!("h{h}");
            sn.label = format!("l{l}");
            sn.time = Timestamp::from_second(1_700_000_000 + *tm as i64).unwrap().to_zoned(rustic_core::jiff::tz::TimeZone::UTC);
        }
        sn
    };
    let res = (|| -> anyhow::Result<String> {
        let store = mem();
        let (repo, _key) = init_repo(store.clone(), None, &small_pack_config(6_000, 600), &repo_opts())?;
        let paths = [PathBuf::from("r")];
        let force = BackupOptions::default().parent_opts(ParentOptions::default().force(true));
        let mut repo = repo;
        let mut ids = Vec::new();
        for (k, st) in states[..ns - 1].iter().enumerate() {
            let r = repo.to_indexed_ids()?;
            let sn = r.archive(&force, st, mk_snap(k), &paths)?;
            ids.push(sn.id.to_hex().to_string());
            repo = r.drop_index();
        }
        let cur = &states[ns - 1];
        let mut po = ParentOptions::default().ignore_ctime(ic).ignore_inode(ii).skip_if_unchanged(skip);
        if !pidx.is_empty() {
            po = po.parents(pidx.iter().map(|i| ids[*i].clone()).collect::<Vec<_>>());
        }
        if let Some(c) = &crit {
            po = po.group_by(Some(c.parse::<rustic_core::SnapshotGroupCriterion>().map_err(|e| anyhow::anyhow!("{e:?}"))?));
        }
        let r = repo.to_indexed_ids()?;
        let snap2 = r.archive(&BackupOptions::default().parent_opts(po), cur, mk_snap(ns - 1), &paths)?;
        let sel: Vec<String> = snap2.parents.iter().map(|p| ids.iter().position(|i| *i == p.to_hex().to_string()).map_or("?".to_string(), |k| k.to_string())).collect();
        let sel = if sel.is_empty() { "-".to_string() } else { sel.join(",") };
        let sum2 = snap2.summary.clone().unwrap_or_default();
        let saved2 = store.list(FileType::Snapshot)?.iter().any(|i| *i == *snap2.id);
        let repo = r.drop_index();
        // dump every file of the parent-based snapshot BEFORE the forced backup
        let ir = repo.to_indexed()?;
        let mut dump = String::from("same");
        for (path, node, data) in &cur.0 {
            if let Some(d) = data {
                let mut got = Vec::new();
                let ok = ir.node_from_path(snap2.tree, path).and_then(|n| ir.dump(&n, &mut got)).is_ok();
                if !ok || &got != d {
                    dump = format!("{}:{}", if ok { "diff" } else { "error" }, path.display());
                    break;
                }
            }
            let _ = node;
        }
        let repo = ir.drop_index();
        let r = repo.to_indexed_ids()?;
        let snap_f = r.archive(&force, cur, SnapshotFile::default(), &paths)?;
        let sum_f = snap_f.summary.clone().unwrap_or_default();
        Ok(format!(
            "ok tree_equal={} dump={} saved2={} parents_used={} sel={} unmod={} changed={} new={} f_new={}",
            u8::from(snap2.tree == snap_f.tree), dump, u8::from(saved2), snap2.parents.len(), sel,
            sum2.files_unmodified, sum2.files_changed, sum2.files_new, sum_f.files_new
        ))
    })();
    match res {
        Ok(s) => s,
        Err(e) => format!("error {}", format!("{e:#}").replace('\n', " ")),
    }
}

// ------------------------------------------------------------------ iter mode (TreeIterator)

/// `fuel nitems { ncomps comp* node }`, comp := 0 (`/`) | 1 (`.`) | 2 (`..`) | 3 name.
/// Output: one token per item the real TreeIterator yields (`N:<name>:<node name>:<mode>:<mtime>`,
/// `E`, `O:<node name>:<mode>:<mtime>`), `diverges` when it is not exhausted after fuel-1 items.
fn iter_case(line: &str) -> String {
    use rustic_core::verif_hooks::c11::{IterItem, tree_iterator_items};
    let mut t = Toks::new(line);
    let fuel = t.u() as usize;
    let n = t.u();
    let mut items = Vec::new();
    for _ in 0..n {
        let nc = t.u();
        let mut p = PathBuf::new();
        for _ in 0..nc {
            match t.u() {
                0 => p.push("/"),
                1 => p.push("."),
                2 => p.push(".."),
                _ => p.push(name_of(t.u())),
            }
        }
        items.push((p, rd_node(&mut t)));
    }
    let out = tree_iterator_items(items, fuel);
    if out.len() >= fuel {
        return "diverges".to_string();
    }
    let nm = |n: &Node| n.name().to_string_lossy().trim_start_matches('n').trim_start_matches('0').to_string();
    let fix = |s: String| if s.is_empty() { "0".to_string() } else { s };
    let mt = |n: &Node| n.meta.mtime.map_or("-".to_string(), |x| x.as_nanosecond().to_string());
    let toks: Vec<String> = out
        .iter()
        .map(|i| match i {
            IterItem::NewTree(_, node, name) => {
                let c = fix(name.to_string_lossy().trim_start_matches('n').trim_start_matches('0').to_string());
                format!("N:{c}:{}:{}:{}", fix(nm(node)), node.meta.mode.unwrap_or(0), mt(node))
            }
            IterItem::EndTree => "E".to_string(),
            IterItem::Other(_, node) => format!("O:{}:{}:{}", fix(nm(node)), node.meta.mode.unwrap_or(0), mt(node)),
        })
        .collect();
    if toks.is_empty() { "-".to_string() } else { toks.join(" ") }
}

fn repo_reopen(store: &std::sync::Arc<rustic_testing::backend::in_memory_backend::InMemoryBackend>, key: &rustic_core::repofile::MasterKey) -> anyhow::Result<RepoOpen> {
    open_repo(store.clone(), None, key, &repo_opts())
}

/// restore; a panic inside the restore workers (missing blob) is reported as an error
fn restore_to_catch(repo: RepoOpen, snap: &str, dest: &Path) -> Result<(), String> {
    let snap = snap.to_string();
    let dest = dest.to_path_buf();
    let r = std::panic::catch_unwind(std::panic::AssertUnwindSafe(move || {
        restore_to(repo, &snap, &dest, RestoreOptions::default()).map(|_| ()).map_err(|e| format!("{e:#}"))
    }));
    match r {
        Ok(x) => x,
        Err(_) => Err("panic during restore".to_string()),
    }
}

fn main() {
    let mode = std::env::args().nth(2).unwrap_or_default();
    if std::env::var("C11_DEBUG").is_ok() {
        // no panic hook, no catch: show where a case fails
        for l in std::fs::read_to_string(std::env::args().nth(1).unwrap()).unwrap().lines() {
            println!("{}", if mode == "e2e" { e2e_case(l) } else if mode == "mem" { mem_case(l) } else if mode == "iter" { iter_case(l) } else { hook_case(l) });
        }
        return;
    }
    if mode == "iter" {
        for_each_case(|l| iter_case(l));
    } else if mode == "mem" {
        for_each_case(|l| mem_case(l));
    } else if mode == "e2e" {
        for_each_case(|l| e2e_case(l));
    } else {
        for_each_case(|l| hook_case(l));
    }
}
