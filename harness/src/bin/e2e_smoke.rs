//! Smoke test of the shared e2e helpers: backup a seeded tree through a recording
//! backend, check, restore, compare.
use std::sync::Arc;
use verif_harness::e2e::*;
use verif_harness::SplitMix;
fn main() -> anyhow::Result<()> {
    let seed: u64 = std::env::args().nth(1).and_then(|s| s.parse().ok()).unwrap_or(1);
    let mut r = SplitMix(seed);
    let tp = TreeParams { max_entries: 30, max_depth: 4, max_file: 200_000, odd_names: true, symlinks: true, hardlinks: true };
    let entries = gen_tree(&mut r, &tp);
    let src = tempfile::tempdir()?;
    materialize(src.path(), &entries)?;
    let store = mem();
    let rec = RecBackend::new(store.clone(), "main");
    let (repo, key) = init_repo(rec.clone(), None, &small_pack_config(20_000, 2_000), &repo_opts())?;
    let (repo, snap) = backup_dir(repo, src.path(), "src", None)?;
    let log = rec.take_log();
    println!("ops: {}", log.iter().map(|o| o.short()).collect::<Vec<_>>().join(" "));
    println!("check clean: {}", check_clean(&repo)?);
    let dst = tempfile::tempdir()?;
    let _repo = restore_to(repo, &snap.id.to_hex(), dst.path(), rustic_core::RestoreOptions::default())?;
    let d = compare_dirs(src.path(), &dst.path().join("src"), CmpOpts::default())?;
    println!("diffs: {d:?}");
    let _ = key;
    Ok(())
}
