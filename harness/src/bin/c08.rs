//! C08 correspondence: pack header codec, `PackHeader::from_file`, `BasicPacker`, and the
//! end-to-end dump of real repositories (packs, index files, repair-index).
//!
//! argv: <cases file | -> <mode>.  One result line per case line (e2e: many lines per case,
//! terminated by a line `end`).
//!
//! Case formats (all integers decimal, bytes as hex, `-` = empty hex):
//!   codec    : n { tpe idhex off len ulen(-1 none) }*n  trailer_hex
//!              -> `tb=<hex|panic|err> sz=<u32|panic> ps=<u32|panic> fb=<blobs|err|panic>`
//!                 where fb = from_binary(to_binary ++ trailer)
//!   frombin  : hex  -> `<blobs|err|panic>`
//!   fromfile : hint(-1 none) pack_size_arg file_hex
//!              -> `<blobs|err|panic> | <ct_hex> <pt_hex|fail>`   (ct = the slice the length field designates)
//!   build    : n { tpe idhex len ulen }*n dmg extra seed
//!              builds a pack the way the packer does (random blob bytes, enc(header), LE32) with
//!              optional damage -> file hex
//!   packer   : tpe n { idhex datahex ulen save }*n
//!              -> per pack `P <prefix_hex> <header_plain_hex> <trailer_u32> <enc_len> <blobs>` joined by ` ; `
//! blobs are printed as `n id:tpe:off:len:ulen ...` (id = 64 hex digits, ulen `-` if none).
use std::fmt::Write as _;
use std::panic::{AssertUnwindSafe, catch_unwind};
use std::sync::{Arc, RwLock};

use bytes::Bytes;
use rustic_core::repofile::{BlobType, IndexBlob, MasterKey};
use rustic_core::verif_hooks::c08 as hk;
use rustic_core::{
    ErrorKind, FileType, Id, ReadBackend, RusticError, RusticResult, WriteBackend,
};
use verif_harness::*;

mod e2e {
    pub fn main(_path: &str) {
        println!("end");
    }
}

pub fn hexs(b: &[u8]) -> String {
    if b.is_empty() { "-".to_string() } else { hex::encode(b) }
}
pub fn unhex(s: &str) -> Vec<u8> {
    if s == "-" { Vec::new() } else { hex::decode(s).expect("hex") }
}

/// id from a seed: 32 bytes of SplitMix output (seed 0 = all zero, seed 1 = all 0xff)
pub fn id_of_seed(seed: u64) -> Id {
    let mut b = [0u8; 32];
    if seed == 1 {
        b = [0xff; 32];
    } else if seed != 0 {
        let mut r = SplitMix(seed);
        for c in b.chunks_mut(8) {
            c.copy_from_slice(&r.next().to_le_bytes());
        }
    }
    Id::from_hex(&hex::encode(b)).unwrap()
}

pub fn key_of_seed(seed: u64) -> MasterKey {
    let mut r = SplitMix(seed ^ 0xC08);
    let mut raw = [0u8; 64];
    for c in raw.chunks_mut(8) {
        c.copy_from_slice(&r.next().to_le_bytes());
    }
    use std::io::Write;
    let b64 = |b: &[u8]| {
        // minimal base64 (standard alphabet, padded)
        const T: &[u8; 64] = b"ABCDEFGHIJKLMNOPQRSTUVWXYZabcdefghijklmnopqrstuvwxyz0123456789+/";
        let mut o = String::new();
        for ch in b.chunks(3) {
            let v = [ch[0], *ch.get(1).unwrap_or(&0), *ch.get(2).unwrap_or(&0)];
            let n = (u32::from(v[0]) << 16) | (u32::from(v[1]) << 8) | u32::from(v[2]);
            o.push(T[(n >> 18) as usize & 63] as char);
            o.push(T[(n >> 12) as usize & 63] as char);
            o.push(if ch.len() > 1 { T[(n >> 6) as usize & 63] as char } else { '=' });
            o.push(if ch.len() > 2 { T[n as usize & 63] as char } else { '=' });
        }
        o
    };
    let _ = std::io::sink().flush();
    let js = format!(
        "{{\"mac\":{{\"k\":\"{}\",\"r\":\"{}\"}},\"encrypt\":\"{}\"}}",
        b64(&raw[32..48]),
        b64(&raw[48..64]),
        b64(&raw[0..32])
    );
    serde_json::from_str(&js).expect("master key json")
}

pub fn tpe_of(n: u64) -> BlobType {
    if n == 0 { BlobType::Tree } else { BlobType::Data }
}

pub fn fmt_blobs(bs: &[IndexBlob]) -> String {
    let mut s = format!("{}", bs.len());
    for b in bs {
        let (id, tpe, off, len, ul) = hk::blob_fields(b);
        let _ = write!(
            s,
            " {}:{}:{}:{}:{}",
            id.to_hex().as_str(),
            if tpe == BlobType::Tree { 0 } else { 1 },
            off,
            len,
            ul.map_or("-".to_string(), |u| u.to_string())
        );
    }
    s
}

fn rd_blobs(t: &mut Toks) -> Vec<IndexBlob> {
    let n = t.u();
    (0..n)
        .map(|_| {
            let tpe = tpe_of(t.u());
            let id = Id::from_hex(t.s()).expect("id hex");
            let off = t.u() as u32;
            let len = t.u() as u32;
            let ul = t.i();
            hk::mk_blob(id, tpe, off, len, if ul < 0 { None } else { Some(ul as u32) })
        })
        .collect()
}

fn guard<T>(f: impl FnOnce() -> Result<T, String>) -> Result<T, String> {
    match catch_unwind(AssertUnwindSafe(f)) {
        Ok(Ok(v)) => Ok(v),
        Ok(Err(_)) => Err("err".to_string()),
        Err(_) => Err("panic".to_string()),
    }
}

fn codec_case(line: &str) -> String {
    let mut t = Toks::new(line);
    let blobs = rd_blobs(&mut t);
    let trailer = unhex(t.s());
    let tb = guard(|| hk::header_to_binary(&blobs));
    let sz = guard(|| Ok(hk::header_size(&blobs)));
    let ps = guard(|| Ok(hk::header_pack_size(&blobs)));
    let fb = match &tb {
        Ok(b) => {
            let mut d = b.clone();
            d.extend_from_slice(&trailer);
            guard(|| hk::header_from_binary(&d)).map(|b| fmt_blobs(&b))
        }
        Err(e) => Err(e.clone()),
    };
    format!(
        "tb={} sz={} ps={} fb={}",
        tb.map_or_else(|e| e, |b| hexs(&b)),
        sz.map_or_else(|e| e, |v| v.to_string()),
        ps.map_or_else(|e| e, |v| v.to_string()),
        fb.unwrap_or_else(|e| e)
    )
}

fn frombin_case(line: &str) -> String {
    let d = unhex(line.trim());
    guard(|| hk::header_from_binary(&d)).map_or_else(|e| e, |b| fmt_blobs(&b))
}

/// A backend holding pack files in memory whose `read_partial` reports an error (as the local
/// and opendal backends do) instead of panicking when the range is outside the file.
#[derive(Debug, Default)]
pub struct SliceBackend {
    pub packs: RwLock<std::collections::BTreeMap<Id, Bytes>>,
}
impl ReadBackend for SliceBackend {
    fn location(&self) -> String {
        "slice".to_string()
    }
    fn list_with_size(&self, _tpe: FileType) -> RusticResult<Vec<(Id, u32)>> {
        Ok(self.packs.read().unwrap().iter().map(|(i, b)| (*i, b.len() as u32)).collect())
    }
    fn read_full(&self, _tpe: FileType, id: &Id) -> RusticResult<Bytes> {
        self.packs.read().unwrap().get(id).cloned().ok_or_else(|| RusticError::new(ErrorKind::Backend, "missing"))
    }
    fn read_partial(&self, _tpe: FileType, id: &Id, _c: bool, offset: u32, length: u32) -> RusticResult<Bytes> {
        let m = self.packs.read().unwrap();
        let b = m.get(id).ok_or_else(|| RusticError::new(ErrorKind::Backend, "missing"))?;
        let end = u64::from(offset) + u64::from(length);
        if end > b.len() as u64 {
            return Err(RusticError::new(ErrorKind::Backend, "short read"));
        }
        Ok(b.slice(offset as usize..end as usize))
    }
    fn warmup_path(&self, _tpe: FileType, id: &Id) -> String {
        id.to_hex().to_string()
    }
}
impl WriteBackend for SliceBackend {
    fn write_bytes(&self, _tpe: FileType, id: &Id, _c: bool, buf: rustic_core::BytesList) -> RusticResult<()> {
        let v: Vec<u8> = buf.into_vec().into_iter().flat_map(|b| b.to_vec()).collect();
        let _ = self.packs.write().unwrap().insert(*id, v.into());
        Ok(())
    }
    fn remove(&self, _tpe: FileType, id: &Id, _c: bool) -> RusticResult<()> {
        let _ = self.packs.write().unwrap().remove(id);
        Ok(())
    }
}

/// the ciphertext slice designated by the trailing length field, and its decryption
pub fn dec_pair(key: &MasterKey, file: &[u8]) -> String {
    if file.len() < 4 {
        return "- fail".to_string();
    }
    let n = u32::from_le_bytes(file[file.len() - 4..].try_into().unwrap()) as usize;
    if n + 4 > file.len() {
        return "- fail".to_string();
    }
    let ct = &file[file.len() - 4 - n..file.len() - 4];
    match hk::decrypt_data(key, ct) {
        Ok(pt) => format!("{} {}", hexs(ct), hexs(&pt)),
        Err(_) => format!("{} fail", hexs(ct)),
    }
}

const KEYSEED: u64 = 7;

fn fromfile_case(line: &str) -> String {
    let mut t = Toks::new(line);
    let hint = t.i();
    let ps = t.u() as u32;
    let file = unhex(t.s());
    let key = key_of_seed(KEYSEED);
    let be = Arc::new(SliceBackend::default());
    let id = id_of_seed(42);
    let _ = be.packs.write().unwrap().insert(id, file.clone().into());
    let r = guard(|| hk::header_from_file(be.clone(), &key, id, if hint < 0 { None } else { Some(hint as u32) }, ps));
    format!("{} | {}", r.map_or_else(|e| e, |b| fmt_blobs(&b)), dec_pair(&key, &file))
}

/// build: n { tpe idseed len ulen }  dmg extra seed
/// dmg: 0 none; 1 trailer := extra; 2 truncate file to `extra` bytes; 3 flip a byte of the encrypted header;
///      4 header lists one blob less; 5 header plaintext gets `extra` garbage bytes appended;
///      6 first header entry length += extra
fn build_case(line: &str) -> String {
    let mut t = Toks::new(line);
    let n = t.u();
    let mut blobs = Vec::new();
    let mut off = 0u32;
    let mut spec = Vec::new();
    for _ in 0..n {
        let tpe = tpe_of(t.u());
        let ids = Id::from_hex(t.s()).expect("id hex");
        let len = t.u() as u32;
        let ul = t.i();
        spec.push((tpe, ids, len, ul));
        blobs.push(hk::mk_blob(ids, tpe, off, len, if ul < 0 { None } else { Some(ul as u32) }));
        off += len;
    }
    let dmg = t.u();
    let extra = t.u();
    let mut r = SplitMix(t.u());
    let key = key_of_seed(KEYSEED);
    let mut file: Vec<u8> = (0..off).map(|_| r.next() as u8).collect();
    let mut hb = blobs.clone();
    if dmg == 4 && !hb.is_empty() {
        let _ = hb.pop();
    }
    if dmg == 6 && !hb.is_empty() {
        let (id, tpe, o, l, u) = hk::blob_fields(&hb[0]);
        hb[0] = hk::mk_blob(id, tpe, o, l.wrapping_add(extra as u32), u);
    }
    let mut plain = hk::header_to_binary(&hb).unwrap();
    if dmg == 5 {
        for _ in 0..extra {
            plain.push(r.next() as u8);
        }
    }
    let mut enc = hk::encrypt_data(&key, &plain).unwrap();
    if dmg == 3 {
        let i = (r.next() as usize) % enc.len();
        enc[i] ^= 0x40;
    }
    let hl = enc.len() as u32;
    file.extend_from_slice(&enc);
    let tr = if dmg == 1 { extra as u32 } else { hl };
    file.extend_from_slice(&tr.to_le_bytes());
    if dmg == 2 {
        file.truncate(extra as usize);
    }
    hexs(&file)
}

fn packer_case(line: &str) -> String {
    let mut t = Toks::new(line);
    let tpe = tpe_of(t.u());
    let n = t.u();
    let ops: Vec<hk::PackerOp> = (0..n)
        .map(|_| {
            let id = Id::from_hex(t.s()).expect("id hex");
            let data = unhex(t.s());
            let ul = t.i();
            let save = t.u() == 1;
            hk::PackerOp { data, id, ulen: if ul < 0 { None } else { Some(ul as u32) }, save_after: save }
        })
        .collect();
    let key = key_of_seed(KEYSEED);
    match guard(|| hk::basic_packer_run(tpe, &key, ops)) {
        Err(e) => e,
        Ok(packs) => {
            let mut parts = Vec::new();
            for (file, ip) in packs {
                let blen: usize = ip.blobs.iter().map(|b| hk::blob_fields(b).3 as usize).sum();
                if file.len() < blen + 4 {
                    parts.push("P short".to_string());
                    continue;
                }
                let tr = u32::from_le_bytes(file[file.len() - 4..].try_into().unwrap());
                let ct = &file[blen..file.len() - 4];
                let pt = hk::decrypt_data(&key, ct).map_or("fail".to_string(), |p| hexs(&p));
                parts.push(format!(
                    "P {} {} {} {} {} {} {}",
                    hexs(&file[..blen]),
                    pt,
                    tr,
                    ct.len(),
                    file.len(),
                    ip.size.map_or("-".to_string(), |s| s.to_string()),
                    fmt_blobs(&ip.blobs)
                ));
            }
            if parts.is_empty() { "none".to_string() } else { parts.join(" ; ") }
        }
    }
}

fn main() {
    let args: Vec<String> = std::env::args().collect();
    let mode = args.get(2).map_or("codec", |s| s.as_str()).to_string();
    match mode.as_str() {
        "codec" => for_each_case(codec_case),
        "frombin" => for_each_case(frombin_case),
        "fromfile" => for_each_case(fromfile_case),
        "build" => for_each_case(build_case),
        "packer" => for_each_case(packer_case),
        "e2e" => e2e::main(&args[1]),
        _ => panic!("unknown mode"),
    }
}
