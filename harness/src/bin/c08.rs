//! C08 correspondence: pack header codec, `PackHeader::from_file`, `BasicPacker`, and the
//! end-to-end dump of real repositories (packs, index files, repair-index).
//!
//! argv: <cases file | -> <mode>.  One result line per case line (e2e: many lines per case,
//! terminated by a line `end`).
//!
//! Case formats (all integers decimal, bytes as hex, `-` = empty hex):
//!   codec    : n { tpe idhex off len ulen(-1 none) }*n  trailer_hex
//!              -> `tb=<hex|panic|err> sz=<u32|panic> ps=<u32|panic> fb=<blobs|err|panic>`
//!                 where fb = from_binary(to_binary ++ trailer)
//!   frombin  : hex  -> `<blobs|err|panic>`
//!   fromfile : hint(-1 none) pack_size_arg file_hex
//!              -> `<blobs|err|panic> | <ct_hex> <pt_hex|fail>`   (ct = the slice the length field designates)
//!   build    : n { tpe idhex len ulen }*n dmg extra seed
//!              builds a pack the way the packer does (random blob bytes, enc(header), LE32) with
//!              optional damage -> file hex
//!   packer   : tpe n { idhex datahex ulen save }*n
//!              -> per pack `P <prefix_hex> <header_plain_hex> <trailer_u32> <enc_len> <blobs>` joined by ` ; `
//! blobs are printed as `n id:tpe:off:len:ulen ...` (id = 64 hex digits, ulen `-` if none).
use std::fmt::Write as _;
use std::panic::{AssertUnwindSafe, catch_unwind};
use std::sync::{Arc, RwLock};

use bytes::Bytes;
use rustic_core::repofile::{BlobType, IndexBlob, MasterKey};
use rustic_core::verif_hooks::c08 as hk;
use rustic_core::{
    ErrorKind, FileType, Id, ReadBackend, RusticError, RusticResult, WriteBackend,
};
use verif_harness::*;

mod e2e {
    //! End-to-end driver: one case per line
    //!   seed comp(-1 none) datapack treepack chunk nfiles maxsize steps...
    //! steps: B (mutate source + backup) | F (forget oldest snapshot) | Pf / Pr (prune, repack fast / re-encoding,
    //! repack_all) | C (copy all snapshots into a fresh second repository, dumped with tag c) | D (dump)
    //! | R<mask> (remove index files selected by the bits of mask, 0 = all; repair_index; dump; check; digests)
    //! | T (put a 3-byte pack into the backend, run repair_index, report) .
    //! Output: lines `pack`, `implff`, `index`, `snap`, `check`, `note`, terminated by `end <ok|panic|error..>`.
    use super::*;
    use rustic_core::repofile::{IndexFile, SnapshotFile, Chunker};
    use rustic_core::{
        BackupOptions, CheckOptions, ConfigOptions, Credentials, KeyOptions, LimitOption, LsOptions, OpenStatus, PathList,
        PruneOptions, RepairIndexOptions, Repository, RepositoryBackends, RepositoryOptions,
    };
    use rustic_testing::backend::in_memory_backend::InMemoryBackend;
    use sha2::{Digest, Sha256};
    use std::io::{BufRead, Write};

    type Repo = Repository<OpenStatus>;

    fn new_repo(comp: i64, dpack: u64, tpack: u64, chunk: u64) -> anyhow::Result<(Arc<InMemoryBackend>, Repo)> {
        let be = Arc::new(InMemoryBackend::new());
        let bes = RepositoryBackends::new(be.clone(), None);
        let repo = Repository::new(&RepositoryOptions::default().no_cache(true), &bes)?;
        let mut co = ConfigOptions::default()
            .set_chunker(Chunker::FixedSize)
            .set_chunk_size(bytesize::ByteSize(chunk))
            .set_datapack_size(bytesize::ByteSize(dpack))
            .set_treepack_size(bytesize::ByteSize(tpack))
            .set_datapack_growfactor(0u32)
            .set_treepack_growfactor(0u32);
        // compression level 0 switches compression off in a version-2 repository
        co = co.set_compression(if comp >= 0 { comp as i32 } else { 0 });
        let repo = repo.init(&Credentials::Masterkey(MasterKey::new()), &KeyOptions::default(), &co)?;
        Ok((be, repo))
    }

    fn sha(b: &[u8]) -> String {
        hex::encode(Sha256::digest(b))
    }

    fn dump(out: &mut Vec<String>, tag: &str, be: &Arc<InMemoryBackend>, repo: &Repo) -> anyhow::Result<()> {
        let key = repo.key();
        let mut packs = be.list_with_size(FileType::Pack)?;
        packs.sort();
        for (id, size) in packs {
            let bytes = be.read_full(FileType::Pack, &id)?;
            out.push(format!("pack {tag} {} {size} {} | {}", id.to_hex().as_str(), hexs(&bytes), dec_pair(&key, &bytes)));
            let n = bytes.len();
            if n >= 4 {
                let h = u32::from_le_bytes(bytes[n - 4..].try_into().unwrap());
                let hints: Vec<Option<u32>> = vec![None, Some(h), Some(0), Some(h.saturating_sub(1)), Some((h + 37).min(size.saturating_sub(4))), Some(size.saturating_sub(4))];
                for hint in hints {
                    let dynbe: Arc<dyn WriteBackend> = be.clone();
                    let r = guard(|| hk::header_from_file(dynbe, &key, id, hint, size));
                    out.push(format!("implff {tag} {} {} {}", id.to_hex().as_str(), hint.map_or(-1, i64::from), r.map_or_else(|e| e, |b| fmt_blobs(&b))));
                }
            }
        }
        let mut ix: Vec<(String, IndexFile)> = Vec::new();
        for f in repo.stream_files::<IndexFile>()? {
            let (id, f) = f?;
            ix.push((id.to_hex().to_string(), f));
        }
        ix.sort_by(|a, b| a.0.cmp(&b.0));
        for (id, f) in ix {
            out.push(format!("indexfile {tag} {id}"));
            for (del, list) in [(0, &f.packs), (1, &f.packs_to_delete)] {
                for p in list {
                    out.push(format!("index {tag} {id} {del} {} {} {} {}", p.id.to_hex().as_str(), p.size.map_or("-".to_string(), |s| s.to_string()), i32::from(p.time.is_some()), fmt_blobs(&p.blobs)));
                }
            }
        }
        Ok(())
    }

    fn digests(out: &mut Vec<String>, tag: &str, repo: Repo) -> anyhow::Result<Repo> {
        let repo = repo.to_indexed()?;
        let mut snaps = repo.get_all_snapshots()?;
        snaps.sort_by_key(|s| s.id.to_hex().to_string());
        for sn in &snaps {
            let root = repo.node_from_snapshot_and_path(sn, "")?;
            let mut h = Sha256::new();
            let mut nfiles = 0;
            for item in repo.ls(&root, &LsOptions::default().recursive(true))? {
                let (path, node) = item?;
                h.update(path.to_string_lossy().as_bytes());
                if node.is_file() {
                    let mut buf = Vec::new();
                    repo.dump(&node, &mut buf)?;
                    h.update((buf.len() as u64).to_le_bytes());
                    h.update(Sha256::digest(&buf));
                    nfiles += 1;
                }
            }
            out.push(format!("snap {tag} {} {} {}", sn.id.to_hex().as_str(), nfiles, hex::encode(h.finalize())));
        }
        Ok(repo.drop_index())
    }

    fn check(out: &mut Vec<String>, tag: &str, repo: &Repo) {
        let r = guard(|| {
            repo.check(CheckOptions::default().read_data(true)).map_err(|e| e.to_string()).and_then(|r| r.is_ok().map_err(|e| e.to_string()))
        });
        out.push(format!("check {tag} {}", r.map_or_else(|e| e, |()| "ok".to_string())));
    }

    fn mutate(dir: &std::path::Path, r: &mut SplitMix, nfiles: u64, maxsize: u64, round: u64) -> anyhow::Result<()> {
        for i in 0..nfiles {
            // in later rounds only some files change
            if round > 0 && r.below(3) != 0 {
                continue;
            }
            let sub = dir.join(format!("d{}", i % 3));
            std::fs::create_dir_all(&sub)?;
            let size = match r.below(6) {
                0 => 0,
                1 => 1,
                2 => r.below(64),
                _ => r.below(maxsize + 1),
            } as usize;
            let kind = r.below(4);
            let data: Vec<u8> = match kind {
                0 => vec![b'a' + (r.below(3) as u8); size],                       // compressible, often duplicate chunks
                1 => (0..size).map(|j| (j % 251) as u8).collect(),                // shared prefix between files
                _ => (0..size).map(|_| r.next() as u8).collect(),
            };
            std::fs::File::create(sub.join(format!("f{i}")))?.write_all(&data)?;
        }
        Ok(())
    }

    fn run_case(line: &str, out: &mut Vec<String>) -> anyhow::Result<()> {
        let mut t = Toks::new(line);
        let seed = t.u();
        let comp = t.i();
        let (dpack, tpack, chunk, nfiles, maxsize) = (t.u(), t.u(), t.u(), t.u(), t.u());
        let mut r = SplitMix(seed);
        let (be, mut repo) = new_repo(comp, dpack, tpack, chunk)?;
        let src = tempfile::tempdir()?;
        let mut round = 0;
        let mut ntag = 0;
        while let Some(step) = t.opt_s() {
            ntag += 1;
            let tag = format!("{ntag}{step}");
            match &step[..1] {
                "B" => {
                    mutate(src.path(), &mut r, nfiles, maxsize, round)?;
                    round += 1;
                    let ir = repo.to_indexed_ids()?;
                    let opts = BackupOptions::default().as_path(std::path::PathBuf::from("src"));
                    let _ = ir.backup(&opts, &PathList::from_iter(Some(src.path().to_path_buf())), SnapshotFile::default())?;
                    repo = ir.drop_index();
                }
                "F" => {
                    let mut snaps = repo.get_all_snapshots()?;
                    snaps.sort_by_key(|s| s.time.clone());
                    if snaps.len() > 1 {
                        repo.delete_snapshots(&[snaps[0].id])?;
                    }
                }
                "P" => {
                    let fast = step == "Pf";
                    let po = PruneOptions::default()
                        .instant_delete(true)
                        .max_unused(LimitOption::Percentage(0))
                        .keep_delete(rustic_core::jiff::Span::default())
                        .keep_pack(rustic_core::jiff::Span::default())
                        .repack_all(r.below(2) == 0)
                        .fast_repack(fast);
                    let plan = repo.prune_plan(&po)?;
                    repo.prune(&po, plan)?;
                }
                "C" => {
                    let (be2, repo2) = new_repo(if comp > 0 { -1 } else { 3 }, tpack.max(200), dpack.max(200), chunk)?;
                    let ir = repo.to_indexed()?;
                    let snaps = ir.get_all_snapshots()?;
                    let dst = repo2.to_indexed_ids()?;
                    ir.copy(&dst, snaps.iter())?;
                    let repo2 = dst.drop_index();
                    repo = ir.drop_index();
                    dump(out, &tag, &be2, &repo2)?;
                    check(out, &tag, &repo2);
                    let _ = digests(out, &tag, repo2)?;
                    out.push(format!("enddump {tag}"));
                    continue;
                }
                "D" => {}
                "R" => {
                    repo = digests(out, &format!("{tag}pre"), repo)?;
                    let mask: u64 = step[1..].parse().unwrap_or(0);
                    let mut ids: Vec<Id> = be.list_with_size(FileType::Index)?.into_iter().map(|x| x.0).collect();
                    ids.sort();
                    let mut removed = 0;
                    for (i, id) in ids.iter().enumerate() {
                        if mask == 0 || (mask >> (i % 60)) & 1 == 1 {
                            be.remove(FileType::Index, id, true)?;
                            removed += 1;
                        }
                    }
                    out.push(format!("note {tag} removed {removed} of {} index files", ids.len()));
                    repo.repair_index(&RepairIndexOptions::default(), false)?;
                }
                "T" => {
                    let tiny = vec![0u8, 0, 0];
                    let id = Id::from_hex(&sha(&tiny)).unwrap();
                    be.write_bytes(FileType::Pack, &id, false, tiny.into())?;
                    let r = guard(|| repo.repair_index(&RepairIndexOptions::default(), false).map_err(|e| e.to_string()));
                    out.push(format!("tiny {tag} {}", r.map_or_else(|e| e, |()| "ok".to_string())));
                    be.remove(FileType::Pack, &id, false)?;
                    continue;
                }
                _ => anyhow::bail!("unknown step"),
            }
            dump(out, &tag, &be, &repo)?;
            if &step[..1] != "B" || true {
                check(out, &tag, &repo);
            }
            repo = digests(out, &tag, repo)?;
            out.push(format!("enddump {tag}"));
        }
        Ok(())
    }

    pub fn main(path: &str) {
        std::panic::set_hook(Box::new(|_| {}));
        let rd: Box<dyn BufRead> = if path != "-" {
            Box::new(std::io::BufReader::new(std::fs::File::open(path).expect("open cases")))
        } else {
            Box::new(std::io::BufReader::new(std::io::stdin()))
        };
        let so = std::io::stdout();
        let mut so = std::io::BufWriter::new(so.lock());
        for line in rd.lines() {
            let line = line.expect("read");
            if line.trim().is_empty() {
                continue;
            }
            let mut out = Vec::new();
            let st = match catch_unwind(AssertUnwindSafe(|| run_case(&line, &mut out))) {
                Ok(Ok(())) => "ok".to_string(),
                Ok(Err(e)) => format!("error {}", e.to_string().replace('\n', " ")),
                Err(_) => "panic".to_string(),
            };
            for l in out {
                writeln!(so, "{l}").unwrap();
            }
            writeln!(so, "end {st}").unwrap();
        }
    }
}

pub fn hexs(b: &[u8]) -> String {
    if b.is_empty() { "-".to_string() } else { hex::encode(b) }
}
pub fn unhex(s: &str) -> Vec<u8> {
    if s == "-" { Vec::new() } else { hex::decode(s).expect("hex") }
}

/// id from a seed: 32 bytes of SplitMix output (seed 0 = all zero, seed 1 = all 0xff)
pub fn id_of_seed(seed: u64) -> Id {
    let mut b = [0u8; 32];
    if seed == 1 {
        b = [0xff; 32];
    } else if seed != 0 {
        let mut r = SplitMix(seed);
        for c in b.chunks_mut(8) {
            c.copy_from_slice(&r.next().to_le_bytes());
        }
    }
    Id::from_hex(&hex::encode(b)).unwrap()
}

pub fn key_of_seed(seed: u64) -> MasterKey {
    let mut r = SplitMix(seed ^ 0xC08);
    let mut raw = [0u8; 64];
    for c in raw.chunks_mut(8) {
        c.copy_from_slice(&r.next().to_le_bytes());
    }
    use std::io::Write;
    let b64 = |b: &[u8]| {
        // minimal base64 (standard alphabet, padded)
        const T: &[u8; 64] = b"ABCDEFGHIJKLMNOPQRSTUVWXYZabcdefghijklmnopqrstuvwxyz0123456789+/";
        let mut o = String::new();
        for ch in b.chunks(3) {
            let v = [ch[0], *ch.get(1).unwrap_or(&0), *ch.get(2).unwrap_or(&0)];
            let n = (u32::from(v[0]) << 16) | (u32::from(v[1]) << 8) | u32::from(v[2]);
            o.push(T[(n >> 18) as usize & 63] as char);
            o.push(T[(n >> 12) as usize & 63] as char);
            o.push(if ch.len() > 1 { T[(n >> 6) as usize & 63] as char } else { '=' });
            o.push(if ch.len() > 2 { T[n as usize & 63] as char } else { '=' });
        }
        o
    };
    let _ = std::io::sink().flush();
    let js = format!(
        "{{\"mac\":{{\"k\":\"{}\",\"r\":\"{}\"}},\"encrypt\":\"{}\"}}",
        b64(&raw[32..48]),
        b64(&raw[48..64]),
        b64(&raw[0..32])
    );
    serde_json::from_str(&js).expect("master key json")
}

pub fn tpe_of(n: u64) -> BlobType {
    if n == 0 { BlobType::Tree } else { BlobType::Data }
}

pub fn fmt_blobs(bs: &[IndexBlob]) -> String {
    let mut s = format!("{}", bs.len());
    for b in bs {
        let (id, tpe, off, len, ul) = hk::blob_fields(b);
        let _ = write!(
            s,
            " {}:{}:{}:{}:{}",
            id.to_hex().as_str(),
            if tpe == BlobType::Tree { 0 } else { 1 },
            off,
            len,
            ul.map_or("-".to_string(), |u| u.to_string())
        );
    }
    s
}

fn rd_blobs(t: &mut Toks) -> Vec<IndexBlob> {
    let n = t.u();
    (0..n)
        .map(|_| {
            let tpe = tpe_of(t.u());
            let id = Id::from_hex(t.s()).expect("id hex");
            let off = t.u() as u32;
            let len = t.u() as u32;
            let ul = t.i();
            hk::mk_blob(id, tpe, off, len, if ul < 0 { None } else { Some(ul as u32) })
        })
        .collect()
}

fn guard<T>(f: impl FnOnce() -> Result<T, String>) -> Result<T, String> {
    match catch_unwind(AssertUnwindSafe(f)) {
        Ok(Ok(v)) => Ok(v),
        Ok(Err(_)) => Err("err".to_string()),
        Err(_) => Err("panic".to_string()),
    }
}

fn codec_case(line: &str) -> String {
    let mut t = Toks::new(line);
    let blobs = rd_blobs(&mut t);
    let trailer = unhex(t.s());
    let tb = guard(|| hk::header_to_binary(&blobs));
    let sz = guard(|| Ok(hk::header_size(&blobs)));
    let ps = guard(|| Ok(hk::header_pack_size(&blobs)));
    let fb = match &tb {
        Ok(b) => {
            let mut d = b.clone();
            d.extend_from_slice(&trailer);
            guard(|| hk::header_from_binary(&d)).map(|b| fmt_blobs(&b))
        }
        Err(e) => Err(e.clone()),
    };
    format!(
        "tb={} sz={} ps={} fb={}",
        tb.map_or_else(|e| e, |b| hexs(&b)),
        sz.map_or_else(|e| e, |v| v.to_string()),
        ps.map_or_else(|e| e, |v| v.to_string()),
        fb.unwrap_or_else(|e| e)
    )
}

fn frombin_case(line: &str) -> String {
    let d = unhex(line.trim());
    guard(|| hk::header_from_binary(&d)).map_or_else(|e| e, |b| fmt_blobs(&b))
}

/// A backend holding pack files in memory whose `read_partial` reports an error (as the local
/// and opendal backends do) instead of panicking when the range is outside the file.
#[derive(Debug, Default)]
pub struct SliceBackend {
    pub packs: RwLock<std::collections::BTreeMap<Id, Bytes>>,
}
impl ReadBackend for SliceBackend {
    fn location(&self) -> String {
        "slice".to_string()
    }
    fn list_with_size(&self, _tpe: FileType) -> RusticResult<Vec<(Id, u32)>> {
        Ok(self.packs.read().unwrap().iter().map(|(i, b)| (*i, b.len() as u32)).collect())
    }
    fn read_full(&self, _tpe: FileType, id: &Id) -> RusticResult<Bytes> {
        self.packs.read().unwrap().get(id).cloned().ok_or_else(|| RusticError::new(ErrorKind::Backend, "missing"))
    }
    fn read_partial(&self, _tpe: FileType, id: &Id, _c: bool, offset: u32, length: u32) -> RusticResult<Bytes> {
        let m = self.packs.read().unwrap();
        let b = m.get(id).ok_or_else(|| RusticError::new(ErrorKind::Backend, "missing"))?;
        let end = u64::from(offset) + u64::from(length);
        if end > b.len() as u64 {
            return Err(RusticError::new(ErrorKind::Backend, "short read"));
        }
        Ok(b.slice(offset as usize..end as usize))
    }
    fn warmup_path(&self, _tpe: FileType, id: &Id) -> String {
        id.to_hex().to_string()
    }
}
impl WriteBackend for SliceBackend {
    fn write_bytes(&self, _tpe: FileType, id: &Id, _c: bool, buf: rustic_core::BytesList) -> RusticResult<()> {
        let v: Vec<u8> = buf.into_vec().into_iter().flat_map(|b| b.to_vec()).collect();
        let _ = self.packs.write().unwrap().insert(*id, v.into());
        Ok(())
    }
    fn remove(&self, _tpe: FileType, id: &Id, _c: bool) -> RusticResult<()> {
        let _ = self.packs.write().unwrap().remove(id);
        Ok(())
    }
}

/// the ciphertext slice designated by the trailing length field, and its decryption
pub fn dec_pair(key: &MasterKey, file: &[u8]) -> String {
    if file.len() < 4 {
        return "- fail".to_string();
    }
    let n = u32::from_le_bytes(file[file.len() - 4..].try_into().unwrap()) as usize;
    if n + 4 > file.len() {
        return "- fail".to_string();
    }
    let ct = &file[file.len() - 4 - n..file.len() - 4];
    match hk::decrypt_data(key, ct) {
        Ok(pt) => format!("{} {}", hexs(ct), hexs(&pt)),
        Err(_) => format!("{} fail", hexs(ct)),
    }
}

const KEYSEED: u64 = 7;

fn fromfile_case(line: &str) -> String {
    let mut t = Toks::new(line);
    let hint = t.i();
    let ps = t.u() as u32;
    let file = unhex(t.s());
    let key = key_of_seed(KEYSEED);
    let be = Arc::new(SliceBackend::default());
    let id = id_of_seed(42);
    let _ = be.packs.write().unwrap().insert(id, file.clone().into());
    let r = guard(|| hk::header_from_file(be.clone(), &key, id, if hint < 0 { None } else { Some(hint as u32) }, ps));
    format!("{} | {}", r.map_or_else(|e| e, |b| fmt_blobs(&b)), dec_pair(&key, &file))
}

/// build: n { tpe idseed len ulen }  dmg extra seed
/// dmg: 0 none; 1 trailer := extra; 2 truncate file to `extra` bytes; 3 flip a byte of the encrypted header;
///      4 header lists one blob less; 5 header plaintext gets `extra` garbage bytes appended;
///      6 first header entry length += extra
fn build_case(line: &str) -> String {
    let mut t = Toks::new(line);
    let n = t.u();
    let mut blobs = Vec::new();
    let mut off = 0u32;
    let mut spec = Vec::new();
    for _ in 0..n {
        let tpe = tpe_of(t.u());
        let ids = Id::from_hex(t.s()).expect("id hex");
        let len = t.u() as u32;
        let ul = t.i();
        spec.push((tpe, ids, len, ul));
        blobs.push(hk::mk_blob(ids, tpe, off, len, if ul < 0 { None } else { Some(ul as u32) }));
        off += len;
    }
    let dmg = t.u();
    let extra = t.u();
    let mut r = SplitMix(t.u());
    let key = key_of_seed(KEYSEED);
    let mut file: Vec<u8> = (0..off).map(|_| r.next() as u8).collect();
    let mut hb = blobs.clone();
    if dmg == 4 && !hb.is_empty() {
        let _ = hb.pop();
    }
    if dmg == 6 && !hb.is_empty() {
        let (id, tpe, o, l, u) = hk::blob_fields(&hb[0]);
        hb[0] = hk::mk_blob(id, tpe, o, l.wrapping_add(extra as u32), u);
    }
    let mut plain = hk::header_to_binary(&hb).unwrap();
    if dmg == 5 {
        for _ in 0..extra {
            plain.push(r.next() as u8);
        }
    }
    let mut enc = hk::encrypt_data(&key, &plain).unwrap();
    if dmg == 3 {
        let i = (r.next() as usize) % enc.len();
        enc[i] ^= 0x40;
    }
    let hl = enc.len() as u32;
    file.extend_from_slice(&enc);
    let tr = if dmg == 1 { extra as u32 } else { hl };
    file.extend_from_slice(&tr.to_le_bytes());
    if dmg == 2 {
        file.truncate(extra as usize);
    }
    hexs(&file)
}

fn packer_case(line: &str) -> String {
    let mut t = Toks::new(line);
    let tpe = tpe_of(t.u());
    let n = t.u();
    let ops: Vec<hk::PackerOp> = (0..n)
        .map(|_| {
            let id = Id::from_hex(t.s()).expect("id hex");
            let data = unhex(t.s());
            let ul = t.i();
            let save = t.u() == 1;
            hk::PackerOp { data, id, ulen: if ul < 0 { None } else { Some(ul as u32) }, save_after: save }
        })
        .collect();
    let key = key_of_seed(KEYSEED);
    match guard(|| hk::basic_packer_run(tpe, &key, ops)) {
        Err(e) => e,
        Ok(packs) => {
            let mut parts = Vec::new();
            for (file, ip) in packs {
                let blen: usize = ip.blobs.iter().map(|b| hk::blob_fields(b).3 as usize).sum();
                if file.len() < blen + 4 {
                    parts.push("P short".to_string());
                    continue;
                }
                let tr = u32::from_le_bytes(file[file.len() - 4..].try_into().unwrap());
                let ct = &file[blen..file.len() - 4];
                let pt = hk::decrypt_data(&key, ct).map_or("fail".to_string(), |p| hexs(&p));
                parts.push(format!(
                    "P {} {} {} {} {} {} {}",
                    hexs(&file[..blen]),
                    pt,
                    tr,
                    ct.len(),
                    file.len(),
                    ip.size.map_or("-".to_string(), |s| s.to_string()),
                    fmt_blobs(&ip.blobs)
                ));
            }
            if parts.is_empty() { "none".to_string() } else { parts.join(" ; ") }
        }
    }
}

// ---------------------------------------------------------------------------- repacker
fn rd_entries(t: &mut Toks) -> Vec<hk::CopyEntry> {
    let n = t.u();
    (0..n)
        .map(|_| {
            let pack = Id::from_hex(t.s()).expect("pack hex");
            let off = t.u() as u32;
            let len = t.u() as u32;
            let ul = t.i();
            let id = Id::from_hex(t.s()).expect("id hex");
            (pack, off, len, if ul < 0 { None } else { Some(ul as u32) }, id)
        })
        .collect()
}

fn fmt_chunks(cs: &[hk::CopyChunk]) -> String {
    let mut s = format!("{}", cs.len());
    for (pack, off, len, blobs) in cs {
        let _ = write!(s, " C {} {} {} {}", pack.to_hex().as_str(), off, len, blobs.len());
        for (id, o, l, u) in blobs {
            let _ = write!(s, " {}:{}:{}:{}", id.to_hex().as_str(), o, l, u.map_or("-".to_string(), |u| u.to_string()));
        }
    }
    s
}

/// coalesce: sort n { packhex off len ulen idhex }  -> chunks (CopyPackBlobs::coalesce, as copy_blobs)
fn coalesce_case(line: &str) -> String {
    let mut t = Toks::new(line);
    let sort = t.u() == 1;
    let es = rd_entries(&mut t);
    guard(|| Ok(hk::coalesce_copy_blobs(&es, sort))).map_or_else(|e| e, |c| fmt_chunks(&c))
}

/// coalloc: n { packhex off len ulen idhex }  -> chunks (BlobLocations::coalesce over one pack, as prune)
fn coalloc_case(line: &str) -> String {
    let mut t = Toks::new(line);
    let es = rd_entries(&mut t);
    let pack = es.first().map_or_else(|| id_of_seed(0), |e| e.0);
    guard(|| Ok(hk::coalesce_locations(pack, &es))).map_or_else(|e| e, |c| fmt_chunks(&c))
}

/// encblobs: n { hex }  -> the blobs encrypted with the source key (for `copy`, which decrypts)
fn encblobs_case(line: &str) -> String {
    let mut t = Toks::new(line);
    let n = t.u();
    let key = key_of_seed(KEYSEED);
    (0..n).map(|_| hexs(&hk::encrypt_data(&key, &unhex(t.s())).unwrap())).collect::<Vec<_>>().join(" ")
}

/// repackrun: tpe fast sort npacks { packhex datahex } n { packhex off len ulen idhex }
/// -> `ok k id:byteshex:ulen ... | chunks`  (bytes = raw bytes in the new pack for copy_fast,
///    decrypted blob for copy), or err / panic
fn repackrun_case(line: &str) -> String {
    use rustic_testing::backend::in_memory_backend::InMemoryBackend;
    let mut t = Toks::new(line);
    let tpe = tpe_of(t.u());
    let fast = t.u() == 1;
    let sort = t.u() == 1;
    let np = t.u();
    let src = Arc::new(SliceBackend::default());
    for _ in 0..np {
        let id = Id::from_hex(t.s()).expect("pack hex");
        let data = unhex(t.s());
        let _ = src.packs.write().unwrap().insert(id, data.into());
    }
    let es = rd_entries(&mut t);
    let key_src = key_of_seed(KEYSEED);
    let key_dst = key_of_seed(KEYSEED + 1);
    let dst = Arc::new(InMemoryBackend::new());
    let dynsrc: Arc<dyn WriteBackend> = src.clone();
    let dyndst: Arc<dyn WriteBackend> = dst.clone();
    let r = guard(|| hk::repack_run(dynsrc, &key_src, dyndst, &key_dst, tpe, &es, fast, sort));
    let chunks = match r {
        Err(e) => return e,
        Ok(c) => c,
    };
    let mut packs = dst.list_with_size(FileType::Pack).unwrap();
    packs.sort();
    let mut out = Vec::new();
    for (id, size) in packs {
        let bytes = dst.read_full(FileType::Pack, &id).unwrap();
        let dynbe: Arc<dyn WriteBackend> = dst.clone();
        let blobs = match hk::header_from_file(dynbe, &key_dst, id, None, size) {
            Ok(b) => b,
            Err(_) => return "badpack".to_string(),
        };
        for b in blobs {
            let (bid, _tp, off, len, ul) = hk::blob_fields(&b);
            let raw = &bytes[off as usize..(off + len) as usize];
            let shown = if fast { raw.to_vec() } else { hk::decrypt_data(&key_dst, raw).unwrap_or_default() };
            out.push(format!("{}:{}:{}", bid.to_hex().as_str(), hexs(&shown), ul.map_or("-".to_string(), |u| u.to_string())));
        }
    }
    format!("ok {} {} | {}", out.len(), out.join(" "), fmt_chunks(&chunks))
}

// ---------------------------------------------------------------------------- extremes
/// packauto: tpe pack_size nspec { count idbase datalen ulen }
/// blobs: id = id_from_u64(idbase + j), data[k] = (idbase + j + 3k) mod 256.  The real BasicPacker closes
/// packs by its own should_save (count / size limit); every emitted pack is re-read by the real
/// PackHeader::from_file with four hints.
/// -> per pack `P prefix header_plain trailer enc_len file_len size blobs | none=.. exact=.. zero=.. max=..`
fn packauto_case(line: &str) -> String {
    let mut t = Toks::new(line);
    let tpe = tpe_of(t.u());
    let pack_size = t.u() as u32;
    let nspec = t.u();
    let mut ops = Vec::new();
    for _ in 0..nspec {
        let count = t.u();
        let base = t.u();
        let dl = t.u();
        let ul = t.i();
        for j in 0..count {
            let v = base + j;
            let data: Vec<u8> = (0..dl).map(|k| ((v + 3 * k) % 256) as u8).collect();
            ops.push((data, id_from_u64(v), if ul < 0 { None } else { Some(ul as u32) }));
        }
    }
    let key = key_of_seed(KEYSEED);
    let packs = match guard(|| hk::basic_packer_run_auto(tpe, &key, pack_size, ops)) {
        Err(e) => return e,
        Ok(p) => p,
    };
    let mut parts = Vec::new();
    for (file, ip) in packs {
        let blen: usize = ip.blobs.iter().map(|b| hk::blob_fields(b).3 as usize).sum();
        if file.len() < blen + 4 {
            parts.push("P short".to_string());
            continue;
        }
        let tr = u32::from_le_bytes(file[file.len() - 4..].try_into().unwrap());
        let ct = &file[blen..file.len() - 4];
        let pt = hk::decrypt_data(&key, ct).map_or("fail".to_string(), |p| hexs(&p));
        let want = fmt_blobs(&ip.blobs);
        let be = Arc::new(SliceBackend::default());
        let id = id_of_seed(42);
        let _ = be.packs.write().unwrap().insert(id, file.clone().into());
        let flen = file.len() as u32;
        let mut ff = Vec::new();
        for (name, hint) in [("none", None), ("exact", Some(tr)), ("zero", Some(0)), ("max", Some(flen.saturating_sub(4)))] {
            let dynbe: Arc<dyn WriteBackend> = be.clone();
            let r = guard(|| hk::header_from_file(dynbe, &key, id, hint, flen));
            let shown = match r {
                Ok(b) => {
                    let g = fmt_blobs(&b);
                    if g == want { "same".to_string() } else { format!("ok:{}", g.replace(' ', ",")) }
                }
                Err(e) => e,
            };
            ff.push(format!("{name}={shown}"));
        }
        parts.push(format!(
            "P {} {} {} {} {} {} {} | {}",
            hexs(&file[..blen]),
            pt,
            tr,
            ct.len(),
            file.len(),
            ip.size.map_or("-".to_string(), |s| s.to_string()),
            want,
            ff.join(" ")
        ));
    }
    if parts.is_empty() { "none".to_string() } else { parts.join(" ; ") }
}

/// A storage that rejects the n-th pack upload.
#[derive(Debug)]
struct FlakyBackend {
    inner: rustic_testing::backend::in_memory_backend::InMemoryBackend,
    fail_at: std::sync::atomic::AtomicUsize,
    pack_uploads: std::sync::atomic::AtomicUsize,
}
impl ReadBackend for FlakyBackend {
    fn location(&self) -> String {
        self.inner.location()
    }
    fn list_with_size(&self, tpe: FileType) -> RusticResult<Vec<(Id, u32)>> {
        self.inner.list_with_size(tpe)
    }
    fn read_full(&self, tpe: FileType, id: &Id) -> RusticResult<Bytes> {
        self.inner.read_full(tpe, id)
    }
    fn read_partial(&self, tpe: FileType, id: &Id, c: bool, offset: u32, length: u32) -> RusticResult<Bytes> {
        self.inner.read_partial(tpe, id, c, offset, length)
    }
    fn warmup_path(&self, tpe: FileType, id: &Id) -> String {
        self.inner.warmup_path(tpe, id)
    }
}
impl WriteBackend for FlakyBackend {
    fn create(&self) -> RusticResult<()> {
        self.inner.create()
    }
    fn write_bytes(&self, tpe: FileType, id: &Id, c: bool, content: rustic_core::BytesList) -> RusticResult<()> {
        use std::sync::atomic::Ordering;
        if tpe == FileType::Pack {
            let n = self.pack_uploads.fetch_add(1, Ordering::SeqCst) + 1;
            if n == self.fail_at.load(Ordering::SeqCst) {
                return Err(RusticError::new(ErrorKind::Backend, "injected fault: upload of pack rejected"));
            }
        }
        self.inner.write_bytes(tpe, id, c, content)
    }
    fn remove(&self, tpe: FileType, id: &Id, c: bool) -> RusticResult<()> {
        self.inner.remove(tpe, id, c)
    }
}

/// failupload: k nchunks   — backup of `nchunks` distinct 2-byte chunks (fixed-size chunker) over a storage
/// that rejects the k-th pack upload; then every pack listed by a persisted index file must be stored.
/// -> `backup=<ok|err> packs=<n> indexfiles=<n> indexed=<n> phantom=<n> [first phantom pack id:blobs]`
fn failupload_case(line: &str) -> String {
    use rustic_core::repofile::{Chunker, IndexFile, SnapshotFile};
    use rustic_core::{BackupOptions, ConfigOptions, Credentials, KeyOptions, PathList, Repository, RepositoryBackends, RepositoryOptions};
    use std::sync::atomic::{AtomicUsize, Ordering};
    let mut t = Toks::new(line);
    let k = t.u() as usize;
    let nchunks = t.u() as u32;
    let run = || -> anyhow::Result<String> {
        let be = Arc::new(FlakyBackend {
            inner: rustic_testing::backend::in_memory_backend::InMemoryBackend::new(),
            fail_at: AtomicUsize::new(0),
            pack_uploads: AtomicUsize::new(0),
        });
        let bes = RepositoryBackends::new(be.clone(), None);
        let opts = RepositoryOptions::default().no_cache(true);
        let creds = Credentials::Masterkey(MasterKey::new());
        let repo = Repository::new(&opts, &bes)?.init(
            &creds,
            &KeyOptions::default(),
            &ConfigOptions::default()
                .set_chunker(Chunker::FixedSize)
                .set_chunk_size(bytesize::ByteSize::b(2))
                .set_extra_verify(false),
        )?;
        let src = tempfile::tempdir()?;
        let root = src.path().canonicalize()?;
        let content: Vec<u8> = (0..nchunks).flat_map(|v| (v as u16).to_le_bytes()).collect();
        std::fs::write(root.join("data.bin"), &content)?;
        let paths = PathList::from_iter(Some(root.clone()));
        be.pack_uploads.store(0, Ordering::SeqCst);
        be.fail_at.store(k, Ordering::SeqCst);
        let ir = repo.to_indexed_ids()?;
        let res = ir.backup(&BackupOptions::default(), &paths, SnapshotFile::default());
        be.fail_at.store(0, Ordering::SeqCst);
        let repo = Repository::new(&opts, &bes)?.open(&creds)?;
        let stored: std::collections::BTreeSet<Id> = be.list_with_size(FileType::Pack)?.into_iter().map(|x| x.0).collect();
        let (mut nix, mut indexed, mut phantom, mut first) = (0, 0, 0, String::new());
        for index in repo.stream_files::<IndexFile>()? {
            let (_id, index) = index?;
            nix += 1;
            for pack in index.packs {
                indexed += 1;
                if !stored.contains(&*pack.id) {
                    phantom += 1;
                    if first.is_empty() {
                        first = format!(" {}:{}", pack.id.to_hex().as_str(), pack.blobs.len());
                    }
                }
            }
        }
        Ok(format!(
            "backup={} packs={} indexfiles={nix} indexed={indexed} phantom={phantom}{first}",
            if res.is_ok() { "ok" } else { "err" },
            stored.len()
        ))
    };
    match catch_unwind(AssertUnwindSafe(run)) {
        Ok(Ok(s)) => s,
        Ok(Err(e)) => format!("error {}", e.to_string().replace('\n', " ")),
        Err(_) => "panic".to_string(),
    }
}

fn main() {
    let args: Vec<String> = std::env::args().collect();
    let mode = args.get(2).map_or("codec", |s| s.as_str()).to_string();
    match mode.as_str() {
        "codec" => for_each_case(codec_case),
        "frombin" => for_each_case(frombin_case),
        "fromfile" => for_each_case(fromfile_case),
        "build" => for_each_case(build_case),
        "packer" => for_each_case(packer_case),
        "packauto" => for_each_case(packauto_case),
        "failupload" => for_each_case(failupload_case),
        "coalesce" => for_each_case(coalesce_case),
        "coalloc" => for_each_case(coalloc_case),
        "encblobs" => for_each_case(encblobs_case),
        "repackrun" => for_each_case(repackrun_case),
        "e2e" => e2e::main(&args[1]),
        _ => panic!("unknown mode"),
    }
}
