//! C02 correspondence, planner level: run the real prune planner (hook
//! `rustic_core::verif_hooks::c02::plan`, which calls `PrunePlan::new`,
//! `count_used_blobs`, `check`, `decide_packs`, `decide_repack`,
//! `check_existing_packs`, `filter_index_files` in the order of
//! `PrunePlan::from_prune_options`) on supplied index files, used ids, pack
//! listing, clock and options.  One case per line, integers only:
//!
//! now keep_pack keep_delete cacheable_only unc all noresize instant mu_kind mu_val mr_kind mr_val
//! tree_target tree_min tree_max data_target data_min data_max
//! nused (tpe id)*  nexisting (pack size)*  nfiles { file_id npacks PACK* ndel PACK* }
//! PACK := pack_id size time_flag [time] nblobs { blob_id tpe(0 tree,1 data) length compressed(0/1) }
//!
//! Mode `exec` (argv[2]): additionally EXECUTE the plan with the real `prune_repository`
//! (`Repository::prune`) on a synthetic in-memory repository that holds dummy files for the supplied
//! index ids and pack ids (only for plans without Repack, which would have to read pack contents) and
//! append what was written/removed: ` | xp=<pack:time,..> xd=<pack:time,..> xrm=<pack,..> xkept=<n>`.
//!
//! The end-to-end histories are in c02_e2e.rs.
use bytesize::ByteSize;
use rustic_core::jiff::{Span, Timestamp};
use rustic_core::verif_hooks::c02::*;
use rustic_core::{ConfigOptions, Credentials, FileType, KeyOptions, PruneOptions, Repository, RepositoryBackends, RepositoryOptions, WriteBackend, repofile::MasterKey};
use rustic_testing::backend::in_memory_backend::InMemoryBackend;
use std::num::NonZeroU32;
use std::sync::Arc;
use verif_harness::*;

fn limit(t: &mut Toks) -> LimitOption {
    let k = t.u();
    let v = t.u();
    match k {
        0 => LimitOption::Unlimited,
        1 => LimitOption::Percentage(v),
        _ => LimitOption::Size(ByteSize::b(v)),
    }
}

fn pack(t: &mut Toks) -> IndexPack {
    let id = PackId::from(id_from_u64(t.u()));
    let size = t.u() as u32;
    let time = if t.u() == 1 { Some(Timestamp::from_second(t.i()).unwrap()) } else { None };
    let nb = t.u();
    let mut blobs = Vec::new();
    let mut offset = 0u32;
    for _ in 0..nb {
        let bid = BlobId::from(id_from_u64(t.u()));
        let tpe = if t.u() == 0 { BlobType::Tree } else { BlobType::Data };
        let length = t.u() as u32;
        let comp = t.u() == 1;
        blobs.push(IndexBlob {
            id: bid,
            tpe,
            location: BlobLocation { offset, length, uncompressed_length: if comp { NonZeroU32::new(length.max(1)) } else { None } },
        });
        offset = offset.wrapping_add(length);
    }
    IndexPack { id, blobs, time, size: Some(size) }
}

fn u(id: &rustic_core::Id) -> u64 {
    id_to_u64(id)
}

fn plan_case(line: &str) -> String {
    let mut t = Toks::new(line);
    let now = Timestamp::from_second(t.i()).unwrap();
    let keep_pack = Span::new().seconds(t.i());
    let keep_delete = Span::new().seconds(t.i());
    let repack_cacheable_only = t.u() == 1;
    let repack_uncompressed = t.u() == 1;
    let repack_all = t.u() == 1;
    let no_resize = t.u() == 1;
    let instant_delete = t.u() == 1;
    let max_unused = limit(&mut t);
    let max_repack = limit(&mut t);
    let mut sizer = [(0u32, 0u32, 0u32); 2];
    for s in sizer.iter_mut() {
        *s = (t.u() as u32, t.u() as u32, t.u() as u32);
    }
    let nu = t.u();
    let used: Vec<(BlobType, BlobId)> = (0..nu)
        .map(|_| (if t.u() == 0 { BlobType::Tree } else { BlobType::Data }, BlobId::from(id_from_u64(t.u()))))
        .collect();
    let ne = t.u();
    let existing: Vec<(PackId, u32)> = (0..ne).map(|_| (PackId::from(id_from_u64(t.u())), t.u() as u32)).collect();
    let nf = t.u();
    let mut index_files = Vec::new();
    for _ in 0..nf {
        let id = IndexId::from(id_from_u64(t.u()));
        let mut f = IndexFile::default();
        let np = t.u();
        for _ in 0..np {
            f.packs.push(pack(&mut t));
        }
        let nd = t.u();
        for _ in 0..nd {
            f.packs_to_delete.push(pack(&mut t));
        }
        index_files.push((id, f));
    }
    let file_ids: Vec<u64> = index_files.iter().map(|(i, _)| u(i)).collect();
    // dummy pack files for every pack named by the listing or by an index entry (removing a missing file is a backend error)
    let mut pack_ids: Vec<u64> = existing.iter().map(|(p, _)| u(p)).collect();
    for (_, f) in &index_files {
        pack_ids.extend(f.packs.iter().chain(f.packs_to_delete.iter()).map(|p| u(&p.id)));
    }
    pack_ids.sort_unstable();
    pack_ids.dedup();
    let input = PlanInput {
        index_files, used, existing, now, keep_pack, keep_delete, repack_cacheable_only,
        repack_uncompressed, repack_all, max_repack, max_unused, no_resize, instant_delete, sizer,
    };
    match plan(input) {
        Err(e) => {
            let m = format!("{e:?}");
            let k = if m.contains("is missing in index files") { "missing" }
                else if m.contains("does not match the expected size") { "size" }
                else if m.contains("does not exist") { "noexist" }
                else if m.contains("got no decision") { "nodecision" }
                else { "other" };
            format!("err {k}")
        }
        Ok((o, plan)) => {
            let exec_mode = std::env::args().nth(2).as_deref() == Some("exec");
            let xs = if exec_mode && !o.decisions.iter().any(|d| todo_name(d.todo) == "Repack") {
                format!(" | {}", exec(plan, &file_ids, &pack_ids, instant_delete).unwrap_or_else(|e| format!("xerr={}", e.replace(' ', "_"))))
            } else {
                String::new()
            };
            let d: Vec<String> = o.decisions.iter().map(|d| format!("{}:{}:{}:{}", u(&d.index), u(&d.pack), u8::from(d.delete_mark), todo_name(d.todo))).collect();
            let m: Vec<String> = o.modified.iter().map(|(i, b)| format!("{}:{}", u(i), u8::from(*b))).collect();
            let r: Vec<String> = o.rewritten.iter().map(|i| format!("{}", u(i))).collect();
            let un: Vec<String> = o.unreferenced.iter().map(|(p, s)| format!("{}:{}", u(p), s)).collect();
            let l: Vec<String> = o.used_left.iter().map(|(t, i)| format!("{}:{}", match t { None => "x", Some(BlobType::Tree) => "0", Some(BlobType::Data) => "1" }, u(i))).collect();
            format!(
                "ok d={} mod={} rw={} unref={} left={} stats={},{},{},{},{},{},{},{},{},{},{},{},{},{},{}",
                d.join(","), m.join(","), r.join(","), un.join(","), l.join(","),
                o.blobs[0].0, o.blobs[0].1, o.blobs[1].0, o.blobs[1].1,
                o.sizes[0].0, o.sizes[0].1, o.sizes[1].0, o.sizes[1].1,
                o.packs_used, o.packs_partly_used, o.packs_unused, o.packs_keep, o.packs_repack,
                o.packs_unref, o.size_unref
            ) + &xs
        }
    }
}

/// run the real executor on a synthetic repository (see the header)
fn exec(plan: PrunePlan, file_ids: &[u64], pack_ids: &[u64], instant: bool) -> Result<String, String> {
    let e = |x: Box<rustic_core::RusticError>| format!("{x:?}").chars().take(160).collect::<String>();
    let be = Arc::new(InMemoryBackend::new());
    let bes = RepositoryBackends::new(be.clone(), None);
    let repo = Repository::new(&RepositoryOptions::default().no_cache(true), &bes)
        .map_err(e)?
        .init(&Credentials::Masterkey(MasterKey::new()), &KeyOptions::default(), &ConfigOptions::default())
        .map_err(e)?;
    for i in file_ids {
        be.write_bytes(FileType::Index, &id_from_u64(*i), false, vec![0u8].into()).map_err(e)?;
    }
    for p in pack_ids {
        be.write_bytes(FileType::Pack, &id_from_u64(*p), false, vec![0u8].into()).map_err(e)?;
    }
    let opts = PruneOptions::default().instant_delete(instant);
    repo.prune(&opts, plan).map_err(e)?;
    let after: Vec<IndexId> = repo.list::<IndexId>().map_err(e)?.collect();
    let kept = after.iter().filter(|i| file_ids.contains(&u(i))).count();
    let new_ids: Vec<IndexId> = after.into_iter().filter(|i| !file_ids.contains(&u(i))).collect();
    let (mut xp, mut xd) = (Vec::new(), Vec::new());
    let ent = |p: &IndexPack| format!("{}:{}", u(&p.id), p.time.map_or("n".to_string(), |t| t.as_second().to_string()));
    for r in repo.stream_files_list::<IndexFile>(new_ids).map_err(e)? {
        let (_, f) = r.map_err(e)?;
        xp.extend(f.packs.iter().map(ent));
        xd.extend(f.packs_to_delete.iter().map(ent));
    }
    xp.sort();
    xd.sort();
    let left: Vec<u64> = repo.list::<PackId>().map_err(e)?.map(|p| u(&p)).collect();
    let mut xrm: Vec<u64> = pack_ids.iter().copied().filter(|p| !left.contains(p)).collect();
    xrm.sort_unstable();
    xrm.dedup();
    Ok(format!(
        "xp={} xd={} xrm={} xkept={kept}",
        xp.join(","),
        xd.join(","),
        xrm.iter().map(u64::to_string).collect::<Vec<_>>().join(",")
    ))
}

fn main() {
    for_each_case(plan_case);
}
