//! Shared end-to-end helpers for the repository-level properties: a recording /
//! fault-injecting / gating backend wrapper, repository construction, seeded source
//! trees on disk, restore + byte/metadata comparison.
use std::collections::BTreeMap;
use std::fs;
use std::io::Write as _;
use std::os::unix::fs::{MetadataExt, PermissionsExt};
use std::path::{Path, PathBuf};
use std::sync::atomic::{AtomicUsize, Ordering};
use std::sync::{Arc, Mutex};

use anyhow::{Result, anyhow};
use bytes::Bytes;
use rustic_core::repofile::{MasterKey, SnapshotFile};
use rustic_core::{
    BackupOptions, BytesList, CheckOptions, ConfigOptions, Credentials, ErrorKind, FileType, Id,
    KeyOptions, LocalDestination, LsOptions, OpenStatus, PathList, ReadBackend, Repository,
    RepositoryBackends, RepositoryOptions, RestoreOptions, RusticError, RusticResult, WriteBackend,
};
use rustic_testing::backend::in_memory_backend::InMemoryBackend;

use crate::SplitMix;

// ------------------------------------------------------------------ recording backend

#[derive(Clone, Copy, Debug, PartialEq, Eq)]
pub enum OpKind {
    Write,
    Remove,
    ReadFull,
    ReadPartial,
    List,
    WarmUp,
    Create,
}

#[derive(Clone, Debug)]
pub struct Op {
    pub seq: usize,
    pub kind: OpKind,
    pub tpe: FileType,
    pub id: Id,
    pub cacheable: bool,
    pub offset: u32,
    pub len: u32,
    /// what the wrapper returned to the library
    pub ok: bool,
    /// true when the failure was injected by the wrapper (inner backend not called)
    pub injected: bool,
}

impl Op {
    pub fn is_mutating(&self) -> bool {
        matches!(self.kind, OpKind::Write | OpKind::Remove)
    }
    pub fn short(&self) -> String {
        let k = match self.kind {
            OpKind::Write => "W",
            OpKind::Remove => "R",
            OpKind::ReadFull => "rf",
            OpKind::ReadPartial => "rp",
            OpKind::List => "ls",
            OpKind::WarmUp => "wu",
            OpKind::Create => "cr",
        };
        format!(
            "{k}:{}:{}{}",
            self.tpe.dirname(),
            &self.id.to_hex().as_str()[..8],
            if self.ok { "" } else { ":ERR" }
        )
    }
}

#[derive(Clone, Debug, Default)]
pub struct FaultPlan {
    /// fail exactly the n-th (0-based) mutating call (write_bytes / remove); it is not executed
    pub fail_mutating_at: Option<usize>,
    /// after this many mutating calls have been executed, every further mutating call fails
    /// (the process "crashed": nothing more reaches storage)
    pub crash_after: Option<usize>,
    /// also fail reads once crashed
    pub fail_reads_after_crash: bool,
    /// record read/list operations too (off: only mutating ones)
    pub record_reads: bool,
}

pub type OpHook = Arc<dyn Fn(&Op) + Send + Sync>;

/// Wraps any backend; records the calls the library makes and injects faults.
pub struct RecBackend {
    pub inner: Arc<dyn WriteBackend>,
    pub log: Mutex<Vec<Op>>,
    pub plan: Mutex<FaultPlan>,
    mutating: AtomicUsize,
    seq: AtomicUsize,
    /// called BEFORE a mutating call is executed (gating / delays / parking)
    pub before: Mutex<Option<OpHook>>,
    pub name: String,
}

impl std::fmt::Debug for RecBackend {
    fn fmt(&self, f: &mut std::fmt::Formatter<'_>) -> std::fmt::Result {
        write!(f, "RecBackend({})", self.name)
    }
}

impl RecBackend {
    pub fn new(inner: Arc<dyn WriteBackend>, name: &str) -> Arc<Self> {
        Arc::new(Self {
            inner,
            log: Mutex::new(Vec::new()),
            plan: Mutex::new(FaultPlan::default()),
            mutating: AtomicUsize::new(0),
            seq: AtomicUsize::new(0),
            before: Mutex::new(None),
            name: name.to_string(),
        })
    }
    pub fn set_plan(&self, p: FaultPlan) {
        *self.plan.lock().unwrap() = p;
        self.mutating.store(0, Ordering::SeqCst);
    }
    pub fn set_before(&self, h: Option<OpHook>) {
        *self.before.lock().unwrap() = h;
    }
    pub fn take_log(&self) -> Vec<Op> {
        std::mem::take(&mut *self.log.lock().unwrap())
    }
    pub fn mutating_count(&self) -> usize {
        self.mutating.load(Ordering::SeqCst)
    }
    fn injected_err(what: &str) -> Box<RusticError> {
        RusticError::new(ErrorKind::Backend, format!("injected fault: {what}"))
    }
    fn crashed(&self) -> bool {
        let p = self.plan.lock().unwrap();
        p.crash_after.is_some_and(|n| self.mutating.load(Ordering::SeqCst) >= n)
    }
    fn record(&self, mut op: Op) {
        op.seq = self.seq.fetch_add(1, Ordering::SeqCst);
        self.log.lock().unwrap().push(op);
    }
    fn mutate(
        &self,
        kind: OpKind,
        tpe: FileType,
        id: &Id,
        cacheable: bool,
        len: u32,
        f: impl FnOnce() -> RusticResult<()>,
    ) -> RusticResult<()> {
        let mut op = Op { seq: 0, kind, tpe, id: *id, cacheable, offset: 0, len, ok: true, injected: false };
        let hook = self.before.lock().unwrap().clone();
        if let Some(h) = hook {
            h(&op);
        }
        let (fail_at, crash_after) = {
            let p = self.plan.lock().unwrap();
            (p.fail_mutating_at, p.crash_after)
        };
        // the index of this call among mutating calls
        let n = self.mutating.load(Ordering::SeqCst);
        if crash_after.is_some_and(|c| n >= c) {
            op.ok = false;
            op.injected = true;
            self.record(op);
            return Err(Self::injected_err("crashed"));
        }
        if fail_at == Some(n) {
            // consume the slot so that only this one call fails
            let _ = self.mutating.fetch_add(1, Ordering::SeqCst);
            {
                let mut p = self.plan.lock().unwrap();
                p.fail_mutating_at = None;
            }
            op.ok = false;
            op.injected = true;
            self.record(op);
            return Err(Self::injected_err("single failure"));
        }
        let _ = self.mutating.fetch_add(1, Ordering::SeqCst);
        let r = f();
        op.ok = r.is_ok();
        self.record(op);
        r
    }
    fn rec_read(&self, kind: OpKind, tpe: FileType, id: &Id, cacheable: bool, offset: u32, len: u32, ok: bool) {
        if self.plan.lock().unwrap().record_reads {
            self.record(Op { seq: 0, kind, tpe, id: *id, cacheable, offset, len, ok, injected: false });
        }
    }
}

impl ReadBackend for RecBackend {
    fn location(&self) -> String {
        self.inner.location()
    }
    fn list_with_size(&self, tpe: FileType) -> RusticResult<Vec<(Id, u32)>> {
        if self.crashed() && self.plan.lock().unwrap().fail_reads_after_crash {
            return Err(Self::injected_err("crashed"));
        }
        let r = self.inner.list_with_size(tpe);
        self.rec_read(OpKind::List, tpe, &Id::default(), false, 0, 0, r.is_ok());
        r
    }
    fn read_full(&self, tpe: FileType, id: &Id) -> RusticResult<Bytes> {
        if self.crashed() && self.plan.lock().unwrap().fail_reads_after_crash {
            return Err(Self::injected_err("crashed"));
        }
        let r = self.inner.read_full(tpe, id);
        self.rec_read(OpKind::ReadFull, tpe, id, false, 0, 0, r.is_ok());
        r
    }
    fn read_partial(&self, tpe: FileType, id: &Id, cacheable: bool, offset: u32, length: u32) -> RusticResult<Bytes> {
        if self.crashed() && self.plan.lock().unwrap().fail_reads_after_crash {
            return Err(Self::injected_err("crashed"));
        }
        let r = self.inner.read_partial(tpe, id, cacheable, offset, length);
        self.rec_read(OpKind::ReadPartial, tpe, id, cacheable, offset, length, r.is_ok());
        r
    }
    fn warmup_path(&self, tpe: FileType, id: &Id) -> String {
        self.inner.warmup_path(tpe, id)
    }
    fn needs_warm_up(&self) -> bool {
        self.inner.needs_warm_up()
    }
    fn warm_up(&self, tpe: FileType, id: &Id) -> RusticResult<()> {
        let r = self.inner.warm_up(tpe, id);
        self.rec_read(OpKind::WarmUp, tpe, id, false, 0, 0, r.is_ok());
        r
    }
}

impl WriteBackend for RecBackend {
    fn create(&self) -> RusticResult<()> {
        self.inner.create()
    }
    fn write_bytes(&self, tpe: FileType, id: &Id, cacheable: bool, content: BytesList) -> RusticResult<()> {
        let len: usize = content.slice().iter().map(Bytes::len).sum();
        let inner = self.inner.clone();
        self.mutate(OpKind::Write, tpe, id, cacheable, len as u32, move || {
            inner.write_bytes(tpe, id, cacheable, content)
        })
    }
    fn remove(&self, tpe: FileType, id: &Id, cacheable: bool) -> RusticResult<()> {
        let inner = self.inner.clone();
        self.mutate(OpKind::Remove, tpe, id, cacheable, 0, move || inner.remove(tpe, id, cacheable))
    }
}

// ------------------------------------------------------------------ repositories

pub type RepoOpen = Repository<OpenStatus>;

/// A fresh in-memory store (shared handle kept so that the caller can inspect / clone it).
pub fn mem() -> Arc<InMemoryBackend> {
    Arc::new(InMemoryBackend::new())
}

/// Contents of an in-memory store as a map (type dirname, id hex) -> bytes.
pub fn dump_store(be: &dyn ReadBackend) -> BTreeMap<(String, String), Vec<u8>> {
    let mut m = BTreeMap::new();
    for tpe in rustic_core::ALL_FILE_TYPES {
        if let Ok(l) = be.list_with_size(tpe) {
            for (id, _) in l {
                if let Ok(b) = be.read_full(tpe, &id) {
                    let _ = m.insert((tpe.dirname().to_string(), id.to_hex().to_string()), b.to_vec());
                }
            }
        }
    }
    m
}

pub fn repo_opts() -> RepositoryOptions {
    let mut o = RepositoryOptions::default();
    o.no_cache = true;
    o
}

/// init a new repository over `be` (+ optional hot store) with a fresh master key
pub fn init_repo(
    be: Arc<dyn WriteBackend>,
    hot: Option<Arc<dyn WriteBackend>>,
    cfg: &ConfigOptions,
    ropts: &RepositoryOptions,
) -> Result<(RepoOpen, MasterKey)> {
    let bes = RepositoryBackends::new(be, hot);
    let repo = Repository::new(ropts, &bes)?;
    let key = MasterKey::new();
    let repo = repo.init(&Credentials::Masterkey(key.clone()), &KeyOptions::default(), cfg)?;
    Ok((repo, key))
}

/// open an existing repository with its master key (a fresh handle: nothing cached in memory)
pub fn open_repo(
    be: Arc<dyn WriteBackend>,
    hot: Option<Arc<dyn WriteBackend>>,
    key: &MasterKey,
    ropts: &RepositoryOptions,
) -> Result<RepoOpen> {
    let bes = RepositoryBackends::new(be, hot);
    Ok(Repository::new(ropts, &bes)?.open(&Credentials::Masterkey(key.clone()))?)
}

/// small-pack configuration so that a few KiB of data already make several packs
pub fn small_pack_config(datapack: u32, treepack: u32) -> ConfigOptions {
    ConfigOptions::default()
        .set_datapack_size(bytesize::ByteSize(u64::from(datapack)))
        .set_datapack_growfactor(0u32)
        .set_treepack_size(bytesize::ByteSize(u64::from(treepack)))
        .set_treepack_growfactor(0u32)
}

pub fn backup_dir(repo: RepoOpen, dir: &Path, as_path: &str, opts: Option<BackupOptions>) -> Result<(RepoOpen, SnapshotFile)> {
    let repo = repo.to_indexed_ids()?;
    let opts = opts.unwrap_or_default().as_path(PathBuf::from(as_path));
    let snap = repo.backup(&opts, &PathList::from_iter(Some(dir.to_path_buf())), SnapshotFile::default())?;
    Ok((repo.drop_index(), snap))
}

/// full check incl. pack data; Ok(true) = no error reported
pub fn check_clean(repo: &RepoOpen) -> Result<bool> {
    let r = repo.check(CheckOptions::default().read_data(true))?;
    Ok(r.is_ok().is_ok())
}

/// restore snapshot `snap` (id hex or "latest") into `dest`; returns Err on a reported error
pub fn restore_to(repo: RepoOpen, snap: &str, dest: &Path, ropts: RestoreOptions) -> Result<RepoOpen> {
    let repo = repo.to_indexed()?;
    let node = repo.node_from_snapshot_path(snap, |_| true)?;
    let ls = repo.ls(&node, &LsOptions::default())?;
    let d = LocalDestination::new(dest.to_str().ok_or_else(|| anyhow!("utf8"))?, true, !node.is_dir())?;
    let plan = repo.prepare_restore(&ropts, ls.clone(), &d, false)?;
    repo.restore(plan, &ropts, ls, &d)?;
    Ok(repo.drop_index())
}

// ------------------------------------------------------------------ source trees

#[derive(Clone, Debug)]
pub enum Content {
    Random { seed: u64, len: usize },
    Zero { len: usize },
    Periodic { seed: u64, period: usize, len: usize },
    Literal(Vec<u8>),
}

impl Content {
    pub fn bytes(&self) -> Vec<u8> {
        match self {
            Self::Random { seed, len } => {
                let mut r = SplitMix(*seed);
                let mut v = Vec::with_capacity(*len + 8);
                while v.len() < *len {
                    v.extend_from_slice(&r.next().to_le_bytes());
                }
                v.truncate(*len);
                v
            }
            Self::Zero { len } => vec![0u8; *len],
            Self::Periodic { seed, period, len } => {
                let p = Self::Random { seed: *seed, len: (*period).max(1) }.bytes();
                p.iter().cycle().take(*len).copied().collect()
            }
            Self::Literal(b) => b.clone(),
        }
    }
}

#[derive(Clone, Debug)]
pub enum Kind {
    File(Content),
    Dir,
    Symlink(Vec<u8>),
    /// hard link to an earlier file entry (relative path)
    Hardlink(PathBuf),
}

#[derive(Clone, Debug)]
pub struct Entry {
    pub path: PathBuf,
    pub kind: Kind,
    pub mode: u32,
    /// seconds, nanoseconds
    pub mtime: (i64, u32),
}

/// Create the entries under `root` (parents first; directory mtimes set last).
pub fn materialize(root: &Path, entries: &[Entry]) -> Result<()> {
    use std::os::unix::ffi::OsStrExt;
    fs::create_dir_all(root)?;
    for e in entries {
        let p = root.join(&e.path);
        if let Some(parent) = p.parent() {
            fs::create_dir_all(parent)?;
        }
        match &e.kind {
            Kind::File(c) => {
                let mut f = fs::File::create(&p)?;
                f.write_all(&c.bytes())?;
                fs::set_permissions(&p, fs::Permissions::from_mode(e.mode))?;
            }
            Kind::Dir => {
                fs::create_dir_all(&p)?;
                fs::set_permissions(&p, fs::Permissions::from_mode(e.mode | 0o700))?;
            }
            Kind::Symlink(t) => {
                std::os::unix::fs::symlink(std::ffi::OsStr::from_bytes(t), &p)?;
            }
            Kind::Hardlink(to) => {
                fs::hard_link(root.join(to), &p)?;
            }
        }
    }
    // times: files first, then directories deepest first
    let mut dirs: Vec<&Entry> = Vec::new();
    for e in entries {
        let p = root.join(&e.path);
        match e.kind {
            Kind::Dir => dirs.push(e),
            Kind::Symlink(_) => {
                let _ = set_mtime_nofollow(&p, e.mtime);
            }
            _ => set_mtime(&p, e.mtime)?,
        }
    }
    dirs.sort_by_key(|e| std::cmp::Reverse(e.path.components().count()));
    for e in dirs {
        set_mtime(&root.join(&e.path), e.mtime)?;
    }
    Ok(())
}

pub fn set_mtime(p: &Path, t: (i64, u32)) -> Result<()> {
    let f = fs::File::open(p)?;
    let st = std::time::UNIX_EPOCH
        + std::time::Duration::new(t.0.max(0) as u64, t.1);
    f.set_modified(st)?;
    Ok(())
}
fn set_mtime_nofollow(_p: &Path, _t: (i64, u32)) -> Result<()> {
    // std has no lutimes; symlink mtimes are not compared
    Ok(())
}

#[derive(Clone, Debug, Default)]
pub struct TreeParams {
    pub max_entries: usize,
    pub max_depth: usize,
    pub max_file: usize,
    pub odd_names: bool,
    pub symlinks: bool,
    pub hardlinks: bool,
}

/// A seeded random source tree: file sizes 0..max_file with all-zero / periodic / random
/// content, nested and empty directories, symlinks (also non-UTF-8 targets), hard links,
/// odd names.
pub fn gen_tree(r: &mut SplitMix, p: &TreeParams) -> Vec<Entry> {
    use std::os::unix::ffi::OsStringExt;
    let mut dirs: Vec<PathBuf> = vec![PathBuf::new()];
    let mut files: Vec<PathBuf> = Vec::new();
    let mut out = Vec::new();
    let n = 1 + r.below(p.max_entries.max(1) as u64) as usize;
    let mut used = std::collections::BTreeSet::new();
    for i in 0..n {
        let parent = dirs[r.below(dirs.len() as u64) as usize].clone();
        let name: std::ffi::OsString = if p.odd_names && r.below(4) == 0 {
            let odd: [&[u8]; 8] = [b"a b", b"\xff\xfe", b"x\\y", b"\"q\"", b"tab\there", b"nl\nname", b"\xc3\xa9t\xc3\xa9", b"..."];
            let mut v = odd[r.below(8) as usize].to_vec();
            v.extend_from_slice(format!("{i}").as_bytes());
            std::ffi::OsString::from_vec(v)
        } else {
            format!("e{i}").into()
        };
        let path = parent.join(&name);
        if !used.insert(path.clone()) {
            continue;
        }
        let depth = path.components().count();
        let mtime = (1_500_000_000 + r.below(200_000_000) as i64, (r.below(1_000_000_000)) as u32);
        let mode = [0o644, 0o600, 0o755, 0o640, 0o444][r.below(5) as usize];
        let k = r.below(10);
        if k < 2 && depth < p.max_depth {
            dirs.push(path.clone());
            out.push(Entry { path, kind: Kind::Dir, mode: 0o755, mtime });
        } else if k == 2 && p.symlinks {
            let t: Vec<u8> = if r.below(3) == 0 { b"\xff\xfetarget".to_vec() } else { format!("../t{}", r.below(9)).into_bytes() };
            out.push(Entry { path, kind: Kind::Symlink(t), mode: 0o777, mtime });
        } else if k == 3 && p.hardlinks && !files.is_empty() {
            let to = files[r.below(files.len() as u64) as usize].clone();
            out.push(Entry { path, kind: Kind::Hardlink(to), mode, mtime });
        } else {
            let len = match r.below(6) {
                0 => 0,
                1 => r.below(64) as usize,
                _ => r.below(p.max_file.max(1) as u64) as usize,
            };
            let c = match r.below(4) {
                0 => Content::Zero { len },
                1 => Content::Periodic { seed: r.next(), period: 1 + r.below(300) as usize, len },
                _ => Content::Random { seed: r.next(), len },
            };
            files.push(path.clone());
            out.push(Entry { path, kind: Kind::File(c), mode, mtime });
        }
    }
    out
}

// ------------------------------------------------------------------ comparison

#[derive(Clone, Copy, Debug)]
pub struct CmpOpts {
    pub mode: bool,
    pub mtime: bool,
    pub dir_mtime: bool,
}
impl Default for CmpOpts {
    fn default() -> Self {
        Self { mode: true, mtime: true, dir_mtime: true }
    }
}

fn walk(root: &Path) -> Result<BTreeMap<PathBuf, fs::Metadata>> {
    let mut m = BTreeMap::new();
    let mut stack = vec![root.to_path_buf()];
    while let Some(d) = stack.pop() {
        for e in fs::read_dir(&d)? {
            let e = e?;
            let p = e.path();
            let md = fs::symlink_metadata(&p)?;
            if md.is_dir() {
                stack.push(p.clone());
            }
            let _ = m.insert(p.strip_prefix(root)?.to_path_buf(), md);
        }
    }
    Ok(m)
}

/// Differences between two directory trees (names, types, bytes, link targets, permission
/// bits, modification times).  Empty = identical.
pub fn compare_dirs(a: &Path, b: &Path, o: CmpOpts) -> Result<Vec<String>> {
    let (ma, mb) = (walk(a)?, walk(b)?);
    let mut diffs = Vec::new();
    for (p, x) in &ma {
        let Some(y) = mb.get(p) else {
            diffs.push(format!("missing in B: {p:?}"));
            continue;
        };
        let (tx, ty) = (x.file_type(), y.file_type());
        if tx.is_dir() != ty.is_dir() || tx.is_file() != ty.is_file() || tx.is_symlink() != ty.is_symlink() {
            diffs.push(format!("type differs: {p:?}"));
            continue;
        }
        if tx.is_file() {
            let (ca, cb) = (fs::read(a.join(p))?, fs::read(b.join(p))?);
            if ca != cb {
                diffs.push(format!("content differs: {p:?} ({} vs {} bytes)", ca.len(), cb.len()));
            }
        }
        if tx.is_symlink() {
            if fs::read_link(a.join(p))? != fs::read_link(b.join(p))? {
                diffs.push(format!("link target differs: {p:?}"));
            }
            continue;
        }
        if o.mode && (x.mode() & 0o7777) != (y.mode() & 0o7777) {
            diffs.push(format!("mode differs: {p:?} {:o} vs {:o}", x.mode() & 0o7777, y.mode() & 0o7777));
        }
        if o.mtime && (tx.is_file() || o.dir_mtime) && (x.mtime(), x.mtime_nsec()) != (y.mtime(), y.mtime_nsec()) {
            diffs.push(format!("mtime differs: {p:?} {}.{} vs {}.{}", x.mtime(), x.mtime_nsec(), y.mtime(), y.mtime_nsec()));
        }
    }
    for p in mb.keys() {
        if !ma.contains_key(p) {
            diffs.push(format!("extra in B: {p:?}"));
        }
    }
    Ok(diffs)
}
