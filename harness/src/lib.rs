//! Shared helpers for the correspondence harness binaries (one binary per property).
use rustic_core::Id;
use std::io::{BufRead, Write};

/// SplitMix64 — every random choice made on the Rust side derives from one state.
pub struct SplitMix(pub u64);
impl SplitMix {
    pub fn next(&mut self) -> u64 {
        self.0 = self.0.wrapping_add(0x9E37_79B9_7F4A_7C15);
        let mut z = self.0;
        z = (z ^ (z >> 30)).wrapping_mul(0xBF58_476D_1CE4_E5B9);
        z = (z ^ (z >> 27)).wrapping_mul(0x94D0_49BB_1331_11EB);
        z ^ (z >> 31)
    }
    pub fn below(&mut self, n: u64) -> u64 {
        if n == 0 { 0 } else { self.next() % n }
    }
}

/// Token reader over one whitespace-separated line of integers.
pub struct Toks<'a> {
    it: std::str::SplitAsciiWhitespace<'a>,
}
impl<'a> Toks<'a> {
    pub fn new(s: &'a str) -> Self {
        Self { it: s.split_ascii_whitespace() }
    }
    pub fn i(&mut self) -> i64 {
        self.it.next().expect("token").parse().expect("int")
    }
    pub fn u(&mut self) -> u64 {
        self.it.next().expect("token").parse().expect("uint")
    }
    pub fn s(&mut self) -> &'a str {
        self.it.next().expect("token")
    }
    pub fn opt_s(&mut self) -> Option<&'a str> {
        self.it.next()
    }
}

/// An `Id` whose big-endian leading bytes are `n` (order of ids = order of numbers).
pub fn id_from_u64(n: u64) -> Id {
    let mut b = [0u8; 32];
    b[..8].copy_from_slice(&n.to_be_bytes());
    Id::from_hex(&hex::encode(b)).unwrap()
}
/// An `Id` whose first two bytes are `n` (for prefix tests on the hex form).
pub fn id_from_u16(n: u16) -> Id {
    let mut b = [0u8; 32];
    b[..2].copy_from_slice(&n.to_be_bytes());
    Id::from_hex(&hex::encode(b)).unwrap()
}
pub fn id_to_u64(id: &Id) -> u64 {
    let h = id.to_hex();
    u64::from_str_radix(&h.as_str()[..16], 16).unwrap()
}
pub fn id_to_u16(id: &Id) -> u16 {
    let h = id.to_hex();
    u16::from_str_radix(&h.as_str()[..4], 16).unwrap()
}

/// Run `f` on every line of the file named by argv[1] (or stdin), write one result
/// line per case to stdout.  Panics are caught and reported as `panic`.
pub fn for_each_case(mut f: impl FnMut(&str) -> String + std::panic::UnwindSafe + Copy) {
    std::panic::set_hook(Box::new(|_| {}));
    let args: Vec<String> = std::env::args().collect();
    let rd: Box<dyn BufRead> = if args.len() > 1 && args[1] != "-" {
        Box::new(std::io::BufReader::new(std::fs::File::open(&args[1]).expect("open cases")))
    } else {
        Box::new(std::io::BufReader::new(std::io::stdin()))
    };
    let out = std::io::stdout();
    let mut out = std::io::BufWriter::new(out.lock());
    for line in rd.lines() {
        let line = line.expect("read");
        if line.trim().is_empty() {
            continue;
        }
        let r = std::panic::catch_unwind(move || f(&line)).unwrap_or_else(|_| "panic".to_string());
        writeln!(out, "{r}").unwrap();
    }
}
pub mod e2e;
