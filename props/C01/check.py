"""C01 — backup followed by restore reproduces the source exactly.

Stages: facts from the source (is Indexer.indexed typed? shapes of read_at / escape tables);
Coq theorems (name codec, read_at, packer/indexer pipeline); correspondence of the extracted
models with the real code (names through Node::new_node / Node::name, read_at through
Repository::read_file_at on scripted blobs, packer/indexer through the C01 hook); and the
end-to-end oracle = the property itself: generated trees x configurations -> real backup ->
check(read_data), ls, dump, read_file_at, restore + directory comparison."""
import os, sys, json
import vlib
from vlib import ROOT, REPO, log

HOWTO = "echo '<case>' | .cache/target*/debug/c01 -   (format: harness/src/bin/c01.rs); model: build/C01/model"


def hx(b):
    return b.hex() if b else "-"


def run_lines(exe, lines, timeout=3000):
    path = os.path.join(vlib.BUILD, "C01", "in_%d.txt" % os.getpid())
    open(path, "w").write("\n".join(lines) + "\n")
    rc, out, err = vlib.sh2("ulimit -s unlimited 2>/dev/null; exec %s %s" % (exe, path), timeout=timeout)
    os.remove(path)
    res = out.split("\n")          # not splitlines(): error texts may carry \x0b, \x1c, \x85 ... from file names
    if res and res[-1] == "": res.pop()
    if rc != 0 or len(res) != len(lines):
        raise RuntimeError("%s failed rc=%s (%d of %d lines)\n%s" % (exe, rc, len(res), len(lines), err[-2000:]))
    return res


# ------------------------------------------------------------------ generators

UTF8_SAMPLES = ["é", "€", "💯", "ß", "ࠀ", "￿", "\U00010000", "\U0010ffff", "\u007f", "\u0080", "a", "Z", " ", "߿"]
SPECIAL = [0x5c, 0x22, 0x27, 0x60, 7, 8, 9, 10, 11, 12, 13, 0, 1, 0x1b, 0x7f, 0x20, ord("x"), ord("u"), ord("U"), ord("a"), ord("n"), ord("+")]


def gen_name(rng):
    """a file name as bytes (no restriction: the codec takes any byte string)"""
    out = bytearray()
    for _ in range(rng.choice([0, 1, 1, 2, 3, 5, 8, 13, 30])):
        k = rng.randint(0, 9)
        if k == 0: out.append(rng.randint(0, 255))
        elif k == 1: out.append(rng.choice(SPECIAL))
        elif k == 2: out += rng.choice(UTF8_SAMPLES).encode()
        elif k == 3:  # truncated multi-byte sequence
            e = rng.choice(UTF8_SAMPLES[:8]).encode(); out += e[:rng.randint(1, len(e))]
        elif k == 4:  # overlong / surrogate / out-of-range leads and stray continuations
            out += rng.choice([b"\xc0\x80", b"\xc1\xbf", b"\xe0\x80\x80", b"\xe0\x9f\xbf", b"\xed\xa0\x80", b"\xed\xbf\xbf",
                               b"\xf0\x80\x80\x80", b"\xf0\x8f\xbf\xbf", b"\xf4\x90\x80\x80", b"\xf5\x80\x80\x80", b"\x80", b"\xbf",
                               b"\xe2\x82", b"\xf0\x9f\x92", b"\xf0\x9f", b"\xff", b"\xfe", b"\xc2", b"\xe0\xa0", b"\xed\x9f\xbf", b"\xee\x80\x80",
                               b"\xf4\x8f\xbf\xbf", b"\xe1\x80\xc0", b"\xf1\x80\x80\x41"])
        elif k == 5:  # already-escaped-looking text
            out += rng.choice([b"\\x41", b"\\\\", b"\\n", b"\\u00e9", b"\\U0001f4af", b"\\xff", b"\\x", b"\\", b"\\\"", b"\\xZZ", b"\\x+f"])
        elif k == 6: out.append(rng.randint(0x80, 0xff))
        elif k == 7: out.append(rng.randint(1, 0x1f))
        else: out.append(rng.randint(0x20, 0x7e))
    return bytes(out)


def gen_stored(rng):
    """a stored (escaped-looking) name: valid UTF-8 text with well- and ill-formed escapes"""
    hexd = "0123456789abcdefABCDEF"
    out = ""
    for _ in range(rng.choice([0, 1, 2, 3, 4, 6, 10])):
        k = rng.randint(0, 11)
        if k == 0: out += "\\" + rng.choice("\\\"'`abfnrtv")
        elif k == 1: out += "\\x" + rng.choice(hexd) + rng.choice(hexd)
        elif k == 2: out += "\\x" + rng.choice(["+f", "-1", "g0", "0", "", " 1", "é1", "1é", "+", "++", "0x", "F+"])
        elif k == 3: out += "\\u" + "".join(rng.choice(hexd) for _ in range(4))
        elif k == 4: out += "\\u" + rng.choice(["d800", "dfff", "D7FF", "e000", "+123", "12", "", "00é9", "-001", "++12", "0 41"])
        elif k == 5: out += "\\U" + rng.choice(["0001f4af", "0010ffff", "00110000", "0000d800", "+010ffff", "00000041", "1234567", "ffffffff", "0000DFFF", "+0000041", "0001F4AFz"])
        elif k == 6: out += "\\" + rng.choice(["q", "0", "X", "é", " ", "N", "e", "/"])
        elif k == 7: out += rng.choice(UTF8_SAMPLES)
        elif k == 8: out += "\\"
        elif k == 9: out += chr(rng.randint(0x20, 0x7e))
        elif k == 10: out += "\\U" + "".join(rng.choice(hexd) for _ in range(8))
        else: out += rng.choice(["\t", "\n", "\x00", "\x7f", "x", "u", "+"])
    return out.encode()


def gen_read(rng, thorough):
    n = rng.choice([0, 1, 1, 2, 3, 4, 6, 9, 14])
    blobs = []
    for _ in range(n):
        l = rng.choice([0, 0, 1, 1, 2, 3, 5, 8, 17, 64, 257 if thorough else 40])
        blobs.append(bytes(rng.randint(0, 255) for _ in range(l)))
    total = sum(len(b) for b in blobs)
    bounds = [0]
    for b in blobs: bounds.append(bounds[-1] + len(b))
    qs = []
    for _ in range(rng.randint(3, 10)):
        k = rng.randint(0, 5)
        if k == 0: off = rng.choice(bounds)
        elif k == 1: off = max(0, rng.choice(bounds) - 1)
        elif k == 2: off = rng.choice(bounds) + 1
        elif k == 3: off = rng.randint(0, total + 3)
        elif k == 4: off = total + rng.choice([0, 1, 2, 1000, 2 ** 40, 2 ** 63 - 1, 2 ** 64 - 1])
        else: off = 0
        k = rng.randint(0, 5)
        if k == 0: ln = 0
        elif k == 1: ln = max(0, rng.choice(bounds) - off) if off <= total else 1
        elif k == 2: ln = max(0, total - off) + rng.choice([0, 1, 5, 1000])
        elif k == 3: ln = rng.randint(0, total + 2)
        elif k == 4: ln = 1
        else: ln = rng.choice([total, total + 1, 4096, 65536])
        qs.append((min(off, 2 ** 64 - 1), min(ln, 2 ** 40)))
    return blobs, qs


def read_line(blobs, qs):
    t = ["R", str(len(blobs))] + [hx(b) for b in blobs] + [str(len(qs))]
    for o, l in qs: t += [str(o), str(l)]
    return " ".join(t)


def cksum(b):
    a = 0
    for i, x in enumerate(b): a = (a + x * ((i % 251) + 1)) % 1000000007
    return "%d:%d" % (len(b), a)


def gen_pipe(rng):
    """segments of one run sharing one indexer; ids from a small pool so that the same id comes
    back in later segments under the same and under the other type (data of an id is fixed)"""
    pool = rng.randint(2, 7)
    data = {i: bytes(rng.randint(0, 255) for _ in range(rng.choice([0, 1, 3, 10, 40, 100]))) for i in range(1, pool + 1)}
    big = rng.random() < 0.4
    pack_size = 1 << 20 if big else rng.choice([1, 1, 40, 75, 150, 300])
    segs = []
    for _ in range(rng.randint(1, 5)):
        is_tree = rng.randint(0, 1)
        n = rng.randint(0, 6)
        if big: ids = [rng.randint(1, pool) for _ in range(n)]        # duplicates inside a pack
        else: ids = rng.sample(range(1, pool + 1), min(n, pool))       # no duplicate behind an unsynchronised flush
        segs.append((is_tree, [(i, data[i]) for i in ids]))
    return pack_size, segs


def pipe_line(pack_size, segs):
    t = ["P", str(pack_size), str(len(segs))]
    for is_tree, bl in segs:
        t += [str(is_tree), str(len(bl))]
        for i, d in bl: t += [str(i), hx(d)]
    return " ".join(t)


def gen_e2e(rng, thorough, idx):
    seed = rng.randint(1, 2 ** 40)
    version = rng.choice([1, 2, 2])
    comp = -999
    if version == 2: comp = rng.choice([-999, -999, 0, 1, 3, 9, 19, -5, 22])
    if version == 1: comp = rng.choice([-999, -999, 0])
    chunker = rng.choice([0, 0, 1])
    csize = cmin = cmax = 0
    if chunker == 0:
        if rng.random() < 0.7:
            csize = rng.choice([8192, 16384, 32768, 65536])
            cmin = rng.choice([4096, 4096, 8192]) if rng.random() < 0.8 else 0
            if cmin == 0: cmin = 4096
            cmin = min(cmin, csize)
            cmax = csize * rng.choice([1, 2, 4, 8])
        maxfile = rng.choice([20000, 100000, 300000 if thorough else 150000]) if csize else rng.choice([20000, 200000, 1500000 if thorough else 600000])
    else:
        csize = rng.choice([512, 1000, 4096, 10000, 65536, 1 << 20])
        maxfile = min(csize * rng.choice([2, 5, 9]), 400000 if thorough else 120000)
    dpack = rng.choice([1, 1, 500, 3000, 20000, 100000, 4 << 20])
    tpack = rng.choice([1, 300, 2000, 20000, 4 << 20])
    entries = rng.choice([5, 15, 30, 60 if thorough else 30])
    depth = rng.choice([1, 3, 5])
    flags = 0
    if rng.random() < 0.35: flags |= 1
    if rng.random() < 0.5: flags |= 2
    if rng.random() < 0.6: flags |= 4
    if flags & 1 and rng.random() < 0.7: flags |= 8
    if rng.random() < 0.2: flags |= 16
    if idx == 0:   # the replay of DESIGN section 7 row 6 is always part of the run
        version, comp, chunker, csize, cmin, cmax, dpack, tpack, entries, depth, maxfile, flags = 2, -999, 0, 0, 0, 0, 1, 4000, 10, 3, 2000, 9
    return "E %d %d %d %d %d %d %d %d %d %d %d %d %d" % (seed, version, comp, chunker, csize, cmin, cmax, dpack, tpack, entries, depth, maxfile, flags)


def gen_stream(rng, thorough, idx):
    """archive from an in-memory ReadSource with fragmenting / interrupted readers"""
    seed = rng.randint(1, 2 ** 40)
    chunker = rng.choice([0, 0, 0, 1])
    if chunker == 0:
        csize = rng.choice([8192, 16384, 65536, 1 << 20])
        cmin = 4096 if csize < (1 << 20) or rng.random() < 0.5 else 0
        cmax = csize * rng.choice([2, 4, 8])
        maxfile = rng.choice([60000, 200000, 400000]) if csize < (1 << 20) else (1500000 if thorough else 700000)
    else:
        csize, cmin, cmax = rng.choice([512, 4096, 10000, 65536]), 0, 0
        maxfile = min(csize * rng.choice([3, 9, 30]), 300000)
    nfiles = rng.randint(1, 5)
    style = rng.choice([0, 0, 1, 2])
    if idx == 0:   # rabin with the smallest accepted minimum: most bytes go through the rolling-hash read loop
        chunker, csize, cmin, cmax, nfiles, maxfile, style = 0, 1 << 20, 4096, 8 << 20, 2, 600000, 0
    if idx == 1:
        chunker, csize, cmin, cmax, nfiles, maxfile, style = 0, 8192, 4096, 65536, 4, 150000, 1
    return "S %d %d %d %d %d %d %d %d" % (seed, chunker, csize, cmin, cmax, nfiles, maxfile, style)


def valid_component(b):
    return len(b) > 0 and 0x2f not in b and 0 not in b and b not in (b".", b"..")


def gen_forest(rng, pool):
    """trees over (raw, stored) name pairs: mostly sorted by raw name with distinct names (as backup
    writes them), sometimes unsorted or with a duplicate; sub-directories reference later trees"""
    nt = rng.randint(1, 4)
    trees = {}
    tag = [100]
    for tid in range(nt, 0, -1):
        k = rng.choice([0, 1, 2, 3, 5, 8, 12])
        picks = rng.sample(pool, min(k, len(pool)))
        seen, nodes = set(), []
        for raw, stored in picks:
            if raw in seen: continue
            seen.add(raw)
            sub = rng.choice([0, 0] + list(range(tid + 1, nt + 1))) if tid < nt else 0
            tag[0] += 1
            nodes.append([raw, stored, sub, tag[0]])
        style = rng.random()
        if style < 0.8: nodes.sort(key=lambda x: x[0])
        elif style < 0.9: rng.shuffle(nodes)
        else:
            nodes.sort(key=lambda x: x[0])
            if nodes:                                    # a duplicate raw name (first match wins)
                d = list(rng.choice(nodes)); tag[0] += 1; d[3] = tag[0]; nodes.append(d)
        trees[tid] = nodes
    listing = []
    def walk(tid, prefix, depth):
        for raw, stored, sub, tg in trees[tid]:
            pth = prefix + [raw]
            listing.append((pth, tg))
            if sub: walk(sub, pth, depth + 1)
    walk(1, [], 0)
    def find(pth):
        tid, node = 1, None
        for i, c in enumerate(pth):
            if tid == 0: return None
            node = next((x for x in trees[tid] if x[0] == c), None)
            if node is None: return None
            tid = node[2]
        return node[3] if node else None
    queries = [pth for pth, _ in listing]
    for _ in range(rng.randint(1, 4)):
        base = list(rng.choice(listing)[0]) if listing and rng.random() < 0.7 else []
        k = rng.randint(0, 3)
        if k == 0: base = base + [rng.choice(pool)[0]]
        elif k == 1 and base: base = base[:-1] + [rng.choice(pool)[1]]       # the STORED form as a component
        elif k == 2 and base: base = base[:-1] + [base[-1] + b"x"]
        else: base = [rng.choice(pool)[0]]
        if base: queries.append(base)
    toks = ["T", str(nt)]
    for tid in sorted(trees):
        toks += [str(tid), str(len(trees[tid]))]
        for raw, stored, sub, tg in trees[tid]: toks += [hx(stored), str(sub), str(tg)]
    toks += ["1", str(len(queries))]
    for q in queries: toks += [str(len(q))] + [hx(c) for c in q]
    exp_ls = ",".join("/".join(hx(c) for c in pth) + ":" + str(tg) for pth, tg in listing)
    exp_q = ",".join(str(find(q)) if find(q) is not None else "-" for q in queries)
    return " ".join(toks), "ok ls=%s | q=%s" % (exp_ls, exp_q), len(listing)


def gen_time(rng):
    s = rng.choice([0, -1, -2, 1, -86400, 86400, -2 ** 31, 2 ** 31 - 1, 2 ** 31, 2 ** 32, 2 ** 33, 7258118400, -2145916800,
                    -377705023201, -377705023202, 253402207200, 253402207201,
                    -rng.randint(1, 3 * 10 ** 9), rng.randint(1, 10 ** 10), -rng.randint(1, 10 ** 6), rng.randint(1, 10 ** 6)])
    n = rng.choice([0, 0, 1, 999999999, 500000000, 250000000, 750000000, rng.randint(0, 999999999)])
    return "M %d %d" % (s, n), s, n


# ------------------------------------------------------------------ the check

def run(ctx):
    rng = ctx.rng
    cov = ctx.coverage
    meta, err = vlib.regen_extracted("C01")
    meta06, err06 = vlib.regen_extracted("C06")     # the chunker model file_content_roundtrip composes with
    r = vlib.proof_stage(ctx)
    if err:
        r["ok"] = False
        r["failures"].append("fact extraction failed: " + err)
    if err06:
        r["ok"] = False
        r["failures"].append("fact extraction of C06 (chunker constants, check_rabin_params) failed: " + err06)
    cov["trusted_base"] += [
        "props/C01/extract.py (shape checks of indexer.rs / packer.rs / vfs.rs / node.rs / tree.rs / mapper.rs / local_destination.rs; decides Extracted.indexed_typed, lookup_binary_search, lookup_compares_stored, restore_time_direct)",
        "props/C06 (chunker model, its theorems and its extractor) — imported by file_content_roundtrip / backup_file_readback; the correspondence of that model with chunker/rabin.rs is C06's check, here only the stream stage observes it",
        "harness/src/bin/c01.rs + harness/src/e2e.rs (tree generation, directory comparison), verif_hooks/c01.rs (scripted Packer/Indexer segments)",
    ]
    ctx.assumptions += [
        "names: core::str::from_utf8 (valid_up_to / error_len) is modelled by the validation automaton of Model.escape; compared with the real code on generated byte strings",
        "names: serde_json writes and reads the escaped String unchanged (exercised end-to-end, not proved)",
        "read_at: blob sizes and offsets are usize, total file size < usize::MAX; index lookup returns the stored blob (C17/C08)",
        "pipeline: blob ids determine blob bytes within a run (Consistent = SHA-256 collision-freedom on the values that occur); crossbeam/pariter stages are FIFO; should_save is treated as arbitrary (any flush schedule)",
        "pipeline: process_data/encrypt/zstd round-trip and the pack header/offset layout are abstracted (C04/C08): a pack is the list of its blobs",
        "path lookup: a tree blob deserialises to the node list it was serialised from (serde, exercised); directories have pairwise different names (wf_repo; the lookup returns the FIRST match, compared on generated trees with duplicates too)",
        "times: std SystemTime arithmetic (duration_since, checked_add/sub), jiff Timestamp<->SystemTime and filetime::FileTime::from_system_time are modelled from their sources (jiff 0.2, filetime 0.2) and compared with the real conversions on generated timespecs; the RFC 3339 text form in the tree JSON round-trips (exercised e2e)",
        "file content: chunk ids are H(chunk) for an arbitrary function H with Consistent blobs (no SHA-256 collision in the run); every chunk is handed to the data packer of the run (fresh repository; chunks already present in an older index are C07's subject)",
        "e2e: LocalSource metadata capture, LocalDestination syscalls, serde, chunker, crypto and zstd are exercised, not proved; ctime/atime/ownership/xattrs are outside the property (run as root)",
        "e2e: chunker parameters are taken from the region that does not panic (rabin min_size >= 4096 <= avg, fixed size >= 512); the refused/panicking regions belong to C18/C06 (DESIGN section 7 rows 5, 13)",
        "e2e: version-1 repositories are created with Repository::init_with_config (Repository::init refuses set_version = 1)",
        "e2e: pre-epoch / sub-second mtimes are compared exactly as the temp file system stores them (coverage.distribution e2e_total_times_exact counts those stored exactly as requested)",
        "stream: the reader's short reads and ErrorKind::Interrupted are legal std::io::Read behaviour; local files do not produce them, so they are injected through a custom ReadSource",
    ]
    ctx.level = "proof"
    try:
        model = vlib.build_model("C01")
    except RuntimeError as e:
        model = None
        if r["ok"]:
            r["ok"] = False; r["failures"].append("extracted model no longer builds: " + str(e)[-500:])
    impl = vlib.build_harness("c01")
    T = ctx.thorough()
    hist = {}
    samples = []
    mism, nontriv = [], set()
    evals = 0

    def bump(k, n=1): hist[k] = hist.get(k, 0) + n

    if ctx.replay:
        rp = json.load(open(ctx.replay))
        line = rp["witness"].get("case")
        out = run_lines(impl, [line])[0]
        print("replay:", line, "->", out)
        if out.startswith("FAIL") or (model and not line.startswith("E") and run_lines(model, [line])[0].split(" | ")[0] != out):
            ctx.violation(rp["what"], rp["witness"], signature=rp.get("signature"))
        vlib.finish_broken_obligations(ctx)
        return

    import time
    t0 = time.time()
    def lap(name):
        nonlocal t0
        cov.setdefault("stage_seconds", {})[name] = round(time.time() - t0, 1); t0 = time.time()
    # ---- 1. names
    names = [b"", b"\\", b"\"", b"\xff", b"a\\b", b"\\x41", b"\xc3", b"\xe2\x82", b"\xed\xa0\x80", b"\xf4\x90\x80\x80", bytes(range(1, 47)) + bytes(range(48, 256))]
    for ln in open(os.path.join(ctx.pdir, "corpus.txt")) if os.path.exists(os.path.join(ctx.pdir, "corpus.txt")) else []:
        ln = ln.split("#")[0].strip()
        if ln.startswith("NE "): names.append(bytes.fromhex(ln.split()[1]) if ln.split()[1] != "-" else b"")
    while len(names) < (30000 if T else 2500): names.append(gen_name(rng))
    ne_lines = ["NE " + hx(n) for n in names]
    ie = run_lines(impl, ne_lines)
    me = run_lines(model, ne_lines) if model else None
    escaped = []
    for i, (n, a) in enumerate(zip(names, ie)):
        evals += 1
        if not a.startswith("ok "):
            ctx.violation("escape_filename fails on a file name", {"case": ne_lines[i], "impl": a, "how_to_replay": HOWTO}); escaped.append(None); continue
        e = bytes.fromhex(a[3:]) if a[3:] != "-" else b""
        escaped.append(e)
        if e != n: nontriv.add(("N", n)); bump("names_needing_escape")
        else: bump("names_plain")
        if me and me[i] != a: mism.append((ne_lines[i], a, me[i]))
    stored = [e for e in escaped if e is not None]
    nrt = len(stored)
    extra = [gen_stored(rng) for _ in range(20000 if T else 2000)]
    nu_lines = ["NU " + hx(s) for s in stored + extra]
    iu = run_lines(impl, nu_lines)
    mu = run_lines(model, nu_lines) if model else None
    k = 0
    for i, n in enumerate(names):
        if escaped[i] is None: continue
        a = iu[k]; evals += 1
        want = "ok " + hx(n)
        if a != want:    # the oracle: Node::name() of the stored name is the original name
            ctx.violation("file name does not survive escape_filename/unescape_filename",
                          {"case": ne_lines[i], "name": hx(n), "stored": hx(escaped[i]), "unescaped": a, "how_to_replay": HOWTO})
        if mu and mu[k] != a: mism.append((nu_lines[k], a, mu[k]))
        k += 1
    for j in range(nrt, len(nu_lines)):
        evals += 1
        a = iu[j]
        bump("stored_fallback" if a == "ok " + nu_lines[j][3:] and b"\\" in extra[j - nrt] else "stored_unescaped")
        if mu and mu[j] != a: mism.append((nu_lines[j], a, mu[j]))
        if a != "ok " + nu_lines[j][3:]: nontriv.add(("U", extra[j - nrt]))
    if names: samples.append({"case": ne_lines[10], "impl": ie[10], "model": me[10] if me else None})

    lap('names')
    # ---- 2. read_at on scripted blobs
    rcases = [gen_read(rng, T) for _ in range(1500 if T else 120)]
    rcases[0] = ([b"abc", b"", b"", b"defg"], [(0, 7), (3, 1), (3, 100), (2, 3), (7, 1), (8, 1), (2 ** 64 - 1, 1), (0, 0)])
    rl = [read_line(b, q) for b, q in rcases]
    ir = run_lines(impl, rl)
    mr = run_lines(model, rl) if model else None
    for i, ((blobs, qs), a) in enumerate(zip(rcases, ir)):
        evals += 1
        whole = b"".join(blobs)
        want = "ok " + " ".join(cksum(whole[o:o + l]) for o, l in qs) + " dump=" + cksum(whole)
        want = want.replace("ok  dump", "ok dump")
        bump("read_blobs_%s" % ("0" if not blobs else "1" if len(blobs) == 1 else "2+"))
        if any(len(b) == 0 for b in blobs): bump("read_with_zero_length_blob")
        if a != want:
            ctx.violation("read_file_at / dump returns other bytes than the slice of the file",
                          {"case": rl[i], "impl": a, "expected": want, "how_to_replay": HOWTO})
        if mr and mr[i] != a: mism.append((rl[i], a, mr[i]))
        if len(blobs) >= 2: nontriv.add(("R", rl[i]))
    samples.append({"case": rl[0], "impl": ir[0], "model": mr[0] if mr else None})
    # lengths far beyond the end of the file (own process: an allocation failure aborts it)
    huge = ["R 2 6162 63 3 0 %d 1 %d 3 %d" % (n, n, n) for n in (2 ** 40, 2 ** 62, 2 ** 64 - 1)]
    for hl in huge:
        evals += 1
        try:
            a = run_lines(impl, [hl], timeout=120)[0]
        except RuntimeError as e:
            a = "process died: " + str(e)[-300:].replace("\n", " ")
        want = "ok 3:%s 2:%s 0:0 dump=%s" % (cksum(b"abc").split(":")[1], cksum(b"bc").split(":")[1], cksum(b"abc"))
        if a != want:
            ctx.violation("read_file_at with a length far beyond the end of the file does not return the bytes up to the end (allocates `length` bytes: abort / capacity overflow)",
                          {"case": hl, "impl": a, "expected": want, "how_to_replay": HOWTO}, signature="read-at-allocates-length")
        elif model:
            m1 = run_lines(model, [hl])[0]
            if m1 != a: mism.append((hl, a, m1))
        bump("read_huge_length")

    lap('read_at')
    # ---- 3. packer / indexer segments
    pcases = [gen_pipe(rng) for _ in range(1200 if T else 120)]
    pcases[0] = (1, [(0, [(7, b"{}"), (8, b"x")]), (1, [(7, b"{}"), (9, b"y")])])     # the collision, scripted
    pl = [pipe_line(*c) for c in pcases]
    ip = run_lines(impl, pl)
    mp = run_lines(model, pl) if model else None
    for i, ((ps, segs), a) in enumerate(zip(pcases, ip)):
        evals += 1
        # oracle: every blob handed to a packer is retrievable by (type, id) with its bytes
        got = dict(x.split("=") for x in a.split()[2:]) if a.startswith("ok") else {}
        lost = []
        for is_tree, bl in segs:
            for bid, d in bl:
                if got.get("%s:%d" % ("T" if is_tree else "D", bid)) != cksum(d):
                    lost.append((is_tree, bid))
        cross = {bid for t1, b1 in segs for bid, _ in b1 if any(t2 != t1 and any(x == bid for x, _ in b2) for t2, b2 in segs)}
        if cross: bump("pipe_cross_type_ids")
        if lost or not a.startswith("ok"):
            sig = "cross-type-id-collision" if lost and all(b in cross for _, b in lost) else None
            ctx.violation("a blob handed to the packer is not retrievable after finalize (backup would report success)",
                          {"case": pl[i], "impl": a, "lost": lost, "how_to_replay": HOWTO}, signature=sig)
        if mp:
            mc, _, orc = mp[i].partition(" | ")
            if mc != a: mism.append((pl[i], a, mc))
            if "all=false" in orc: bump("model_predicts_loss")
        if sum(len(b) for _, b in segs) >= 3: nontriv.add(("P", pl[i]))
    samples.append({"case": pl[0], "impl": ip[0], "model": mp[0] if mp else None})

    lap('pipeline')
    # ---- 3b. path lookup on scripted trees (names from stage 1: raw name, stored name as the code escapes it,
    #          and stored names with ill-formed escapes under the name Node::name() falls back to)
    pool = [(n, e) for n, e in zip(names, escaped) if e is not None and valid_component(n)]
    for j in range(nrt, len(nu_lines)):
        a = iu[j]
        if a.startswith("ok "):
            raw = bytes.fromhex(a[3:]) if a[3:] != "-" else b""
            if valid_component(raw): pool.append((raw, extra[j - nrt]))
    tcases = [gen_forest(rng, pool) for _ in range(1500 if T else 150)]
    tl = [c[0] for c in tcases]
    it = run_lines(impl, tl)
    mt_ = run_lines(model, tl) if model else None
    for i, ((ln, want, nlisted), a) in enumerate(zip(tcases, it)):
        evals += 1
        bump("tree_listed_entries", nlisted)
        if a != want:      # the oracle: the listing is the pre-order walk and every listed path is found as that node
            ctx.violation("an entry listed by ls is not found (or found as another node) by node_from_path, or the listing differs from the trees",
                          {"case": ln, "impl": a, "expected": want, "how_to_replay": HOWTO})
        if mt_ and mt_[i] != a: mism.append((ln, a, mt_[i]))
        if nlisted >= 3: nontriv.add(("T", ln))
    samples.append({"case": tl[0][:300], "impl": it[0][:300], "model": mt_[0][:300] if mt_ else None})
    # ---- 3c. time conversion: timespec -> Timestamp (capture) -> set_times on a real file -> stat
    mcases = [gen_time(rng) for _ in range(2000 if T else 250)]
    mcases[0] = ("M -2 750000000", -2, 750000000)
    ml_ = [c[0] for c in mcases]
    im = run_lines(impl, ml_)
    mm = run_lines(model, ml_) if model else None
    for i, ((ln, s_, n_), a) in enumerate(zip(mcases, im)):
        evals += 1
        if a.endswith("fs-inexact"):
            bump("time_fs_inexact")
            if mm and not mm[i].startswith(a.rsplit(" ", 1)[0]): mism.append((ln, a, mm[i]))
            continue
        if "cap=none" in a: bump("time_out_of_jiff_range")
        elif not a.endswith("res=%d:%d" % (s_, n_)):
            ctx.violation("a modification time does not survive capture (SystemTime -> Timestamp) and LocalDestination::set_times",
                          {"case": ln, "impl": a, "expected": "res=%d:%d" % (s_, n_), "how_to_replay": HOWTO})
        else:
            bump("time_pre_epoch" if s_ < 0 else "time_post_epoch")
            if s_ < 0 and n_ != 0: nontriv.add(("M", ln))
        if mm and mm[i] != a: mism.append((ln, a, mm[i]))
    samples.append({"case": ml_[0], "impl": im[0], "model": mm[0] if mm else None})
    lap('tree+time')
    # ---- 4. end to end: the property itself
    ecases = [gen_e2e(rng, T, i) for i in range(250 if T else 14)]
    io = run_lines(impl, ecases, timeout=6000)
    nfail, refused = 0, 0
    for ln, a in zip(ecases, io):
        evals += 1
        if a.startswith("ok "):
            kv = dict(x.split("=") for x in a.split()[1:])
            bump("e2e_ok")
            for k2 in ("files", "chunks", "trees", "packs", "reads", "crosstype", "planted", "bytes", "bypath", "subrestores", "times", "times_exact"):
                bump("e2e_total_" + k2, int(kv[k2]))
            if int(kv["crosstype"]) > 0: bump("e2e_cases_with_realized_cross_type_collision")
            if int(kv["files"]) >= 5 and int(kv["packs"]) >= 3: nontriv.add(("E", ln))
            f = ln.split()
            bump("e2e_version_" + f[2]); bump("e2e_chunker_" + ("rabin" if f[4] == "0" else "fixed")); bump("e2e_compression_" + f[3])
            if len(samples) < 6: samples.append({"case": ln, "impl": a})
        elif a.startswith("FAIL sig=config-refused"):
            refused += 1; bump("e2e_config_refused")
        elif a.startswith("FAIL sig=infra"):
            raise RuntimeError("e2e harness step failed: " + a)
        else:
            nfail += 1
            sig = a.split()[1].split("=", 1)[1] if a.startswith("FAIL sig=") else "panic"
            what = a.split("what=", 1)[1] if "what=" in a else a
            ctx.violation("backup followed by read-back does not reproduce the source: " + what[:300],
                          {"case": ln, "impl": a[:3000], "how_to_replay": HOWTO + " ; the case line holds seed and configuration, the tree is regenerated from the seed"},
                          signature=(sig if sig != "other" else None))
    lap('e2e')
    # ---- 5. backup through Repository::archive from readers with short reads and EINTR
    scases = [gen_stream(rng, T, i) for i in range(120 if T else 14)]
    so = run_lines(impl, scases, timeout=3000)
    for ln, a in zip(scases, so):
        evals += 1
        if a.startswith("ok "):
            kv = dict(x.split("=") for x in a.split()[1:])
            bump("stream_ok")
            for k2 in ("files", "bytes", "chunks", "short_reads", "eintr", "short_then_eintr"):
                bump("stream_total_" + k2, int(kv[k2]))
            if int(kv["short_then_eintr"]) > 0 and int(kv["chunks"]) >= 2: nontriv.add(("S", ln))
        elif a.startswith("FAIL sig=config-refused"):
            bump("stream_config_refused")
        elif a.startswith("FAIL sig=infra"):
            raise RuntimeError("stream harness step failed: " + a)
        else:
            nfail += 1
            what = a.split("what=", 1)[1] if "what=" in a else a
            ctx.violation("backup from a reader with short reads / interrupted reads does not reproduce the bytes read: " + what[:300],
                          {"case": ln, "impl": a[:3000], "how_to_replay": HOWTO + " ; files and the read fragmentation are regenerated from the seed"})
    lap('stream')
    if refused > len(ecases) // 4:
        ctx.violation("the e2e generator produces configurations the library refuses (%d of %d)" % (refused, len(ecases)),
                      {"refused": refused}, no_input=True)
    cov.update({
        "evaluations": evals, "distinct_nontrivial": len(nontriv),
        "rule": "names: byte strings from {random bytes, specials, valid/truncated/overlong/surrogate UTF-8, escaped-looking text} (non-trivial = stored form differs from the name) and stored names with well/ill-formed escapes; read_at: blob lists incl. zero-length blobs x (offset,len) at/around blob boundaries, EOF, 2^63, usize::MAX (non-trivial = >= 2 blobs); path lookup: forests of 1-4 trees over the stage-1 names (raw name, stored name; sorted / unsorted / with a duplicate), queries = every listed path plus missing, stored-form and through-a-file paths (non-trivial = >= 3 listed entries); times: seconds at 0, +-1, +-1 day, 2^31, 2^33, jiff's limits +-1 and random, nanoseconds 0/1/999999999/fractions (non-trivial = pre-epoch with a sub-second part); pipeline: 1-5 packer segments over a pool of 2-7 ids, both types, pack sizes 1..1MiB (non-trivial = >= 3 blobs); e2e: seeded trees x (version, compression, chunker, chunk sizes, pack sizes), every listed entry also looked up by path, two sub-directories restored by path, mtimes before/at/after the epoch with sub-second parts (non-trivial = >= 5 files and >= 3 packs); stream: in-memory ReadSource through Repository::archive with fragmented and interrupted reads (non-trivial = a short read directly followed by EINTR occurred and >= 2 chunks); distinct by full case text",
        "samples": samples[:8], "distribution": hist, "indexed_typed_in_source": (meta or {}).get("indexed_typed"),
        "traces_validated_against_impl": len(ne_lines) + len(nu_lines) + len(rl) + len(pl) + len(tl) + len(ml_),
        "disagreements_checked": len(mism) + len(ctx.violations), "model_impl_mismatches": len(mism),
        "e2e_cases": len(ecases), "stream_cases": len(scases), "e2e_failures": nfail,
    })
    if mism and not ctx.violations:
        ctx.violation("correspondence broken: extracted C01 model disagrees with the implementation (%d cases) although the round-trip oracle holds" % len(mism),
                      {"first": {"case": mism[0][0], "impl": mism[0][1], "model": mism[0][2]}, "how_to_replay": HOWTO}, no_input=True)
    vlib.finish_broken_obligations(ctx)
