(* prelude: zn nat *)
(* C01 driver: same case lines as harness/src/bin/c01.rs (modes NE, NU, R, P). *)
let unhex s =
  if s = "-" then [] else
  List.init (String.length s / 2) (fun i -> n_of_int (int_of_string ("0x" ^ String.sub s (2 * i) 2)))
let tohex l =
  if l = [] then "-" else String.concat "" (List.map (fun b -> Printf.sprintf "%02x" (int_of_n b)) l)
let sum l =
  let rec go i a = function
    | [] -> a
    | x :: r -> go (i + 1) ((a + (int_of_n x) * ((i mod 251) + 1)) mod 1_000_000_007) r in
  go 0 0 l
let lensum l = Printf.sprintf "%d:%d" (List.length l) (sum l)

(* decimal string -> N (offsets go up to usize::MAX, beyond OCaml's int) *)
let n_of_string str =
  let ten = n_of_int 10 in
  let acc = ref (n_of_int 0) in
  String.iter (fun c -> acc := N.add (N.mul !acc ten) (n_of_int (Char.code c - 48))) str;
  !acc

let names_e t = "ok " ^ tohex (escape (unhex (next t)))
let names_u t =
  let s = unhex (next t) in
  if not (utf8_valid s) then "badutf8" else "ok " ^ tohex (node_name s)

let read_case t =
  let n = ni t in
  let blobs = ntimes n (fun () -> unhex (next t)) in
  let q = ni t in
  let b = Buffer.create 64 in
  Buffer.add_string b "ok";
  for _ = 1 to q do
    let off = n_of_string (next t) in let len = n_of_string (next t) in
    Buffer.add_string b (" " ^ lensum (read_at blobs off len))
  done;
  Buffer.add_string b (" dump=" ^ lensum (dump blobs));
  Buffer.contents b

(* events of the segments: add -> filter -> pack per blob; the pack is saved (and, the file
   writer being joined before anything with the same id follows, written and indexed) as soon
   as its size reaches pack_size; Packer::finalize saves the rest. *)
let pipe_case t =
  let pack_size = ni t in
  let nseg = ni t in
  let typed = indexed_typed in
  let s = ref st0 in
  let ids = ref [] in
  let evs = ref [] in
  let apply e = evs := e :: !evs; s := step typed !s e in
  for _ = 1 to nseg do
    let tp = if ni t = 1 then Tree else Data in
    let n = ni t in
    for _ = 1 to n do
      let id = ni t in
      let d = unhex (next t) in
      if not (List.mem id !ids) then ids := id :: !ids;
      apply (EAdd (tp, n_of_int id, d)); apply (EFilter tp); apply (EPack tp);
      let p = (match tp with Data -> !s.pD | Tree -> !s.pT) in
      let size = List.fold_left (fun a b -> a + List.length b.b_data + 32) 0 p.cur in
      if p.cur <> [] && size >= pack_size then begin apply (EFlush tp); apply (EWrite tp); apply (EIndex tp) end
    done;
    apply (EFlush tp); apply (EWrite tp); apply (EIndex tp)
  done;
  let b = Buffer.create 64 in
  Buffer.add_string b (Printf.sprintf "ok packs=%d" (List.length !s.written));
  List.iter (fun id ->
    List.iter (fun (c, tp) ->
      match get_blob !s tp (n_of_int id) with
      | Some d -> Buffer.add_string b (Printf.sprintf " %c:%d=%s" c id (lensum d))
      | None -> Buffer.add_string b (Printf.sprintf " %c:%d=-" c id)) [('T', Tree); ('D', Data)])
    (List.sort compare !ids);
  (* oracle on the model side: every added blob retrievable (None when hypotheses do not hold) *)
  let a = added (List.rev !evs) in
  Buffer.add_string b (Printf.sprintf " | consistent=%b nocross=%b complete=%b all=%b"
    (consistent_b a) (no_cross_b a) (complete !s) (all_retrievable_b !s a));
  Buffer.contents b

(* ---- path lookup on scripted trees *)
let tree_case t =
  let ntrees = ni t in
  let trees = ntimes ntrees (fun () ->
    let id = ni t in
    let n = ni t in
    let nodes = ntimes n (fun () ->
      let stored = unhex (next t) in
      let sub = ni t in let tag = ni t in
      { n_name = stored; n_subtree = (if sub = 0 then None else Some (n_of_int sub)); n_tag = n_of_int tag }) in
    (id, nodes)) in
  let r id = let i = int_of_n id in (try Some (List.assoc i trees) with Not_found -> None) in
  let root = n_of_int (ni t) in
  let b = Buffer.create 128 in
  Buffer.add_string b "ok ls=";
  let listing = ls (nat_of_int (ntrees + 1)) r root in
  Buffer.add_string b (String.concat "," (List.map (fun (p, n) ->
    String.concat "/" (List.map tohex p) ^ ":" ^ string_of_int (int_of_n n.n_tag)) listing));
  Buffer.add_string b " | q=";
  let nq = ni t in
  let res = ntimes nq (fun () ->
    let nc = ni t in
    let comps = ntimes nc (fun () -> unhex (next t)) in
    match node_from_path lookup_binary_search lookup_compares_stored r root comps with
    | Some n -> string_of_int (int_of_n n.n_tag)
    | None -> "-") in
  Buffer.add_string b (String.concat "," res);
  Buffer.contents b

(* ---- time conversion *)
let time_case t =
  let s = ni t in let n = ni t in
  match capture (z_of_int s, z_of_int n) with
  | None -> "ok cap=none res=-"
  | Some j ->
    let (rs, rn) = restore_time restore_time_direct j in
    Printf.sprintf "ok cap=%d:%d res=%d:%d" (int_of_z (fst j)) (int_of_z (snd j)) (int_of_z rs) (int_of_z rn)

let case line =
  let t = toks line in
  match next t with
  | "NE" -> names_e t
  | "NU" -> names_u t
  | "R" -> read_case t
  | "P" -> pipe_case t
  | "T" -> tree_case t
  | "M" -> time_case t
  | m -> "unknown-mode " ^ m

let () = main_loop case
