(* C01 — packer / indexer pipeline of one run: every blob handed to a packer is retrievable by
   (type, id) once both packers are finalized — for every schedule of filter / pack / flush /
   write / index steps.  With the typed `indexed` set unconditionally; with the untyped set
   only when no id is used under both blob types (and refuted otherwise). *)
From Verif.Base Require Import Tactics.
From Verif.C01 Require Import Model.
Local Open Scope N_scope.

Definition inpipe (p : pk) (b : blob) : Prop :=
  In b (q1 p) \/ In b (q2 p) \/ In b (cur p) \/ In b (concat (wq p)) \/ In b (concat (pend p)).
Definition idx_blobs (s : st) : list blob := concat (idx s).

Definition covered (s : st) (a : blob) : Prop :=
  (exists b, inpipe (get_pk (b_tpe a) s) b /\ b_id b = b_id a)
  \/ (exists b, In b (idx_blobs s) /\ b_tpe b = b_tpe a /\ b_id b = b_id a).

(* hypotheses on the blobs of a run (U = all blobs handed to the packers) *)
Definition Consistent (U : list blob) : Prop :=
  forall a b, In a U -> In b U -> b_id a = b_id b -> b_data a = b_data b.
Definition NoCrossTypeCollision (U : list blob) : Prop :=
  forall a b, In a U -> In b U -> b_id a = b_id b -> b_tpe a = b_tpe b.

Record Inv (typed : bool) (U A : list blob) (s : st) : Prop := {
  i_tpe : forall t b, inpipe (get_pk t s) b -> b_tpe b = t;
  i_sub : forall b, (exists t, inpipe (get_pk t s) b) \/ In b (idx_blobs s) -> In b U;
  i_idx : indexed s = map (fun b => ikey typed (b_tpe b) (b_id b)) (idx_blobs s);
  i_cov : forall a, In a A -> covered s a;
  i_AU : incl A U;
  i_wr : incl (idx s) (written s);
  i_pend : forall t, incl (pend (get_pk t s)) (written s)
}.

Lemma btype_eqb_eq a b : btype_eqb a b = true <-> a = b.
Proof. destruct a, b; cbn; split; intro; congruence. Qed.

Lemma btype_dec (a b : btype) : {a = b} + {a <> b}.
Proof. decide equality. Qed.

Lemma get_set_same t p s : get_pk t (set_pk t p s) = p.
Proof. destruct t; reflexivity. Qed.
Lemma get_set_other t t' p s : t' <> t -> get_pk t' (set_pk t p s) = get_pk t' s.
Proof. destruct t, t'; intro H; try reflexivity; congruence. Qed.
Lemma idx_set t p s : idx (set_pk t p s) = idx s.
Proof. destruct t; reflexivity. Qed.
Lemma indexed_set t p s : indexed (set_pk t p s) = indexed s.
Proof. destruct t; reflexivity. Qed.
Lemma written_set t p s : written (set_pk t p s) = written s.
Proof. destruct t; reflexivity. Qed.

Lemma nopipe0 t b : ~ inpipe (get_pk t st0) b.
Proof. destruct t; unfold inpipe; cbn; tauto. Qed.

Lemma inv0 typed U : Inv typed U [] st0.
Proof.
  constructor.
  - intros t b H. exfalso. eapply nopipe0; eassumption.
  - intros b [[t H]|H]; [exfalso; eapply nopipe0; eassumption | destruct H].
  - reflexivity.
  - intros a H. destruct H.
  - intros a H. destruct H.
  - intros a H. destruct H.
  - intros t a H. destruct t; destruct H.
Qed.

(* why a blob is dropped: its key is in `indexed`, or its id is in the current pack *)
Lemma indexer_has_true typed U A s t id :
  Inv typed U A s -> indexer_has typed s t id = true ->
  exists b', In b' (idx_blobs s) /\ b_id b' = id /\ (typed = true -> b_tpe b' = t).
Proof.
  intros I H. unfold indexer_has in H. apply existsb_exists in H. destruct H as [k [Hk He]].
  rewrite (i_idx _ _ _ _ I) in Hk. apply in_map_iff in Hk. destruct Hk as [b' [Eb Hb]].
  exists b'. subst k. unfold key_eqb, ikey in He. cbn [fst snd] in He.
  apply andb_true_iff in He. destruct He as [E1 E2]. apply N.eqb_eq in E2.
  split; [assumption|]. split; [congruence|].
  intro T. subst typed. apply btype_eqb_eq in E1. congruence.
Qed.

Lemma pack_has_true p id : pack_has p id = true -> exists b', In b' p /\ b_id b' = id.
Proof.
  unfold pack_has. intro H. apply existsb_exists in H. destruct H as [b' [H1 H2]].
  exists b'. split; [assumption | apply N.eqb_eq; assumption].
Qed.

(* A step that only changes packer t's queues (idx, indexed, written unchanged), such that
   nothing new enters and a possibly dropped blob b is re-covered. *)
Lemma inv_local typed U A s t p' :
  Inv typed U A s ->
  (forall b, inpipe p' b -> inpipe (get_pk t s) b) ->
  (forall a, In a A -> b_tpe a = t ->
             (exists b, inpipe (get_pk t s) b /\ b_id b = b_id a) -> covered (set_pk t p' s) a) ->
  incl (pend p') (pend (get_pk t s)) ->
  Inv typed U A (set_pk t p' s).
Proof.
  intros I Hsub Hcov Hpend.
  assert (G : forall t' b, inpipe (get_pk t' (set_pk t p' s)) b -> inpipe (get_pk t' s) b).
  { intros t' b H. destruct (btype_dec t' t) as [->|N].
    - rewrite get_set_same in H. auto.
    - rewrite get_set_other in H by assumption. assumption. }
  constructor.
  - intros t' b H. apply (i_tpe _ _ _ _ I). auto.
  - intros b [[t' H]|H].
    + apply (i_sub _ _ _ _ I). left. exists t'. auto.
    + apply (i_sub _ _ _ _ I). right. unfold idx_blobs in *. rewrite idx_set in H. assumption.
  - rewrite indexed_set. unfold idx_blobs. rewrite idx_set. apply (i_idx _ _ _ _ I).
  - intros a Ha. destruct (i_cov _ _ _ _ I a Ha) as [[b [Hb Hid]]|[b [Hb Hx]]].
    + destruct (btype_dec (b_tpe a) t) as [E|N].
      * apply Hcov; [assumption | assumption|]. exists b. rewrite <- E. auto.
      * left. exists b. rewrite get_set_other by assumption. auto.
    + right. exists b. unfold idx_blobs in *. rewrite idx_set. auto.
  - apply (i_AU _ _ _ _ I).
  - rewrite idx_set, written_set. apply (i_wr _ _ _ _ I).
  - intros t'. rewrite written_set. destruct (btype_dec t' t) as [->|N].
    + rewrite get_set_same. intros x Hx. apply (i_pend _ _ _ _ I t). auto.
    + rewrite get_set_other by assumption. apply (i_pend _ _ _ _ I).
Qed.

Ltac inpipe_solve :=
  unfold inpipe in *; cbn [q1 q2 cur wq pend] in *;
  repeat rewrite in_app_iff in *; repeat rewrite concat_app in *; repeat rewrite in_app_iff in *;
  cbn [concat In] in *; repeat rewrite app_nil_r in *; tauto.

(* dropping the head b of a queue when the filter says "already there" *)
Lemma drop_recovers typed U A s t p' b :
  Inv typed U A s -> (typed = false -> NoCrossTypeCollision U) ->
  inpipe (get_pk t s) b ->
  (indexer_has typed s t (b_id b) || pack_has (cur (get_pk t s)) (b_id b)) = true ->
  cur p' = cur (get_pk t s) ->
  (forall x, inpipe (get_pk t s) x -> x = b \/ inpipe p' x) ->
  forall a, In a A -> b_tpe a = t ->
    (exists w, inpipe (get_pk t s) w /\ b_id w = b_id a) -> covered (set_pk t p' s) a.
Proof.
  intros I NC Hb Hdrop Hcur Hrest a Ha Ht [w [Hw Hid]].
  destruct (Hrest w Hw) as [->|Hin].
  2:{ left. exists w. rewrite Ht, get_set_same. auto. }
  apply orb_true_iff in Hdrop. destruct Hdrop as [H|H].
  - destruct (indexer_has_true _ _ _ _ _ _ I H) as [b' [H1 [H2 H3]]].
    right. exists b'. unfold idx_blobs in *. rewrite idx_set. split; [assumption|].
    split; [|congruence].
    destruct typed eqn:T.
    + rewrite H3 by reflexivity. congruence.
    + apply (NC eq_refl).
      * apply (i_sub _ _ _ _ I). right. assumption.
      * apply (i_AU _ _ _ _ I). assumption.
      * congruence.
  - destruct (pack_has_true _ _ H) as [b' [H1 H2]].
    left. exists b'. rewrite Ht, get_set_same. split; [|congruence].
    unfold inpipe. rewrite Hcur. tauto.
Qed.

Lemma covered_mono_pipe s s' a :
  (forall b, inpipe (get_pk (b_tpe a) s) b -> inpipe (get_pk (b_tpe a) s') b) ->
  (forall b, In b (idx_blobs s) -> In b (idx_blobs s')) ->
  covered s a -> covered s' a.
Proof.
  intros H1 H2 [[b [Hb Hid]]|[b [Hb Hx]]]; [left | right]; exists b; auto.
Qed.

Lemma inpipe_add p nb b :
  inpipe (mkpk (q1 p ++ [nb]) (q2 p) (cur p) (wq p) (pend p)) b <-> inpipe p b \/ b = nb.
Proof.
  unfold inpipe. cbn [q1 q2 cur wq pend]. rewrite in_app_iff. cbn [In].
  split; intro H; intuition (subst; auto).
Qed.

Lemma inpipe_flush p x :
  inpipe (mkpk (q1 p) (q2 p) [] (wq p ++ [cur p]) (pend p)) x <-> inpipe p x.
Proof.
  unfold inpipe. cbn [q1 q2 cur wq pend]. rewrite concat_app, in_app_iff. cbn [concat].
  rewrite app_nil_r. cbn [In]. tauto.
Qed.

Lemma step_inv typed U A s e :
  Inv typed U A s -> (typed = false -> NoCrossTypeCollision U) ->
  incl (added [e]) U ->
  Inv typed U (A ++ added [e]) (step typed s e).
Proof.
  intros I NC HU. destruct e as [t id d|t|t|t|t|t]; cbn [added app step]; try rewrite app_nil_r.
  - (* EAdd *)
    set (nb := mkblob t id d). set (p := get_pk t s).
    set (p' := mkpk (q1 p ++ [nb]) (q2 p) (cur p) (wq p) (pend p)).
    assert (Hold : forall t' b, inpipe (get_pk t' s) b -> inpipe (get_pk t' (set_pk t p' s)) b).
    { intros t' b H. destruct (btype_dec t' t) as [->|N].
      - rewrite get_set_same. fold p in H. subst p'. apply inpipe_add. left. assumption.
      - rewrite get_set_other by assumption. assumption. }
    assert (HnbU : In nb U) by (apply HU; left; reflexivity).
    constructor.
    + intros t' b H. destruct (btype_dec t' t) as [->|N].
      * rewrite get_set_same in H.
        assert (inpipe p b \/ b = nb) as [H'| -> ] by (subst p'; apply inpipe_add; assumption).
        -- apply (i_tpe _ _ _ _ I). assumption.
        -- reflexivity.
      * rewrite get_set_other in H by assumption. apply (i_tpe _ _ _ _ I). assumption.
    + intros b [[t' H]|H].
      * destruct (btype_dec t' t) as [->|N].
        -- rewrite get_set_same in H.
           assert (inpipe p b \/ b = nb) as [H'| -> ] by (subst p'; apply inpipe_add; assumption).
           ++ apply (i_sub _ _ _ _ I). left. exists t. assumption.
           ++ assumption.
        -- rewrite get_set_other in H by assumption. apply (i_sub _ _ _ _ I). left. exists t'. assumption.
      * unfold idx_blobs in H. rewrite idx_set in H. apply (i_sub _ _ _ _ I). right. assumption.
    + rewrite indexed_set. unfold idx_blobs. rewrite idx_set. apply (i_idx _ _ _ _ I).
    + intros a Ha. apply in_app_iff in Ha. destruct Ha as [Ha|[ <- |[]]].
      * eapply covered_mono_pipe; [| |apply (i_cov _ _ _ _ I a Ha)].
        -- intros b. apply Hold.
        -- unfold idx_blobs. rewrite idx_set. auto.
      * left. exists nb. cbn [b_tpe nb]. rewrite get_set_same. split; [|reflexivity].
        subst p'. apply inpipe_add. right. reflexivity.
    + intros a Ha. apply in_app_iff in Ha. destruct Ha as [Ha|[ <- |[]]]; [apply (i_AU _ _ _ _ I a Ha) | assumption].
    + rewrite idx_set, written_set. apply (i_wr _ _ _ _ I).
    + intros t'. rewrite written_set. destruct (btype_dec t' t) as [->|N].
      * rewrite get_set_same. apply (i_pend _ _ _ _ I t).
      * rewrite get_set_other by assumption. apply (i_pend _ _ _ _ I).
  - (* EFilter *)
    set (p := get_pk t s). destruct (q1 p) as [|b r] eqn:Q; [assumption|].
    assert (Hb : inpipe (get_pk t s) b) by (fold p; unfold inpipe; rewrite Q; cbn; tauto).
    destruct (indexer_has typed s t (b_id b) || pack_has (cur p) (b_id b)) eqn:D.
    + apply inv_local; [assumption | | | cbn; apply incl_refl].
      * intros x H. fold p. unfold inpipe in *. rewrite Q. cbn [q1 q2 cur wq pend In] in *. tauto.
      * apply (drop_recovers typed U A s t _ b); try assumption; [reflexivity|].
        intros x H. fold p in H. unfold inpipe in *. rewrite Q in H. cbn [q1 q2 cur wq pend In] in *.
        destruct H as [[->|H]|H]; [left; reflexivity | right; tauto | right; tauto].
    + apply inv_local; [assumption | | | cbn; apply incl_refl].
      * intros x H. fold p. unfold inpipe in *. rewrite Q. cbn [q1 q2 cur wq pend] in *.
        rewrite in_app_iff in H. cbn [In] in *. tauto.
      * intros a Ha Ht [w [Hw Hid]]. left. exists w. rewrite Ht, get_set_same. split; [|assumption].
        fold p in Hw. unfold inpipe in *. rewrite Q in Hw. cbn [q1 q2 cur wq pend] in *.
        rewrite in_app_iff. cbn [In] in *. tauto.
  - (* EPack *)
    set (p := get_pk t s). destruct (q2 p) as [|b r] eqn:Q; [assumption|].
    assert (Hb : inpipe (get_pk t s) b) by (fold p; unfold inpipe; rewrite Q; cbn; tauto).
    destruct (indexer_has typed s t (b_id b) || pack_has (cur p) (b_id b)) eqn:D.
    + apply inv_local; [assumption | | | cbn; apply incl_refl].
      * intros x H. fold p. unfold inpipe in *. rewrite Q. cbn [q1 q2 cur wq pend In] in *. tauto.
      * apply (drop_recovers typed U A s t _ b); try assumption; [reflexivity|].
        intros x H. fold p in H. unfold inpipe in *. rewrite Q in H. cbn [q1 q2 cur wq pend In] in *.
        destruct H as [H|[[->|H]|H]]; [right; tauto | left; reflexivity | right; tauto | right; tauto].
    + apply inv_local; [assumption | | | cbn; apply incl_refl].
      * intros x H. fold p. unfold inpipe in *. rewrite Q. cbn [q1 q2 cur wq pend] in *.
        rewrite in_app_iff in H. cbn [In] in *. tauto.
      * intros a Ha Ht [w [Hw Hid]]. left. exists w. rewrite Ht, get_set_same. split; [|assumption].
        fold p in Hw. unfold inpipe in *. rewrite Q in Hw. cbn [q1 q2 cur wq pend] in *.
        rewrite in_app_iff. cbn [In] in *. tauto.
  - (* EFlush *)
    set (p := get_pk t s).
    assert (G : Inv typed U A (set_pk t (mkpk (q1 p) (q2 p) [] (wq p ++ [cur p]) (pend p)) s)).
    { apply inv_local; [assumption | | | cbn; apply incl_refl].
      + intros x H. fold p. apply inpipe_flush. assumption.
      + intros a Ha Ht [w [Hw Hid]]. left. exists w. rewrite Ht, get_set_same. split; [|assumption].
        apply inpipe_flush. assumption. }
    destruct (cur p) as [|b r] eqn:Q; [assumption | exact G].
  - (* EWrite *)
    set (p := get_pk t s). destruct (wq p) as [|pkf r] eqn:Q; [assumption|].
    set (p' := mkpk (q1 p) (q2 p) (cur p) r (pend p ++ [pkf])).
    assert (Hsame : forall x, inpipe p' x <-> inpipe p x).
    { intro x. unfold inpipe. rewrite Q. subst p'. cbn [q1 q2 cur wq pend].
      rewrite concat_app, in_app_iff. cbn [concat]. rewrite app_nil_r, in_app_iff. tauto. }
    constructor.
    + intros t' b H. cbn [get_pk pD pT] in H.
      assert (H' : inpipe (get_pk t' (set_pk t p' s)) b) by (destruct t'; exact H).
      destruct (btype_dec t' t) as [->|N].
      * rewrite get_set_same in H'. apply (i_tpe _ _ _ _ I). apply Hsame. assumption.
      * rewrite get_set_other in H' by assumption. apply (i_tpe _ _ _ _ I). assumption.
    + intros b [[t' H]|H].
      * assert (H' : inpipe (get_pk t' (set_pk t p' s)) b) by (destruct t'; exact H).
        apply (i_sub _ _ _ _ I). left. exists t'.
        destruct (btype_dec t' t) as [->|N].
        -- rewrite get_set_same in H'. apply Hsame. assumption.
        -- rewrite get_set_other in H' by assumption. assumption.
      * apply (i_sub _ _ _ _ I). right. exact H.
    + cbn [indexed idx_blobs idx]. apply (i_idx _ _ _ _ I).
    + intros a Ha. eapply covered_mono_pipe; [| |apply (i_cov _ _ _ _ I a Ha)].
      * intros b H.
        assert (G : inpipe (get_pk (b_tpe a) (set_pk t p' s)) b).
        { destruct (btype_dec (b_tpe a) t) as [E|N].
          - rewrite E in *. rewrite get_set_same. apply Hsame. exact H.
          - rewrite get_set_other by assumption. assumption. }
        destruct (b_tpe a); exact G.
      * auto.
    + apply (i_AU _ _ _ _ I).
    + cbn [idx written]. intros x Hx. apply in_app_iff. left. apply (i_wr _ _ _ _ I). assumption.
    + intros t' x Hx. cbn [written]. apply in_app_iff.
      assert (Hx' : In x (pend (get_pk t' (set_pk t p' s)))) by (destruct t'; exact Hx).
      destruct (btype_dec t' t) as [->|N].
      * rewrite get_set_same in Hx'. subst p'. cbn [pend] in Hx'. apply in_app_iff in Hx'.
        destruct Hx' as [Hx'|[ <- |[]]]; [left; apply (i_pend _ _ _ _ I t); assumption | right; left; reflexivity].
      * rewrite get_set_other in Hx' by assumption. left. apply (i_pend _ _ _ _ I t'). assumption.
  - (* EIndex *)
    set (p := get_pk t s). destruct (pend p) as [|pkf r] eqn:Q; [assumption|].
    set (p' := mkpk (q1 p) (q2 p) (cur p) (wq p) r).
    assert (Hsplit : forall x, inpipe p x <-> inpipe p' x \/ In x pkf).
    { intro x. unfold inpipe. rewrite Q. subst p'. cbn [q1 q2 cur wq pend concat].
      rewrite in_app_iff. tauto. }
    assert (Hidx : forall x, In x (concat (idx s ++ [pkf])) <-> In x (idx_blobs s) \/ In x pkf).
    { intro x. rewrite concat_app, in_app_iff. cbn [concat]. rewrite app_nil_r. reflexivity. }
    constructor.
    + intros t' b H.
      assert (H' : inpipe (get_pk t' (set_pk t p' s)) b) by (destruct t'; exact H).
      destruct (btype_dec t' t) as [->|N].
      * rewrite get_set_same in H'. apply (i_tpe _ _ _ _ I). apply Hsplit. left. assumption.
      * rewrite get_set_other in H' by assumption. apply (i_tpe _ _ _ _ I). assumption.
    + intros b [[t' H]|H].
      * assert (H' : inpipe (get_pk t' (set_pk t p' s)) b) by (destruct t'; exact H).
        apply (i_sub _ _ _ _ I). left. exists t'.
        destruct (btype_dec t' t) as [->|N].
        -- rewrite get_set_same in H'. apply Hsplit. left. assumption.
        -- rewrite get_set_other in H' by assumption. assumption.
      * unfold idx_blobs in H. cbn [idx] in H. apply Hidx in H. destruct H as [H|H].
        -- apply (i_sub _ _ _ _ I). right. assumption.
        -- apply (i_sub _ _ _ _ I). left. exists t. apply Hsplit. right. assumption.
    + cbn [indexed]. unfold idx_blobs. cbn [idx]. rewrite concat_app, map_app. cbn [concat].
      rewrite app_nil_r. f_equal. apply (i_idx _ _ _ _ I).
    + intros a Ha. destruct (i_cov _ _ _ _ I a Ha) as [[b [Hb Hid]]|[b [Hb Hx]]].
      * destruct (btype_dec (b_tpe a) t) as [E|N].
        -- rewrite E in Hb. apply Hsplit in Hb. destruct Hb as [Hb|Hb].
           ++ left. exists b. split; [|assumption].
              assert (G : inpipe (get_pk (b_tpe a) (set_pk t p' s)) b) by (rewrite E, get_set_same; assumption).
              destruct (b_tpe a); exact G.
           ++ right. exists b. unfold idx_blobs. cbn [idx]. split; [apply Hidx; right; assumption|].
              split; [|assumption]. rewrite E. apply (i_tpe _ _ _ _ I). apply Hsplit. right. assumption.
        -- left. exists b. split; [|assumption].
           assert (G : inpipe (get_pk (b_tpe a) (set_pk t p' s)) b) by (rewrite get_set_other by assumption; assumption).
           destruct (b_tpe a); exact G.
      * right. exists b. unfold idx_blobs. cbn [idx]. split; [apply Hidx; left; assumption | assumption].
    + apply (i_AU _ _ _ _ I).
    + cbn [idx written]. intros x Hx. apply in_app_iff in Hx. destruct Hx as [Hx|[ <- |[]]].
      * apply (i_wr _ _ _ _ I). assumption.
      * apply (i_pend _ _ _ _ I t). fold p. rewrite Q. left. reflexivity.
    + intros t' x Hx. cbn [written].
      assert (Hx' : In x (pend (get_pk t' (set_pk t p' s)))) by (destruct t'; exact Hx).
      destruct (btype_dec t' t) as [->|N].
      * rewrite get_set_same in Hx'. subst p'. cbn [pend] in Hx'.
        apply (i_pend _ _ _ _ I t). fold p. rewrite Q. right. assumption.
      * rewrite get_set_other in Hx' by assumption. apply (i_pend _ _ _ _ I t'). assumption.
Qed.

Lemma added_app l1 l2 : added (l1 ++ l2) = added l1 ++ added l2.
Proof.
  induction l1 as [|e r IH]; [reflexivity|]. destruct e; cbn [app added]; rewrite IH; reflexivity.
Qed.

Lemma run_inv_gen typed U : (typed = false -> NoCrossTypeCollision U) ->
  forall evs s A, Inv typed U A s -> incl (added evs) U ->
  Inv typed U (A ++ added evs) (fold_left (step typed) evs s).
Proof.
  intros NC. induction evs as [|e r IH]; intros s A I HU.
  - cbn. rewrite app_nil_r. assumption.
  - cbn [fold_left]. change (e :: r) with ([e] ++ r) in *. rewrite added_app in *.
    rewrite app_assoc. apply IH.
    + apply step_inv; [assumption | assumption|]. intros x Hx. apply HU. apply in_app_iff. left. assumption.
    + intros x Hx. apply HU. apply in_app_iff. right. assumption.
Qed.

Lemma run_inv typed evs :
  (typed = false -> NoCrossTypeCollision (added evs)) ->
  Inv typed (added evs) (added evs) (run typed evs).
Proof.
  intro NC. unfold run.
  apply (run_inv_gen typed (added evs) NC evs st0 [] (inv0 typed (added evs))). apply incl_refl.
Qed.

Lemma pk_empty_nopipe p b : pk_empty p = true -> ~ inpipe p b.
Proof.
  unfold pk_empty, inpipe. destruct (q1 p), (q2 p), (cur p), (wq p), (pend p); try discriminate.
  cbn. tauto.
Qed.

Lemma find_blob_is s t id b :
  find (blob_is t id) (idx_blobs s) = Some b -> In b (idx_blobs s) /\ b_tpe b = t /\ b_id b = id.
Proof.
  intro H. apply find_some in H. destruct H as [H1 H2]. unfold blob_is in H2.
  apply andb_true_iff in H2. destruct H2 as [H2 H3]. apply btype_eqb_eq in H2. apply N.eqb_eq in H3. auto.
Qed.

Lemma roundtrip_general typed evs :
  (typed = false -> NoCrossTypeCollision (added evs)) ->
  Consistent (added evs) ->
  complete (run typed evs) = true ->
  forall t id d, In (EAdd t id d) evs -> get_blob (run typed evs) t id = Some d.
Proof.
  intros NC HC Hcomp t id d Hin.
  pose proof (run_inv typed evs NC) as I. set (s := run typed evs) in *.
  assert (Ha : In (mkblob t id d) (added evs)).
  { clear -Hin. induction evs as [|e r IH]; [contradiction|].
    destruct Hin as [->|H]; [left; reflexivity|]. destruct e; cbn [added]; try (right; auto); auto. }
  unfold complete in Hcomp. apply andb_true_iff in Hcomp. destruct Hcomp as [CD CT].
  destruct (i_cov _ _ _ _ I _ Ha) as [[b [Hb _]]|[b [Hb [Ht Hid]]]].
  - exfalso. cbn [b_tpe] in Hb. destruct t; cbn [get_pk] in Hb;
      [exact (pk_empty_nopipe _ _ CT Hb) | exact (pk_empty_nopipe _ _ CD Hb)].
  - cbn [b_tpe b_id] in *. unfold get_blob. fold (idx_blobs s).
    destruct (find (blob_is t id) (idx_blobs s)) as [b'|] eqn:F.
    + apply find_blob_is in F. destruct F as [F1 [F2 F3]].
      f_equal. change d with (b_data (mkblob t id d)).
      apply HC; [apply (i_sub _ _ _ _ I); right; assumption | assumption | assumption].
    + exfalso. eapply find_none in F; [|exact Hb]. unfold blob_is in F.
      rewrite Ht, Hid in F. destruct t; rewrite N.eqb_refl in F; discriminate.
Qed.

(* every indexed pack has been written before (index only after the pack write) — for every
   schedule, with or without collisions *)
Lemma wr_inv typed : forall evs s,
  (incl (idx s) (written s) /\ forall t, incl (pend (get_pk t s)) (written s)) ->
  let s' := fold_left (step typed) evs s in
  incl (idx s') (written s') /\ forall t, incl (pend (get_pk t s')) (written s').
Proof.
  induction evs as [|e r IH]; intros s H; [exact H|].
  cbn [fold_left]. apply IH. destruct H as [H1 H2].
  destruct e as [t id d|t|t|t|t|t]; cbn [step].
  - split; [rewrite idx_set, written_set; assumption|].
    intro t'. rewrite written_set. destruct (btype_dec t' t) as [->|N];
      [rewrite get_set_same; apply H2 | rewrite get_set_other by assumption; apply H2].
  - destruct (q1 (get_pk t s)); [auto|]. destruct (_ || _);
    (split; [rewrite idx_set, written_set; assumption|];
     intro t'; rewrite written_set; destruct (btype_dec t' t) as [->|N];
      [rewrite get_set_same; apply H2 | rewrite get_set_other by assumption; apply H2]).
  - destruct (q2 (get_pk t s)); [auto|]. destruct (_ || _);
    (split; [rewrite idx_set, written_set; assumption|];
     intro t'; rewrite written_set; destruct (btype_dec t' t) as [->|N];
      [rewrite get_set_same; apply H2 | rewrite get_set_other by assumption; apply H2]).
  - destruct (cur (get_pk t s)); [auto|].
    split; [rewrite idx_set, written_set; assumption|].
    intro t'. rewrite written_set. destruct (btype_dec t' t) as [->|N];
      [rewrite get_set_same; apply H2 | rewrite get_set_other by assumption; apply H2].
  - destruct (wq (get_pk t s)) as [|pkf q] eqn:Q; [auto|]. cbn [idx written].
    split; [intros x Hx; apply in_app_iff; left; auto|].
    intros t' x Hx. apply in_app_iff.
    match type of Hx with In _ (pend (get_pk _ ?S)) =>
      assert (Hx' : In x (pend (get_pk t' (set_pk t (mkpk (q1 (get_pk t s)) (q2 (get_pk t s)) (cur (get_pk t s)) q (pend (get_pk t s) ++ [pkf])) s))))
        by (destruct t'; exact Hx) end.
    destruct (btype_dec t' t) as [->|N].
    + rewrite get_set_same in Hx'. cbn [pend] in Hx'. apply in_app_iff in Hx'.
      destruct Hx' as [Hx'|[ <- |[]]]; [left; apply (H2 t); assumption | right; left; reflexivity].
    + rewrite get_set_other in Hx' by assumption. left. apply (H2 t'). assumption.
  - destruct (pend (get_pk t s)) as [|pkf q] eqn:Q; [auto|]. cbn [idx written].
    split.
    + intros x Hx. apply in_app_iff in Hx. destruct Hx as [Hx|[ <- |[]]]; [auto|].
      apply (H2 t). rewrite Q. left. reflexivity.
    + intros t' x Hx.
      assert (Hx' : In x (pend (get_pk t' (set_pk t (mkpk (q1 (get_pk t s)) (q2 (get_pk t s)) (cur (get_pk t s)) (wq (get_pk t s)) q) s))))
        by (destruct t'; exact Hx).
      destruct (btype_dec t' t) as [->|N].
      * rewrite get_set_same in Hx'. cbn [pend] in Hx'. apply (H2 t). rewrite Q. right. assumption.
      * rewrite get_set_other in Hx' by assumption. apply (H2 t'). assumption.
Qed.

Lemma indexed_packs_written_lemma typed evs : incl (idx (run typed evs)) (written (run typed evs)).
Proof.
  unfold run. apply (wr_inv typed evs st0). split; [intros x []|].
  intros t x H. destruct t; destruct H.
Qed.
