(* C01 — node-name codec: unescape_filename (escape_filename n) = n for every byte string. *)
From Verif.Base Require Import Tactics.
From Verif.C01 Require Import Model.
Local Open Scope N_scope.

(* ---- one-step equations of the unescape loop (all by computation) *)
Lemma ug_nil : unescape_go [] = Some [].
Proof. reflexivity. Qed.

Lemma ug_plain c r : c <> 92 -> unescape_go (c :: r) = ocons c (unescape_go r).
Proof.
  intro H. cbn [unescape_go]. destruct (c =? 92) eqn:E; [apply N.eqb_eq in E; contradiction | reflexivity].
Qed.

Lemma ug_bs e r1 :
  unescape_go (92 :: e :: r1) =
  match simple_escape e with
  | Some b => ocons b (unescape_go r1)
  | None =>
    if e =? 120 then
      match r1 with
      | h1 :: h2 :: r2 =>
        match from_str_radix16 [h1; h2] with
        | Some v => ocons v (unescape_go r2)
        | None => None
        end
      | _ => None
      end
    else if e =? 117 then
      match r1 with
      | h1 :: h2 :: h3 :: h4 :: r2 => unicode_escape [h1; h2; h3; h4] (unescape_go r2)
      | _ => None
      end
    else if e =? 85 then
      match r1 with
      | h1 :: h2 :: h3 :: h4 :: h5 :: h6 :: h7 :: h8 :: r2 =>
        unicode_escape [h1; h2; h3; h4; h5; h6; h7; h8] (unescape_go r2)
      | _ => None
      end
    else None
  end.
Proof. reflexivity. Qed.

Lemma ug_simple e b r : simple_escape e = Some b -> unescape_go (92 :: e :: r) = ocons b (unescape_go r).
Proof. intro H. rewrite ug_bs, H. reflexivity. Qed.

Lemma ug_hex h1 h2 r :
  unescape_go (92 :: 120 :: h1 :: h2 :: r) =
  match from_str_radix16 [h1; h2] with Some v => ocons v (unescape_go r) | None => None end.
Proof. reflexivity. Qed.

(* ---- the hex escape of every byte parses back (exhaustive over 256 values) *)
Definition hex_ok (b : N) : bool :=
  match from_str_radix16 [hexdigit (b / 16); hexdigit (b mod 16)] with
  | Some v => v =? b
  | None => false
  end.
Lemma hex_ok_all : forallb hex_ok (map N.of_nat (seq 0 256)) = true.
Proof. vm_compute. reflexivity. Qed.

Lemma in_range256 b : b < 256 -> In b (map N.of_nat (seq 0 256)).
Proof.
  intro H. apply in_map_iff. exists (N.to_nat b). split; [apply N2Nat.id|].
  apply in_seq. lia.
Qed.

Lemma hex_parses b : b < 256 -> from_str_radix16 [hexdigit (b / 16); hexdigit (b mod 16)] = Some b.
Proof.
  intro H. pose proof hex_ok_all as A. rewrite forallb_forall in A.
  specialize (A b (in_range256 b H)). unfold hex_ok in A.
  destruct (from_str_radix16 _) as [v|]; [|discriminate].
  apply N.eqb_eq in A. subst. reflexivity.
Qed.

Lemma ug_hex_tok b t : b < 256 -> unescape_go (hex b ++ t) = ocons b (unescape_go t).
Proof.
  intro H. unfold hex. cbn [app]. rewrite ug_hex, hex_parses by assumption. reflexivity.
Qed.

Lemma ocons_oapp b p o : ocons b (oapp p o) = oapp (b :: p) o.
Proof. destruct o; reflexivity. Qed.
Lemma oapp_nil o : oapp [] o = o.
Proof. destruct o; reflexivity. Qed.

Lemma ug_hexs s t : bytes_ok s -> unescape_go (hexs s ++ t) = oapp s (unescape_go t).
Proof.
  induction 1 as [|b s Hb Hs IH]; cbn [hexs flat_map].
  - cbn [app]. symmetry. apply oapp_nil.
  - fold (hexs s). rewrite <- app_assoc, ug_hex_tok by assumption. rewrite IH. apply ocons_oapp.
Qed.

Lemma ug_hexs_end s : bytes_ok s -> unescape_go (hexs s) = Some s.
Proof.
  intro H. rewrite <- (app_nil_r (hexs s)), ug_hexs by assumption.
  rewrite ug_nil. cbn [oapp]. rewrite app_nil_r. reflexivity.
Qed.

(* ---- the ASCII token *)
Lemma ug_ascii b t : b < 128 -> unescape_go (esc_ascii b ++ t) = ocons b (unescape_go t).
Proof.
  intro H. unfold esc_ascii.
  repeat match goal with
  | |- context [if ?x =? ?k then _ else _] =>
      let E := fresh "E" in
      destruct (x =? k) eqn:E;
      [ apply N.eqb_eq in E; subst; cbn [app]; apply ug_simple; reflexivity | apply N.eqb_neq in E ]
  end.
  cbn [app]. apply ug_plain. assumption.
Qed.

(* ---- facts about the UTF-8 automaton used below *)
Lemma width1_ascii b : char_width b =? 1 = true -> b < 128.
Proof.
  unfold char_width. repeat destr_if; intro H; try lia; discriminate.
Qed.
Lemma width_not1_high b : char_width b =? 1 = false -> 128 <= b.
Proof.
  unfold char_width. destruct (b <? 128) eqn:E; intro H; [discriminate | lia].
Qed.
Lemma cont_high b : is_cont b = true -> 128 <= b.
Proof. unfold is_cont. lia. Qed.
Lemma ok3_high a b : ok3 a b = true -> 128 <= b.
Proof. unfold ok3. lia. Qed.
Lemma ok4_high a b : ok4 a b = true -> 128 <= b.
Proof. unfold ok4. lia. Qed.

Lemma ug_high b t : 128 <= b -> unescape_go (b :: t) = ocons b (unescape_go t).
Proof. intro H. apply ug_plain. lia. Qed.

Lemma escape_cons b0 r0 :
  escape (b0 :: r0) =
    let s := b0 :: r0 in
    let w := char_width b0 in
    if w =? 1 then esc_ascii b0 ++ escape r0
    else if w =? 2 then
      match r0 with
      | [] => hexs s
      | b1 :: r1 => if is_cont b1 then b0 :: b1 :: escape r1 else hex b0 ++ escape r0
      end
    else if w =? 3 then
      match r0 with
      | [] => hexs s
      | b1 :: r1 =>
        if ok3 b0 b1 then
          match r1 with
          | [] => hexs s
          | b2 :: r2 => if is_cont b2 then b0 :: b1 :: b2 :: escape r2
                        else hex b0 ++ hex b1 ++ escape r1
          end
        else hex b0 ++ escape r0
      end
    else if w =? 4 then
      match r0 with
      | [] => hexs s
      | b1 :: r1 =>
        if ok4 b0 b1 then
          match r1 with
          | [] => hexs s
          | b2 :: r2 =>
            if is_cont b2 then
              match r2 with
              | [] => hexs s
              | b3 :: r3 => if is_cont b3 then b0 :: b1 :: b2 :: b3 :: escape r3
                            else hex b0 ++ hex b1 ++ hex b2 ++ escape r2
              end
            else hex b0 ++ hex b1 ++ escape r1
          end
        else hex b0 ++ escape r0
      end
    else hex b0 ++ escape r0.
Proof. reflexivity. Qed.

Ltac ok_inv :=
  repeat match goal with
  | H : bytes_ok (_ :: _) |- _ => apply Forall_cons_iff in H; destruct H
  | H : Forall _ (_ :: _) |- _ => apply Forall_cons_iff in H; destruct H
  end.

Lemma unescape_go_escape_n : forall n s, (length s <= n)%nat -> bytes_ok s -> unescape_go (escape s) = Some s.
Proof.
  induction n as [|n IH]; intros s Hl Hok.
  - destruct s; [reflexivity | cbn in Hl; lia].
  - destruct s as [|b0 r0]; [reflexivity|].
    assert (Hall : bytes_ok (b0 :: r0)) by exact Hok.
    rewrite escape_cons. cbv zeta.
    cbn [length] in Hl.
    (* a tactic closing one branch: peel tokens, finish with the induction hypothesis *)
    Ltac finish IH :=
      repeat first
        [ rewrite <- app_assoc
        | rewrite ug_hex_tok by assumption
        | rewrite ug_high by (first [assumption | eauto using cont_high, ok3_high, ok4_high, width_not1_high]) ];
      first [ rewrite IH by (first [cbn [length] in *; lia | assumption
                                    | repeat (apply Forall_cons; [assumption|]); assumption]); reflexivity
            | rewrite ug_hexs_end by (first [assumption | repeat (apply Forall_cons; [assumption|]); first [assumption | apply Forall_nil]]); reflexivity ].
    destruct (char_width b0 =? 1) eqn:W1.
    { ok_inv. rewrite ug_ascii by (apply width1_ascii; assumption).
      rewrite IH by (first [lia | assumption]). reflexivity. }
    pose proof (width_not1_high _ W1) as Hb0.
    destruct (char_width b0 =? 2) eqn:W2.
    { destruct r0 as [|b1 r1]; [finish IH|].
      ok_inv. destruct (is_cont b1) eqn:C1; finish IH. }
    destruct (char_width b0 =? 3) eqn:W3.
    { destruct r0 as [|b1 r1]; [finish IH|].
      ok_inv. destruct (ok3 b0 b1) eqn:O; [|finish IH].
      destruct r1 as [|b2 r2]; [finish IH|].
      ok_inv. destruct (is_cont b2) eqn:C2; finish IH. }
    destruct (char_width b0 =? 4) eqn:W4.
    { destruct r0 as [|b1 r1]; [finish IH|].
      ok_inv. destruct (ok4 b0 b1) eqn:O; [|finish IH].
      destruct r1 as [|b2 r2]; [finish IH|].
      ok_inv. destruct (is_cont b2) eqn:C2; [|finish IH].
      destruct r2 as [|b3 r3]; [finish IH|].
      ok_inv. destruct (is_cont b3) eqn:C3; finish IH. }
    ok_inv. finish IH.
Qed.

Lemma unescape_go_escape s : bytes_ok s -> unescape_go (escape s) = Some s.
Proof. apply (unescape_go_escape_n (length s)). lia. Qed.

(* the fast path `!s.contains('\\')` agrees with the loop *)
Lemma ug_no_backslash s : existsb (N.eqb 92) s = false -> unescape_go s = Some s.
Proof.
  induction s as [|c r IH]; [reflexivity|].
  cbn [existsb]. intro H. apply orb_false_iff in H. destruct H as [Hc Hr].
  rewrite ug_plain by (apply N.eqb_neq; rewrite N.eqb_sym; assumption).
  rewrite IH by assumption. reflexivity.
Qed.

Lemma unescape_is_go s : unescape s = unescape_go s.
Proof.
  unfold unescape. destruct (existsb (N.eqb 92) s) eqn:E; [reflexivity|].
  symmetry. apply ug_no_backslash. assumption.
Qed.

Lemma unescape_escape_lemma : forall s, bytes_ok s -> unescape (escape s) = Some s.
Proof. intros. rewrite unescape_is_go. apply unescape_go_escape. assumption. Qed.

Lemma node_name_roundtrip_lemma : forall s, bytes_ok s -> node_name (escape s) = s.
Proof. intros s H. unfold node_name. rewrite unescape_escape_lemma by assumption. reflexivity. Qed.

Lemma escape_injective_lemma : forall a b, bytes_ok a -> bytes_ok b -> escape a = escape b -> a = b.
Proof.
  intros a b Ha Hb E.
  pose proof (unescape_escape_lemma a Ha) as A. pose proof (unescape_escape_lemma b Hb) as B.
  rewrite E in A. congruence.
Qed.

(* ---- escape_filename yields valid UTF-8 (so the `String` it builds is one) *)
Lemma uv_ascii_tok b t : b < 128 -> utf8_valid (esc_ascii b ++ t) = utf8_valid t.
Proof.
  intro H. unfold esc_ascii.
  repeat match goal with
  | |- context [if ?x =? ?k then _ else _] =>
      let E := fresh "E" in destruct (x =? k) eqn:E; [ reflexivity | ]
  end.
  cbn [app utf8_valid]. unfold char_width.
  destruct (b <? 128) eqn:E128; [reflexivity | lia].
Qed.

Lemma hexdigit_ascii d : d < 16 -> hexdigit d < 128.
Proof. unfold hexdigit. destr_if; lia. Qed.

Lemma uv_ascii1 b t : b < 128 -> utf8_valid (b :: t) = utf8_valid t.
Proof.
  intro H. cbn [utf8_valid]. unfold char_width. destruct (b <? 128) eqn:E; [reflexivity | lia].
Qed.

Lemma uv_hex_tok b t : b < 256 -> utf8_valid (hex b ++ t) = utf8_valid t.
Proof.
  intro H. unfold hex. cbn [app].
  rewrite !uv_ascii1; try reflexivity; try lia; apply hexdigit_ascii; lia.
Qed.

Lemma uv_hexs s t : bytes_ok s -> utf8_valid (hexs s ++ t) = utf8_valid t.
Proof.
  induction 1 as [|b s Hb Hs IH]; [reflexivity|].
  cbn [hexs flat_map]. fold (hexs s). rewrite <- app_assoc, uv_hex_tok by assumption. exact IH.
Qed.

Lemma escape_valid_n : forall n s, (length s <= n)%nat -> bytes_ok s -> utf8_valid (escape s) = true.
Proof.
  induction n as [|n IH]; intros s Hl Hok.
  - destruct s; [reflexivity | cbn in Hl; lia].
  - destruct s as [|b0 r0]; [reflexivity|].
    assert (Hall : bytes_ok (b0 :: r0)) by exact Hok.
    rewrite escape_cons. cbv zeta. cbn [length] in Hl.
    Ltac vfin IH :=
      repeat first
        [ rewrite <- app_assoc
        | rewrite uv_hex_tok by assumption ];
      first [ apply IH; first [cbn [length] in *; lia | assumption
                               | repeat (apply Forall_cons; [assumption|]); assumption]
            | rewrite <- (app_nil_r (hexs _)); rewrite uv_hexs by (first [assumption | repeat (apply Forall_cons; [assumption|]); first [assumption | apply Forall_nil]]); reflexivity ].
    destruct (char_width b0 =? 1) eqn:W1.
    { ok_inv. rewrite uv_ascii_tok by (apply width1_ascii; assumption). apply IH; [lia | assumption]. }
    destruct (char_width b0 =? 2) eqn:W2.
    { destruct r0 as [|b1 r1]; [vfin IH|].
      ok_inv. destruct (is_cont b1) eqn:C1; [|vfin IH].
      cbn [utf8_valid]. rewrite W1, W2, C1. cbn [andb]. apply IH; [cbn [length] in *; lia | assumption]. }
    destruct (char_width b0 =? 3) eqn:W3.
    { destruct r0 as [|b1 r1]; [vfin IH|].
      ok_inv. destruct (ok3 b0 b1) eqn:O; [|vfin IH].
      destruct r1 as [|b2 r2]; [vfin IH|].
      ok_inv. destruct (is_cont b2) eqn:C2; [|vfin IH].
      cbn [utf8_valid]. rewrite W1, W2, W3, O, C2. cbn [andb]. apply IH; [cbn [length] in *; lia | assumption]. }
    destruct (char_width b0 =? 4) eqn:W4.
    { destruct r0 as [|b1 r1]; [vfin IH|].
      ok_inv. destruct (ok4 b0 b1) eqn:O; [|vfin IH].
      destruct r1 as [|b2 r2]; [vfin IH|].
      ok_inv. destruct (is_cont b2) eqn:C2; [|vfin IH].
      destruct r2 as [|b3 r3]; [vfin IH|].
      ok_inv. destruct (is_cont b3) eqn:C3; [|vfin IH].
      cbn [utf8_valid]. rewrite W1, W2, W3, W4, O, C2, C3. cbn [andb]. apply IH; [cbn [length] in *; lia | assumption]. }
    ok_inv. vfin IH.
Qed.

Lemma escape_valid_utf8_lemma : forall s, bytes_ok s -> utf8_valid (escape s) = true.
Proof. intros s. apply (escape_valid_n (length s)). lia. Qed.
