(* C01 — ranged reads: OpenFile::read_at returns exactly the requested slice of the
   concatenated blobs; dump writes the concatenation. *)
From Verif.Base Require Import Tactics.
From Verif.C01 Require Import Model.
Local Open Scope N_scope.

(* ------------------------------------------------------------ binary search *)

Section BSearch.
  Variable p : nat -> bool.
  Variable len k : nat.
  Hypothesis k_le : (k <= len)%nat.
  Hypothesis thr : forall i, (i < len)%nat -> (p i = true <-> (i < k)%nat).

  Lemma bs_loop_spec : forall fuel base size,
    (size <= fuel)%nat -> (1 <= size)%nat ->
    (base = 0 \/ base < k)%nat -> (k <= base + size)%nat -> (base + size <= len)%nat ->
    let b := bs_loop fuel p base size in
    (b = 0 \/ b < k)%nat /\ (k <= b + 1)%nat /\ (b < len)%nat.
  Proof.
    induction fuel as [|f IH]; intros base size Hf H1 Hb Hk Hl; [lia|].
    cbn [bs_loop]. destruct (Nat.leb size 1) eqn:E.
    - apply Nat.leb_le in E. cbv zeta. repeat split; lia.
    - apply Nat.leb_gt in E.
      assert (Hh : (1 <= Nat.div size 2 /\ 2 * Nat.div size 2 <= size)%nat).
      { pose proof (Nat.div_mod size 2 ltac:(lia)) as D.
        pose proof (Nat.mod_upper_bound size 2 ltac:(lia)) as M. lia. }
      destruct Hh as [Hh1 Hh2].
      set (half := Nat.div size 2) in *.
      assert (Hmid : (base + half < len)%nat) by lia.
      destruct (p (base + half)%nat) eqn:P.
      + apply thr in P; [|assumption]. apply IH; lia.
      + assert (~ (base + half < k)%nat) as NP.
        { intro C. apply thr in C; [|assumption]. congruence. }
        apply IH; lia.
  Qed.

  Lemma partition_point_spec : partition_point p len = k.
  Proof.
    unfold partition_point. destruct len as [|l] eqn:EL; [lia|].
    rewrite <- EL in *.
    pose proof (bs_loop_spec len 0 len ltac:(lia) ltac:(lia) ltac:(lia) ltac:(lia) ltac:(lia)) as H.
    cbv zeta in H. set (b := bs_loop len p 0 len) in *. destruct H as [Hb [Hk Hl]].
    destruct (p b) eqn:P.
    - apply thr in P; [|assumption]. lia.
    - assert (~ (b < k)%nat) as NP. { intro C. apply thr in C; [|assumption]. congruence. }
      lia.
  Qed.
End BSearch.

(* ------------------------------------------------------------ sorted lists and counting *)

Definition count_le (off : N) (l : list N) : nat := length (filter (fun x => x <=? off) l).

Lemma count_le_le off l : (count_le off l <= length l)%nat.
Proof.
  unfold count_le. induction l as [|a r IH]; cbn [filter length]; [lia|].
  destruct (a <=? off); cbn [length]; lia.
Qed.

Lemma sorted_threshold off : forall l, StronglySorted N.le l ->
  forall i, (i < length l)%nat -> ((nth i l 0 <=? off) = true <-> (i < count_le off l)%nat).
Proof.
  induction l as [|a r IH]; intros HS i Hi; [cbn in Hi; lia|].
  inversion HS as [|? ? HSr Hall]; subst.
  unfold count_le. cbn [filter]. destruct (a <=? off) eqn:E.
  - cbn [length]. destruct i as [|j]; cbn [nth].
    + split; [lia | intros _; assumption].
    + cbn [length] in Hi. specialize (IH HSr j ltac:(lia)). unfold count_le in IH. rewrite IH. lia.
  - (* every element is > off *)
    assert (Hr : filter (fun x => x <=? off) r = []).
    { clear -Hall E. induction Hall as [|x r Hx Hr IH2]; [reflexivity|].
      cbn [filter]. destruct (x <=? off) eqn:E2; [lia | exact IH2]. }
    rewrite Hr. cbn [length]. split; [|lia].
    intro H. exfalso. destruct i as [|j]; cbn [nth] in H; [lia|].
    cbn [length] in Hi.
    assert (In (nth j r 0) r) by (apply nth_In; lia).
    rewrite Forall_forall in Hall. specialize (Hall _ H0). lia.
Qed.

(* ------------------------------------------------------------ start offsets *)

Definition total (sizes : list N) : N := fold_right N.add 0 sizes.

Lemma starts_from_length s sizes : length (starts_from s sizes) = length sizes.
Proof. revert s. induction sizes as [|a r IH]; intro s; cbn; [reflexivity | rewrite IH; reflexivity]. Qed.

Lemma starts_from_bounds : forall sizes s, Forall (fun x => s <= x /\ x <= s + total sizes) (starts_from s sizes).
Proof.
  induction sizes as [|a r IH]; intro s; cbn [starts_from total fold_right]; constructor.
  - fold (total r). lia.
  - fold (total r). specialize (IH (s + a)). eapply Forall_impl; [|exact IH].
    cbv beta. intros x [H1 H2]. lia.
Qed.

Lemma starts_from_sorted : forall sizes s, StronglySorted N.le (starts_from s sizes).
Proof.
  induction sizes as [|a r IH]; intro s; cbn [starts_from]; constructor.
  - apply IH.
  - pose proof (starts_from_bounds r (s + a)) as B. eapply Forall_impl; [|exact B].
    cbv beta. intros x [H1 H2]. lia.
Qed.

Lemma sorted_snoc l m : StronglySorted N.le l -> Forall (fun x => x <= m) l -> StronglySorted N.le (l ++ [m]).
Proof.
  induction 1 as [|a r HS IH Hall]; intro HF; cbn [app].
  - constructor; constructor.
  - inversion HF; subst. constructor; [apply IH; assumption|].
    apply Forall_app. split; [assumption | constructor; [assumption | constructor]].
Qed.

Lemma nth_starts_from : forall sizes s j, (j < length sizes)%nat ->
  nth j (starts_from s sizes) 0 = s + total (firstn j sizes).
Proof.
  induction sizes as [|a r IH]; intros s j Hj; [cbn in Hj; lia|].
  destruct j as [|j]; cbn [starts_from nth firstn total fold_right].
  - lia.
  - fold (total (firstn j r)). cbn [length] in Hj. rewrite IH by lia. lia.
Qed.

Lemma total_firstn_le sizes j : total (firstn j sizes) <= total sizes.
Proof.
  revert j. induction sizes as [|a r IH]; intro j; destruct j; cbn [firstn total fold_right]; try lia.
  fold (total (firstn j r)). fold (total r). specialize (IH j). lia.
Qed.

Lemma total_map_blen blobs : total (map blen blobs) = blen (concat blobs).
Proof.
  induction blobs as [|d r IH]; [reflexivity|].
  cbn [map total fold_right concat]. fold (total (map blen r)). rewrite IH.
  unfold blen. rewrite app_length. lia.
Qed.

(* ------------------------------------------------------------ the copy loop *)

Lemma read_loop_spec : forall bl o len,
  match bl with d :: r => o <= blen d \/ r = [] | [] => True end ->
  read_loop bl o len = firstn (N.to_nat len) (skipn (N.to_nat o) (concat bl)).
Proof.
  induction bl as [|d r IH]; intros o len Hpre.
  - cbn [read_loop concat]. rewrite skipn_nil, firstn_nil. reflexivity.
  - cbn [read_loop concat]. destruct (len =? 0) eqn:E0.
    { apply N.eqb_eq in E0. subst. reflexivity. }
    apply N.eqb_neq in E0.
    destruct (blen d <? o) eqn:E1.
    { destruct Hpre as [H|H]; [lia|]. subst r. cbn [concat]. rewrite app_nil_r.
      rewrite skipn_all2 by (unfold blen in E1; lia). rewrite firstn_nil. reflexivity. }
    assert (Ho : o <= blen d) by lia.
    rewrite IH by (destruct r; [exact I | left; lia]).
    unfold slice. cbn [N.to_nat skipn].
    change (N.to_nat 0) with O. cbn [skipn].
    rewrite skipn_app.
    replace (N.to_nat o - length d)%nat with O by (unfold blen in Ho; lia).
    cbn [skipn]. rewrite firstn_app.
    rewrite skipn_length.
    unfold blen in *.
    destruct (N.le_gt_cases len (N.of_nat (length d) - o)) as [L|G].
    + rewrite N.min_r by lia.
      replace (N.to_nat len - (length d - N.to_nat o))%nat with O by lia.
      replace (N.to_nat (len - len)) with O by lia. reflexivity.
    + rewrite N.min_l by lia.
      replace (N.to_nat (len - (N.of_nat (length d) - o))) with (N.to_nat len - (length d - N.to_nat o))%nat by lia.
      f_equal.
      rewrite !firstn_all2; try reflexivity; rewrite skipn_length; lia.
Qed.

(* ------------------------------------------------------------ compute_start + loop *)

Lemma skipn_concat_split : forall (blobs : list bytes) i off,
  (N.to_nat (blen (concat (firstn i blobs))) <= off)%nat ->
  skipn off (concat blobs) = skipn (off - N.to_nat (blen (concat (firstn i blobs)))) (concat (skipn i blobs)).
Proof.
  intros blobs i off H.
  rewrite <- (firstn_skipn i blobs) at 1. rewrite concat_app, skipn_app.
  unfold blen in *. rewrite Nat2N.id in *.
  rewrite skipn_all2 by lia. reflexivity.
Qed.

Lemma read_at_is_slice_lemma : forall blobs off len,
  blen (concat blobs) < USIZE_MAX -> off <= USIZE_MAX ->
  read_at blobs off len = firstn (N.to_nat len) (skipn (N.to_nat off) (concat blobs)).
Proof.
  intros blobs off len Htot Hoff. unfold read_at, from_sizes.
  destruct blobs as [|d0 rest].
  { cbn. rewrite skipn_nil, firstn_nil. reflexivity. }
  assert (Hne : (1 <= length (d0 :: rest))%nat) by (cbn [length]; lia).
  generalize dependent (d0 :: rest). clear d0 rest. intros blobs Htot Hne.
  set (sizes := map blen blobs).
  assert (Hn : (length sizes = length blobs)%nat) by (unfold sizes; apply map_length).
  destruct (starts_from 0 sizes) as [|s0 srest] eqn:ES.
  { pose proof (starts_from_length 0 sizes) as L. rewrite ES in L. cbn in L. lia. }
  rewrite <- ES. set (offs := starts_from 0 sizes ++ [USIZE_MAX]).
  assert (Hlen : length offs = S (length blobs)).
  { unfold offs. rewrite app_length, starts_from_length. cbn. lia. }
  assert (Hsorted : StronglySorted N.le offs).
  { unfold offs. apply sorted_snoc; [apply starts_from_sorted|].
    pose proof (starts_from_bounds sizes 0) as B. eapply Forall_impl; [|exact B].
    cbv beta. intros x [_ H2]. unfold sizes in H2. rewrite total_map_blen in H2. lia. }
  unfold compute_start.
  destruct offs as [|o0 orest] eqn:EO; [cbn in Hlen; lia|]. rewrite <- EO in *.
  set (k := count_le off offs).
  assert (Hpp : partition_point (fun i => nth i offs 0 <=? off) (length offs) = k).
  { apply partition_point_spec; [apply count_le_le|].
    intros i Hi. apply sorted_threshold; assumption. }
  rewrite Hpp.
  (* nth of offs *)
  assert (Hnth : forall j, (j < length blobs)%nat -> nth j offs 0 = blen (concat (firstn j blobs))).
  { intros j Hj. unfold offs. rewrite app_nth1 by (rewrite starts_from_length; lia).
    rewrite nth_starts_from by lia. unfold sizes. rewrite firstn_map, total_map_blen. apply N.add_0_l. }
  assert (Hlast : nth (length blobs) offs 0 = USIZE_MAX).
  { unfold offs. rewrite app_nth2 by (rewrite starts_from_length; lia).
    rewrite starts_from_length, Hn, Nat.sub_diag. reflexivity. }
  assert (Hthr : forall i, (i < length offs)%nat -> ((nth i offs 0 <=? off) = true <-> (i < k)%nat))
    by (intros; apply sorted_threshold; assumption).
  (* the first start is 0 <= off, so k >= 1 *)
  assert (Hk1 : (1 <= k)%nat).
  { specialize (Hthr O ltac:(lia)). rewrite Hnth in Hthr by lia. cbn [firstn concat] in Hthr.
    unfold blen in Hthr. cbn [length] in Hthr. apply Hthr. lia. }
  assert (Hkle : (k <= S (length blobs))%nat) by (rewrite <- Hlen; apply count_le_le).
  set (i := Nat.pred k).
  destruct (Nat.eq_dec k (S (length blobs))) as [Kall | Kless].
  - (* even the sentinel is <= off: off = usize::MAX, beyond every blob *)
    assert (i = length blobs) by (unfold i; lia).
    rewrite H. rewrite skipn_all. cbn [read_loop].
    specialize (Hthr (length blobs) ltac:(lia)). rewrite Hlast in Hthr.
    assert (USIZE_MAX <= off) by (apply N.leb_le, Hthr; lia).
    rewrite skipn_all2 by (unfold blen in Htot; lia). rewrite firstn_nil. reflexivity.
  - assert (Hi : (i < length blobs)%nat) by (unfold i; lia).
    assert (Hle : nth i offs 0 <= off).
    { apply N.leb_le. apply Hthr; [lia | unfold i; lia]. }
    assert (Hgt : off < nth (S i) offs 0).
    { apply N.leb_gt. destruct (nth (S i) offs 0 <=? off) eqn:E; [|reflexivity].
      apply Hthr in E; [unfold i in E; lia | lia]. }
    rewrite Hnth in Hle by assumption.
    assert (Hle' : (N.to_nat (blen (concat (firstn i blobs))) <= N.to_nat off)%nat).
    { clear -Hle. set (x := blen (concat (firstn i blobs))) in *. clearbody x. lia. }
    rewrite (skipn_concat_split blobs i (N.to_nat off)) by exact Hle'.
    rewrite Hnth by assumption.
    rewrite read_loop_spec.
    + f_equal. f_equal. apply N2Nat.inj_sub.
    + match goal with |- match ?t with [] => _ | _ => _ end => remember t as sk eqn:ESK end.
      symmetry in ESK. unfold bytes in *.
      destruct sk as [|d r]; [exact I|].
      destruct r as [|d' r']; [right; reflexivity | left].
      (* S i < length blobs, so the next start is S_i + |d| > off *)
      assert (HSi : (S i < length blobs)%nat).
      { assert (length (skipn i blobs) = 2 + length r')%nat by (rewrite ESK; reflexivity).
        rewrite skipn_length in H. lia. }
      rewrite Hnth in Hgt by assumption.
      assert (Hd : firstn (S i) blobs = firstn i blobs ++ [d]).
      { rewrite <- (firstn_skipn i blobs) at 1. rewrite ESK.
        rewrite firstn_app. rewrite firstn_length, Nat.min_l by lia.
        replace (S i - i)%nat with 1%nat by lia.
        rewrite firstn_all2 by (rewrite firstn_length; lia). reflexivity. }
      rewrite Hd, concat_app in Hgt. cbn [concat] in Hgt. rewrite app_nil_r in Hgt.
      unfold blen in *. rewrite app_length in Hgt. lia.
Qed.

Lemma fold_app_concat : forall (l : list bytes) acc, fold_left (fun w d => w ++ d) l acc = acc ++ concat l.
Proof.
  induction l as [|d r IH]; intro acc; cbn [fold_left concat]; [rewrite app_nil_r; reflexivity|].
  rewrite IH, app_assoc. reflexivity.
Qed.

Lemma dump_is_concat_lemma : forall blobs, dump blobs = concat blobs.
Proof. intro. unfold dump. rewrite fold_app_concat. reflexivity. Qed.

(* reading everything from 0 is the dump *)
Lemma read_all_is_dump_lemma : forall blobs,
  blen (concat blobs) < USIZE_MAX -> read_at blobs 0 (blen (concat blobs)) = dump blobs.
Proof.
  intros blobs H. rewrite read_at_is_slice_lemma by (first [assumption | unfold USIZE_MAX; lia]).
  rewrite dump_is_concat_lemma. cbn [N.to_nat skipn]. change (N.to_nat 0) with O. cbn [skipn].
  unfold blen. rewrite Nat2N.id. apply firstn_all.
Qed.
