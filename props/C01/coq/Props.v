(* C01 — property theorems.  Nothing but statements closed by `exact`, each followed by
   Print Assumptions.  Model.v mirrors backend/node.rs (escape_filename / unescape_filename),
   vfs.rs (ContentStartpoints, compute_start, OpenFile::read_at), commands/dump.rs and the
   packer/indexer pipeline of blob/packer.rs + index/indexer.rs; Extracted.v (regenerated from
   the source on every run) says whether Indexer.indexed is typed. *)
From Verif.Base Require Import Tactics.
From Verif.C06 Require Model.
From Verif.C01 Require Import Model ModelTree Extracted ProofsNames ProofsRead ProofsPipe ProofsTree ProofsTreeBS ProofsTime ProofsFile ProofsCode.
Local Open Scope N_scope.

(* names: unescaping the escaped name gives back the name, for every byte string *)
Theorem unescape_escape : forall s, bytes_ok s -> unescape (escape s) = Some s.
Proof. exact unescape_escape_lemma. Qed.
Print Assumptions unescape_escape.

(* Node::name() of a node made by Node::new_node is the original name *)
Theorem node_name_roundtrip : forall s, bytes_ok s -> node_name (escape s) = s.
Proof. exact node_name_roundtrip_lemma. Qed.
Print Assumptions node_name_roundtrip.

(* two different names never get the same stored name *)
Theorem escape_injective : forall a b, bytes_ok a -> bytes_ok b -> escape a = escape b -> a = b.
Proof. exact escape_injective_lemma. Qed.
Print Assumptions escape_injective.

(* the stored name is valid UTF-8 (a `String`), whatever bytes the file name has *)
Theorem escape_valid_utf8 : forall s, bytes_ok s -> utf8_valid (escape s) = true.
Proof. exact escape_valid_utf8_lemma. Qed.
Print Assumptions escape_valid_utf8.

(* the binary search of partition_point returns the size of the true-prefix *)
Theorem partition_point_is_threshold : forall (p : nat -> bool) (len k : nat),
  (k <= len)%nat -> (forall i, (i < len)%nat -> (p i = true <-> (i < k)%nat)) ->
  partition_point p len = k.
Proof. exact partition_point_spec. Qed.
Print Assumptions partition_point_is_threshold.

(* ranged reads: every blob-length list (also zero-length blobs), every offset and length
   (also beyond the end); sizes are usize, the total is below usize::MAX *)
Theorem read_at_is_slice : forall blobs off len,
  blen (concat blobs) < USIZE_MAX -> off <= USIZE_MAX ->
  read_at blobs off len = firstn (N.to_nat len) (skipn (N.to_nat off) (concat blobs)).
Proof. exact read_at_is_slice_lemma. Qed.
Print Assumptions read_at_is_slice.

Theorem dump_is_concat : forall blobs, dump blobs = concat blobs.
Proof. exact dump_is_concat_lemma. Qed.
Print Assumptions dump_is_concat.

Theorem read_all_is_dump : forall blobs,
  blen (concat blobs) < USIZE_MAX -> read_at blobs 0 (blen (concat blobs)) = dump blobs.
Proof. exact read_all_is_dump_lemma. Qed.
Print Assumptions read_all_is_dump.

(* pipeline, full statement: for every schedule `evs` of add / filter / pack / flush / write /
   index steps of the two packers sharing one indexer, once both packers are finalized every
   blob handed to a packer is found again by (type, id) with its bytes.  With the untyped
   `indexed` set this needs NoCrossTypeCollision; with the typed set it needs nothing. *)
Theorem backup_restore_roundtrip : forall typed evs,
  (typed = false -> NoCrossTypeCollision (added evs)) ->
  Consistent (added evs) ->
  complete (run typed evs) = true ->
  forall t id d, In (EAdd t id d) evs -> get_blob (run typed evs) t id = Some d.
Proof. exact roundtrip_general. Qed.
Print Assumptions backup_restore_roundtrip.

(* ... and for the set the source has now, without the collision hypothesis *)
Theorem backup_restore_roundtrip_current_code : forall evs,
  Consistent (added evs) ->
  complete (run indexed_typed evs) = true ->
  forall t id d, In (EAdd t id d) evs -> get_blob (run indexed_typed evs) t id = Some d.
Proof. exact roundtrip_current_code_lemma. Qed.
Print Assumptions backup_restore_roundtrip_current_code.

(* the untyped set loses a blob: data pack with id X indexed before the tree blob X is packed *)
Theorem roundtrip_collision_refuted :
  exists evs, Consistent (added evs) /\ complete (run false evs) = true /\
    exists t id d, In (EAdd t id d) evs /\ get_blob (run false evs) t id = None.
Proof. exact roundtrip_collision_refuted_lemma. Qed.
Print Assumptions roundtrip_collision_refuted.

(* a pack is listed in the index only after it has been written, on every schedule *)
Theorem indexed_packs_written : forall typed evs, incl (idx (run typed evs)) (written (run typed evs)).
Proof. exact indexed_packs_written_lemma. Qed.
Print Assumptions indexed_packs_written.

(* ------------------------------------------------------------------ path lookup (blob/tree.rs)

   Trees are node lists with the names stored ESCAPED (names_escaped), strictly sorted by the
   UNESCAPED name (sorted_by_raw; hence pairwise different) — what backup writes.  For every repository of such trees and every (path, node) the listing
   (NodeStreamer, `ls`) yields, Tree::node_from_path on that path returns exactly that node — with
   the comparison and search strategy the source uses now (the Extracted.lookup flags). *)
Theorem node_from_path_finds_listed : forall R fuel root path n, wf_repo_sorted R ->
  In (path, n) (ls fuel R root) ->
  node_from_path lookup_binary_search lookup_compares_stored R root path = Some n.
Proof. exact node_from_path_finds_listed_lemma. Qed.
Print Assumptions node_from_path_finds_listed.

Theorem find_nodes_from_path_finds_listed : forall R fuel root path n, wf_repo_sorted R ->
  In (path, n) (ls fuel R root) ->
  node_from_path find_nodes_binary_search find_nodes_compares_stored R root path = Some n.
Proof. exact find_nodes_finds_listed_lemma. Qed.
Print Assumptions find_nodes_from_path_finds_listed.

(* every way of looking a component up except a binary search on the stored name is correct:
   scan on node.name(), scan on the stored name against escape_filename(component), binary search
   on node.name() *)
Theorem node_from_path_variants : forall bsearch stored, negb (bsearch && stored) = true ->
  forall R fuel root path n, wf_repo_sorted R ->
  In (path, n) (ls fuel R root) -> node_from_path bsearch stored R root path = Some n.
Proof. exact node_from_path_finds_listed_gen2. Qed.
Print Assumptions node_from_path_variants.

(* the hypotheses are what backup produces: a tree made with Node::new_node (stored name =
   escape_filename(name)) from entries sorted by name is sorted_by_raw and names_escaped ... *)
Theorem backup_tree_is_wellformed : forall entries, entries_ok entries ->
  sorted_by_raw (backup_tree entries) /\ names_escaped (backup_tree entries).
Proof. exact backup_tree_wf. Qed.
Print Assumptions backup_tree_is_wellformed.

(* ... and every source entry is listed under its own (raw) name and found under that name *)
Theorem backup_names_listed_and_found : forall R fuel root entries e,
  wf_repo_sorted R -> R root = Some (backup_tree entries) -> entries_ok entries -> In e entries ->
  In ([entry_name e], mk_node e) (ls (S fuel) R root) /\
  forall bsearch stored, negb (bsearch && stored) = true ->
    node_from_path bsearch stored R root [entry_name e] = Some (mk_node e).
Proof. exact ProofsTreeBS.backup_names_listed_and_found. Qed.
Print Assumptions backup_names_listed_and_found.

(* for a repository all of whose trees were written by backup nothing else has to be assumed:
   the listing shows nodes made from source entries under their raw names, and finds them *)
Theorem backup_repo_lookup : forall bsearch stored, negb (bsearch && stored) = true ->
  forall R fuel root path n, written_by_backup R ->
  In (path, n) (ls fuel R root) -> node_from_path bsearch stored R root path = Some n.
Proof. exact ProofsTreeBS.backup_repo_lookup. Qed.
Print Assumptions backup_repo_lookup.

Theorem backup_repo_listing : forall fuel R nodes prefix path n, written_by_backup R ->
  (exists entries, entries_ok entries /\ nodes = backup_tree entries) ->
  In (path, n) (ls_nodes fuel R nodes prefix) ->
  exists e pre, n = mk_node e /\ bytes_ok (entry_name e) /\ path = pre ++ [entry_name e].
Proof. exact ProofsTreeBS.backup_repo_listing. Qed.
Print Assumptions backup_repo_listing.

(* the scan comparing node.name() needs nothing but distinct names (no assumption on how the
   names are stored: also names that fail to unescape are found under their fallback) *)
Theorem node_from_path_scan_finds_listed : forall R fuel root path n, wf_repo R ->
  In (path, n) (ls fuel R root) -> node_from_path false false R root path = Some n.
Proof. exact node_from_path_finds_listed_scan. Qed.
Print Assumptions node_from_path_scan_finds_listed.

(* a binary search on the ESCAPED names over trees sorted by RAW name loses listed entries *)
Theorem node_from_path_bsearch_stored_refuted :
  exists R root path n, wf_repo_escaped R /\
    (forall id nodes, R id = Some nodes -> StronglySorted (fun a b => bytes_cmp (raw_name a) (raw_name b) = Lt) nodes) /\
    In (path, n) (ls 3 R root) /\ node_from_path true true R root path = None.
Proof. exact node_from_path_bsearch_stored_refuted_lemma. Qed.
Print Assumptions node_from_path_bsearch_stored_refuted.

(* ------------------------------------------------------------------ modification times

   capture = mapper.rs (stat timespec -> SystemTime -> jiff Timestamp, negative instants carry the
   sign in BOTH fields), restore_time = LocalDestination::set_times (Timestamp -> SystemTime ->
   FileTime: floored seconds, non-negative nanoseconds).  For every timespec in jiff's range,
   before and after the epoch, the restored timespec is the captured one. *)
Theorem mtime_roundtrip : forall s n, (0 <= n < NS)%Z -> (JIFF_MIN <= s)%Z -> (s <= JIFF_MAX)%Z ->
  exists j, capture (s, n) = Some j /\ restore_time restore_time_direct j = (s, n).
Proof. exact mtime_roundtrip_current_code_lemma. Qed.
Print Assumptions mtime_roundtrip.

Theorem capture_keeps_instant : forall t j, timespec_ok t -> capture t = Some j ->
  (fst j * NS + snd j = fst t * NS + snd t)%Z.
Proof. exact capture_instant. Qed.
Print Assumptions capture_keeps_instant.

(* FileTime::from_unix_time(as_second, |subsec_nanosecond|) is wrong before the epoch *)
Theorem mtime_roundtrip_direct_refuted :
  exists s n j, (0 <= n < NS)%Z /\ capture (s, n) = Some j /\ restore_time true j <> (s, n).
Proof. exact mtime_roundtrip_direct_refuted_lemma. Qed.
Print Assumptions mtime_roundtrip_direct_refuted.

(* ------------------------------------------------------------------ file content, source to read-back

   C06's chunker model (Verif.C06.Model.chunks_impl / fixed_impl: every read schedule with short
   reads and Interrupted, every size hint, both arithmetic modes) composed with dump / read_at:
   for every ACCEPTED chunker configuration the chunk list a file is stored as reads back as the
   file's bytes. *)
Theorem file_content_roundtrip : forall md P avg mn mx hint src sched,
  Verif.C06.Model.rabin_accepts avg mn mx = true ->
  exists cs, Verif.C06.Model.chunks_impl md (Verif.C06.Model.Build_cparams P avg mn mx) hint src sched = Verif.C06.Model.Ok cs /\
    dump cs = src /\
    (blen src < USIZE_MAX -> forall off len, off <= USIZE_MAX ->
       read_at cs off len = firstn (N.to_nat len) (skipn (N.to_nat off) src)).
Proof. exact file_content_roundtrip_rabin_lemma. Qed.
Print Assumptions file_content_roundtrip.

Theorem file_content_roundtrip_fixed : forall size hint src sched,
  Verif.C06.Model.fixed_accepts size = true ->
  exists cs, Verif.C06.Model.fixed_impl size hint src sched = Some cs /\
    dump cs = src /\
    (blen src < USIZE_MAX -> forall off len, off <= USIZE_MAX ->
       read_at cs off len = firstn (N.to_nat len) (skipn (N.to_nat off) src)).
Proof. exact file_content_roundtrip_fixed_lemma. Qed.
Print Assumptions file_content_roundtrip_fixed.

(* ... and through the data packer / indexer of the run (ids = H chunk for ANY function H such
   that the blobs of the run are Consistent, i.e. no hash collision among them): when every chunk
   of the file is handed to the data packer, the node's content list `map H cs` reads back, blob
   by blob through the typed index, as bytes whose dump / ranged reads are the source bytes. *)
Theorem backup_file_readback : forall (H : bytes -> N) md P avg mn mx hint src sched evs,
  Verif.C06.Model.rabin_accepts avg mn mx = true ->
  Consistent (added evs) -> complete (run indexed_typed evs) = true ->
  exists cs, Verif.C06.Model.chunks_impl md (Verif.C06.Model.Build_cparams P avg mn mx) hint src sched = Verif.C06.Model.Ok cs /\
    ((forall c, In c cs -> In (EAdd Data (H c) c) evs) ->
     exists blobs, read_blobs (run indexed_typed evs) (map H cs) = Some blobs /\
       dump blobs = src /\
       (blen src < USIZE_MAX -> forall off len, off <= USIZE_MAX ->
          read_at blobs off len = firstn (N.to_nat len) (skipn (N.to_nat off) src))).
Proof. exact backup_file_readback_rabin_lemma. Qed.
Print Assumptions backup_file_readback.

Theorem backup_file_readback_fixed : forall (H : bytes -> N) size hint src sched evs,
  Verif.C06.Model.fixed_accepts size = true ->
  Consistent (added evs) -> complete (run indexed_typed evs) = true ->
  exists cs, Verif.C06.Model.fixed_impl size hint src sched = Some cs /\
    ((forall c, In c cs -> In (EAdd Data (H c) c) evs) ->
     exists blobs, read_blobs (run indexed_typed evs) (map H cs) = Some blobs /\
       dump blobs = src /\
       (blen src < USIZE_MAX -> forall off len, off <= USIZE_MAX ->
          read_at blobs off len = firstn (N.to_nat len) (skipn (N.to_nat off) src))).
Proof. exact backup_file_readback_fixed_lemma. Qed.
Print Assumptions backup_file_readback_fixed.
