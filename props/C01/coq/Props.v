(* C01 — property theorems.  Nothing but statements closed by `exact`, each followed by
   Print Assumptions.  Model.v mirrors backend/node.rs (escape_filename / unescape_filename),
   vfs.rs (ContentStartpoints, compute_start, OpenFile::read_at), commands/dump.rs and the
   packer/indexer pipeline of blob/packer.rs + index/indexer.rs; Extracted.v (regenerated from
   the source on every run) says whether Indexer.indexed is typed. *)
From Verif.Base Require Import Tactics.
From Verif.C01 Require Import Model Extracted ProofsNames ProofsRead ProofsPipe ProofsCode.
Local Open Scope N_scope.

(* names: unescaping the escaped name gives back the name, for every byte string *)
Theorem unescape_escape : forall s, bytes_ok s -> unescape (escape s) = Some s.
Proof. exact unescape_escape_lemma. Qed.
Print Assumptions unescape_escape.

(* Node::name() of a node made by Node::new_node is the original name *)
Theorem node_name_roundtrip : forall s, bytes_ok s -> node_name (escape s) = s.
Proof. exact node_name_roundtrip_lemma. Qed.
Print Assumptions node_name_roundtrip.

(* two different names never get the same stored name *)
Theorem escape_injective : forall a b, bytes_ok a -> bytes_ok b -> escape a = escape b -> a = b.
Proof. exact escape_injective_lemma. Qed.
Print Assumptions escape_injective.

(* the stored name is valid UTF-8 (a `String`), whatever bytes the file name has *)
Theorem escape_valid_utf8 : forall s, bytes_ok s -> utf8_valid (escape s) = true.
Proof. exact escape_valid_utf8_lemma. Qed.
Print Assumptions escape_valid_utf8.

(* the binary search of partition_point returns the size of the true-prefix *)
Theorem partition_point_is_threshold : forall (p : nat -> bool) (len k : nat),
  (k <= len)%nat -> (forall i, (i < len)%nat -> (p i = true <-> (i < k)%nat)) ->
  partition_point p len = k.
Proof. exact partition_point_spec. Qed.
Print Assumptions partition_point_is_threshold.

(* ranged reads: every blob-length list (also zero-length blobs), every offset and length
   (also beyond the end); sizes are usize, the total is below usize::MAX *)
Theorem read_at_is_slice : forall blobs off len,
  blen (concat blobs) < USIZE_MAX -> off <= USIZE_MAX ->
  read_at blobs off len = firstn (N.to_nat len) (skipn (N.to_nat off) (concat blobs)).
Proof. exact read_at_is_slice_lemma. Qed.
Print Assumptions read_at_is_slice.

Theorem dump_is_concat : forall blobs, dump blobs = concat blobs.
Proof. exact dump_is_concat_lemma. Qed.
Print Assumptions dump_is_concat.

Theorem read_all_is_dump : forall blobs,
  blen (concat blobs) < USIZE_MAX -> read_at blobs 0 (blen (concat blobs)) = dump blobs.
Proof. exact read_all_is_dump_lemma. Qed.
Print Assumptions read_all_is_dump.

(* pipeline, full statement: for every schedule `evs` of add / filter / pack / flush / write /
   index steps of the two packers sharing one indexer, once both packers are finalized every
   blob handed to a packer is found again by (type, id) with its bytes.  With the untyped
   `indexed` set this needs NoCrossTypeCollision; with the typed set it needs nothing. *)
Theorem backup_restore_roundtrip : forall typed evs,
  (typed = false -> NoCrossTypeCollision (added evs)) ->
  Consistent (added evs) ->
  complete (run typed evs) = true ->
  forall t id d, In (EAdd t id d) evs -> get_blob (run typed evs) t id = Some d.
Proof. exact roundtrip_general. Qed.
Print Assumptions backup_restore_roundtrip.

(* ... and for the set the source has now, without the collision hypothesis *)
Theorem backup_restore_roundtrip_current_code : forall evs,
  Consistent (added evs) ->
  complete (run indexed_typed evs) = true ->
  forall t id d, In (EAdd t id d) evs -> get_blob (run indexed_typed evs) t id = Some d.
Proof. exact roundtrip_current_code_lemma. Qed.
Print Assumptions backup_restore_roundtrip_current_code.

(* the untyped set loses a blob: data pack with id X indexed before the tree blob X is packed *)
Theorem roundtrip_collision_refuted :
  exists evs, Consistent (added evs) /\ complete (run false evs) = true /\
    exists t id d, In (EAdd t id d) evs /\ get_blob (run false evs) t id = None.
Proof. exact roundtrip_collision_refuted_lemma. Qed.
Print Assumptions roundtrip_collision_refuted.

(* a pack is listed in the index only after it has been written, on every schedule *)
Theorem indexed_packs_written : forall typed evs, incl (idx (run typed evs)) (written (run typed evs)).
Proof. exact indexed_packs_written_lemma. Qed.
Print Assumptions indexed_packs_written.
