(* C01 — modification times: capture (stat -> jiff Timestamp) followed by set_times
   (Timestamp -> SystemTime -> FileTime) gives back the timespec, before and after the epoch. *)
From Verif.Base Require Import Tactics.
From Verif.C01 Require Import Model ModelTree.
Local Open Scope Z_scope.

Ltac split_ifs :=
  repeat match goal with
  | H : context [if ?c then _ else _] |- _ => destruct c eqn:?
  | |- context [if ?c then _ else _] => destruct c eqn:?
  end.

(* the jiff representation: both fields carry the sign, |nsec| < 10^9 *)
Definition jiff_ok (j : Z * Z) : Prop :=
  - NS < snd j < NS /\ (fst j < 0 -> snd j <= 0) /\ (0 < fst j -> 0 <= snd j).

Lemma capture_jiff_ok t j : timespec_ok t -> capture t = Some j -> jiff_ok j.
Proof.
  destruct t as [s n]. unfold timespec_ok, capture, duration_since_epoch, jiff_ok, NS. cbn [fst snd].
  intros Hn H. split_ifs; inversion H; subst; cbn [fst snd]; lia.
Qed.

Lemma restore_capture t j : timespec_ok t -> capture t = Some j -> restore_time false j = t.
Proof.
  destruct t as [s n]. unfold timespec_ok, capture, duration_since_epoch. cbn [fst snd]. unfold NS.
  intros Hn H.
  destruct (0 <=? s) eqn:E0.
  - cbn [fst snd] in H. split_ifs; inversion H; subst.
    unfold restore_time, system_time_of, filetime_of_system_time, duration_since_epoch, NS.
    split_ifs; f_equal; lia.
  - destruct (n =? 0) eqn:E1; cbn [fst snd] in H; split_ifs; inversion H; subst;
    unfold restore_time, system_time_of, filetime_of_system_time, duration_since_epoch, NS;
    split_ifs; f_equal; lia.
Qed.

Lemma capture_defined s n : 0 <= n < NS -> JIFF_MIN <= s -> s <= JIFF_MAX -> exists j, capture (s, n) = Some j.
Proof.
  unfold capture, duration_since_epoch, JIFF_MIN, JIFF_MAX, NS. intros Hn H1 H2.
  destruct (0 <=? s) eqn:E0; [|destruct (n =? 0) eqn:E1]; cbn [fst snd];
  match goal with |- context [if ?c then _ else _] => destruct c eqn:E end; eauto; lia.
Qed.

Lemma mtime_roundtrip_lemma : forall s n, 0 <= n < NS -> JIFF_MIN <= s -> s <= JIFF_MAX ->
  exists j, capture (s, n) = Some j /\ restore_time false j = (s, n).
Proof.
  intros s n Hn H1 H2. destruct (capture_defined s n Hn H1 H2) as [j Hj].
  exists j. split; [assumption|]. apply (restore_capture (s, n)); assumption.
Qed.

(* what the timestamp means: seconds * 10^9 + nanoseconds is preserved by capture *)
Lemma capture_instant t j : timespec_ok t -> capture t = Some j ->
  fst j * NS + snd j = fst t * NS + snd t.
Proof.
  destruct t as [s n]. unfold timespec_ok, capture, duration_since_epoch, NS. cbn [fst snd].
  intros Hn H. split_ifs; inversion H; subst; cbn [fst snd]; lia.
Qed.

(* building the FileTime from (as_second, |subsec_nanosecond|) is wrong before the epoch *)
Lemma mtime_roundtrip_direct_refuted_lemma :
  exists s n j, 0 <= n < NS /\ capture (s, n) = Some j /\ restore_time true j <> (s, n).
Proof.
  exists (-2), 750000000, (-1, -250000000). split; [unfold NS; lia|]. split; [vm_compute; reflexivity|].
  vm_compute. discriminate.
Qed.

(* ... and exactly there: at or after the epoch, and for whole seconds, both agree *)
Lemma direct_agrees_nonneg j : jiff_ok j -> 0 <= snd j -> (0 <= fst j) -> restore_time true j = restore_time false j.
Proof.
  destruct j as [s n]. unfold jiff_ok, restore_time, system_time_of, filetime_of_system_time, duration_since_epoch, NS.
  cbn [fst snd]. intros H Hn Hs. split_ifs; f_equal; lia.
Qed.

Example ex_time : capture (-2, 750000000) = Some (-1, -250000000)
  /\ restore_time false (-1, -250000000) = (-2, 750000000)
  /\ capture (0, 0) = Some (0, 0) /\ capture (-86400, 0) = Some (-86400, 0)
  /\ restore_time false (-86400, 0) = (-86400, 0)
  /\ capture (7258118400, 123456789) = Some (7258118400, 123456789).
Proof. vm_compute. repeat split; reflexivity. Qed.
