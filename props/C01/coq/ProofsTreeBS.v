(* C01 — path lookup by binary search: correct when the key compared is the one the tree is
   sorted by (the unescaped name). *)
From Verif.Base Require Import Tactics.
From Verif.C01 Require Import Model ModelTree ProofsNames ProofsRead ProofsTree.
Local Open Scope N_scope.

Lemma bytes_cmp_eq a b : bytes_cmp a b = Eq <-> a = b.
Proof.
  revert b. induction a as [|x a IH]; destruct b as [|y b]; cbn [bytes_cmp]; try (split; intro; congruence).
  destruct (x ?= y) eqn:E.
  - apply N.compare_eq_iff in E. subst. rewrite IH. split; intro H; [subst; reflexivity | inversion H; reflexivity].
  - split; [discriminate|]. intro H. inversion H; subst. rewrite N.compare_refl in E. discriminate.
  - split; [discriminate|]. intro H. inversion H; subst. rewrite N.compare_refl in E. discriminate.
Qed.

Lemma bytes_cmp_antisym a b : bytes_cmp b a = CompOpp (bytes_cmp a b).
Proof.
  revert b. induction a as [|x a IH]; destruct b as [|y b]; cbn [bytes_cmp CompOpp]; try reflexivity.
  rewrite (N.compare_antisym x y). destruct (x ?= y); cbn [CompOpp]; [apply IH | reflexivity | reflexivity].
Qed.

Lemma bytes_cmp_trans a : forall b c, bytes_cmp a b = Lt -> bytes_cmp b c = Lt -> bytes_cmp a c = Lt.
Proof.
  induction a as [|x a IH]; intros b c H1 H2.
  - destruct b; [discriminate|]. destruct c; [discriminate | reflexivity].
  - destruct b as [|y b]; [discriminate|]. destruct c as [|z c]; [discriminate|].
    cbn [bytes_cmp] in *.
    destruct (x ?= y) eqn:E1; try discriminate; destruct (y ?= z) eqn:E2; try discriminate.
    + apply N.compare_eq_iff in E1, E2. subst. rewrite N.compare_refl. eapply IH; eassumption.
    + apply N.compare_eq_iff in E1. subst. rewrite E2. reflexivity.
    + apply N.compare_eq_iff in E2. subst. rewrite E1. reflexivity.
    + apply N.compare_lt_iff in E1. apply N.compare_lt_iff in E2.
      assert (H : x < z) by (eapply N.lt_trans; eassumption).
      apply N.compare_lt_iff in H. rewrite H. reflexivity.
Qed.

Definition raw_lt (a b : node) : Prop := bytes_cmp (raw_name a) (raw_name b) = Lt.
(* a directory as backup writes it: strictly sorted by the unescaped name *)
Definition sorted_by_raw (nodes : list node) : Prop := StronglySorted raw_lt nodes.

Lemma sorted_nth_lt d : forall l i j, sorted_by_raw l -> (i < j)%nat -> (j < length l)%nat ->
  raw_lt (nth i l d) (nth j l d).
Proof.
  induction l as [|a l IH]; intros i j HS Hij Hj; [cbn in Hj; lia|].
  inversion HS as [|? ? HS' Hall]; subst.
  destruct j as [|j]; [lia|]. cbn [length] in Hj. destruct i as [|i]; cbn [nth].
  - rewrite Forall_forall in Hall. apply Hall. apply nth_In. lia.
  - apply IH; [assumption | lia | lia].
Qed.

Lemma sorted_distinct l : sorted_by_raw l -> names_distinct l.
Proof.
  unfold names_distinct. induction 1 as [|a l HS IH Hall]; cbn [map]; constructor; [|assumption].
  intro Hin. apply in_map_iff in Hin. destruct Hin as [b [E Hb]].
  rewrite Forall_forall in Hall. specialize (Hall b Hb). unfold raw_lt in Hall.
  rewrite E in Hall. assert (bytes_cmp (raw_name a) (raw_name a) = Eq) by (apply bytes_cmp_eq; reflexivity).
  congruence.
Qed.

Lemma lookup_bsearch_unescaped nodes n :
  sorted_by_raw nodes -> In n nodes -> lookup true false (raw_name n) nodes = Some n.
Proof.
  intros HS Hin. unfold lookup. cbn [node_key].
  destruct (In_nth nodes n (mknode [] None 0) Hin) as [j [Hj Hn]].
  set (d := mknode [] None 0) in *.
  set (cmp := fun i : nat => bytes_cmp (node_name (n_name (nth i nodes d))) (raw_name n)).
  set (p := fun i : nat => match cmp i with Gt => false | _ => true end).
  assert (Hcmp : forall i, (i < length nodes)%nat ->
            (i < j -> cmp i = Lt)%nat /\ (i = j -> cmp i = Eq) /\ (j < i -> cmp i = Gt)%nat).
  { intros i Hi. unfold cmp. fold (raw_name (nth i nodes d)). rewrite <- Hn. repeat split; intro H.
    - apply (sorted_nth_lt d nodes i j HS H Hj).
    - subst i. apply bytes_cmp_eq. reflexivity.
    - rewrite bytes_cmp_antisym. pose proof (sorted_nth_lt d nodes j i HS H Hi) as L. unfold raw_lt in L.
      rewrite L. reflexivity. }
  assert (Hthr : forall i, (i < length nodes)%nat -> (p i = true <-> (i < S j)%nat)).
  { intros i Hi. destruct (Hcmp i Hi) as [H1 [H2 H3]]. unfold p.
    destruct (Nat.lt_trichotomy i j) as [L|[E|G]].
    - rewrite (H1 L). split; [lia | reflexivity].
    - rewrite (H2 E). split; [lia | reflexivity].
    - rewrite (H3 G). split; [discriminate | lia]. }
  unfold binary_search. destruct (length nodes) as [|len'] eqn:EL; [lia|]. rewrite <- EL in *.
  pose proof (bs_loop_spec p (length nodes) (S j) ltac:(lia) Hthr (length nodes) 0%nat (length nodes)
                ltac:(lia) ltac:(lia) ltac:(lia) ltac:(lia) ltac:(lia)) as B.
  cbv zeta in B. fold p. set (b := bs_loop (length nodes) p 0 (length nodes)) in *.
  destruct B as [B1 [B2 B3]].
  assert (b = j).
  { destruct (Nat.eq_dec b j) as [E|NE]; [assumption|]. exfalso.
    assert (Hb : (b < j)%nat) by lia.
    (* b < j: then S j <= b + 1 is impossible *) lia. }
  subst b. rewrite H. destruct (Hcmp j Hj) as [_ [H2 _]]. fold cmp. rewrite (H2 eq_refl).
  rewrite <- Hn. apply nth_error_nth'. assumption.
Qed.

(* the proved combinations: everything except binary search on the stored (escaped) name *)
Definition lookup_proved2 (bsearch stored : bool) : bool := negb (bsearch && stored).

Definition wf_repo_sorted (R : repo) : Prop :=
  forall id nodes, R id = Some nodes -> sorted_by_raw nodes /\ names_escaped nodes.

Lemma node_from_path_finds_listed_gen2 : forall bsearch stored, lookup_proved2 bsearch stored = true ->
  forall R fuel root path n, wf_repo_sorted R ->
  In (path, n) (ls fuel R root) -> node_from_path bsearch stored R root path = Some n.
Proof.
  intros bsearch stored H R fuel root path n W Hin.
  destruct bsearch.
  - destruct stored; [discriminate|].
    apply (ls_found true false R (fun nodes => sorted_by_raw nodes /\ names_escaped nodes) W) with (fuel := fuel); [|assumption].
    intros nodes m [H1 _] H2. apply lookup_bsearch_unescaped; assumption.
  - apply (node_from_path_finds_listed_gen false stored eq_refl R fuel root path n); [|assumption].
    intros id nodes Hr. destruct (W id nodes Hr) as [H1 H2]. split; [apply sorted_distinct; assumption | assumption].
Qed.

(* ---- the hypotheses hold for the trees backup builds *)
Definition entry_name (e : bytes * option N * N) : bytes := fst (fst e).
Definition entries_ok (entries : list (bytes * option N * N)) : Prop :=
  Forall (fun e => bytes_ok (entry_name e)) entries /\
  StronglySorted (fun a b => bytes_cmp (entry_name a) (entry_name b) = Lt) entries.

Lemma raw_name_mk_node e : bytes_ok (entry_name e) -> raw_name (mk_node e) = entry_name e.
Proof.
  destruct e as [[raw sub] tag]. unfold entry_name, raw_name, mk_node. cbn [fst n_name].
  apply node_name_roundtrip_lemma.
Qed.

Lemma backup_tree_wf entries : entries_ok entries ->
  sorted_by_raw (backup_tree entries) /\ names_escaped (backup_tree entries).
Proof.
  intros [Hok HS]. split.
  - unfold sorted_by_raw, backup_tree. induction HS as [|a l HS IH Hall]; cbn [map]; constructor.
    + apply IH. inversion Hok; assumption.
    + inversion Hok as [|? ? Ha Hl]; subst. rewrite Forall_forall in *. intros m Hm.
      apply in_map_iff in Hm. destruct Hm as [b [<- Hb]]. unfold raw_lt.
      rewrite !raw_name_mk_node by auto. apply Hall. assumption.
  - intros n Hn. unfold backup_tree in Hn. apply in_map_iff in Hn. destruct Hn as [e [<- He]].
    rewrite Forall_forall in Hok. exists (entry_name e). split; [apply Hok; assumption|].
    destruct e as [[raw sub] tag]. reflexivity.
Qed.

(* the listing shows the source names: the last component of a listed path is the raw name the
   node was made from *)
Lemma listed_last_component : forall fuel R nodes prefix path n,
  In (path, n) (ls_nodes fuel R nodes prefix) -> exists pre, path = pre ++ [raw_name n].
Proof.
  induction fuel as [|f IH]; intros R nodes prefix path n Hin; [contradiction|].
  cbn [ls_nodes] in Hin. apply in_flat_map in Hin. destruct Hin as [m [Hm Hin]].
  fold (raw_name m) in Hin. destruct Hin as [E|Hin].
  - inversion E; subst. eexists. reflexivity.
  - destruct (n_subtree m) as [id|]; [|contradiction]. destruct (R id) as [ns|]; [|contradiction].
    eapply IH. eassumption.
Qed.

Lemma backup_names_listed_and_found : forall R fuel root entries e,
  wf_repo_sorted R -> R root = Some (backup_tree entries) -> entries_ok entries -> In e entries ->
  In ([entry_name e], mk_node e) (ls (S fuel) R root) /\
  forall bsearch stored, negb (bsearch && stored) = true ->
    node_from_path bsearch stored R root [entry_name e] = Some (mk_node e).
Proof.
  intros R fuel root entries e W Hr [Hok HS] He.
  assert (Hin : In ([entry_name e], mk_node e) (ls (S fuel) R root)).
  { unfold ls. rewrite Hr. cbn [ls_nodes]. apply in_flat_map. exists (mk_node e).
    split; [unfold backup_tree; apply in_map; assumption|].
    left. cbn [app]. fold (raw_name (mk_node e)). rewrite raw_name_mk_node; [reflexivity|].
    rewrite Forall_forall in Hok. apply Hok. assumption. }
  split; [exact Hin|]. intros bsearch stored Hc.
  eapply node_from_path_finds_listed_gen2; eassumption.
Qed.

(* ---- repositories all of whose trees were written by backup *)
Definition written_by_backup (R : repo) : Prop :=
  forall id nodes, R id = Some nodes -> exists entries, entries_ok entries /\ nodes = backup_tree entries.

Lemma written_by_backup_wf R : written_by_backup R -> wf_repo_sorted R.
Proof.
  intros W id nodes Hr. destruct (W id nodes Hr) as [entries [Hok ->]]. apply backup_tree_wf. assumption.
Qed.

Lemma backup_repo_lookup : forall bsearch stored, negb (bsearch && stored) = true ->
  forall R fuel root path n, written_by_backup R ->
  In (path, n) (ls fuel R root) -> node_from_path bsearch stored R root path = Some n.
Proof.
  intros bsearch stored Hc R fuel root path n W. apply node_from_path_finds_listed_gen2; [assumption|].
  apply written_by_backup_wf. assumption.
Qed.

(* what the listing shows for such a repository: a node made from a source entry, under a path
   whose last component is that entry's (raw) name *)
Lemma backup_repo_listing : forall fuel R nodes prefix path n, written_by_backup R ->
  (exists entries, entries_ok entries /\ nodes = backup_tree entries) ->
  In (path, n) (ls_nodes fuel R nodes prefix) ->
  exists e pre, n = mk_node e /\ bytes_ok (entry_name e) /\ path = pre ++ [entry_name e].
Proof.
  induction fuel as [|f IH]; intros R nodes prefix path n W [entries [Hok ->]] Hin; [contradiction|].
  cbn [ls_nodes] in Hin. apply in_flat_map in Hin. destruct Hin as [m [Hm Hin]].
  fold (raw_name m) in Hin. destruct Hin as [E|Hin].
  - inversion E; subst. unfold backup_tree in Hm. apply in_map_iff in Hm. destruct Hm as [e [<- He]].
    destruct Hok as [Hb _]. rewrite Forall_forall in Hb. specialize (Hb e He).
    exists e, prefix. split; [reflexivity|]. split; [assumption|]. rewrite raw_name_mk_node by assumption. reflexivity.
  - destruct (n_subtree m) as [id|]; [|contradiction]. destruct (R id) as [ns|] eqn:Hr; [|contradiction].
    eapply IH; [exact W | exact (W id ns Hr) | exact Hin].
Qed.
