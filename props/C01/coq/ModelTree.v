(* C01 — executable models, part 4 and 5 (definitions only).

   Part 4  path lookup   blob/tree.rs  Tree::node_from_path (also the per-component step of
                         find_nodes_from_path) and the NodeStreamer flattening behind `ls`
   Part 5  time stamps   backend/ignore/mapper.rs  mtime capture (SystemTime -> jiff Timestamp),
                         backend/local_destination.rs  set_times (Timestamp -> SystemTime -> FileTime) *)
From Verif.Base Require Import Tactics.
From Verif.C01 Require Import Model.
Local Open Scope N_scope.

(* ------------------------------------------------------------------ Part 4: trees and paths *)

(* a tree node: the STORED (escaped) name, the subtree id of a directory, and everything else
   (type, metadata, content) as an opaque tag *)
Record node := mknode { n_name : bytes; n_subtree : option N; n_tag : N }.
(* the tree blobs of a repository *)
Definition repo := N -> option (list node).

Fixpoint bytes_eqb (a b : bytes) : bool :=
  match a, b with
  | [], [] => true
  | x :: a', y :: b' => (x =? y) && bytes_eqb a' b'
  | _, _ => false
  end.

(* Ord for OsStr / str: lexicographic on bytes *)
Fixpoint bytes_cmp (a b : bytes) : comparison :=
  match a, b with
  | [], [] => Eq
  | [], _ :: _ => Lt
  | _ :: _, [] => Gt
  | x :: a', y :: b' => match x ?= y with Eq => bytes_cmp a' b' | c => c end
  end.

(* slice::binary_search_by(|x| f(x)) — the same loop as partition_point (Model.bs_loop with the
   predicate `cmp != Greater`), then `if cmp == Equal { Ok(base) } else { Err(..) }` *)
Definition binary_search (cmp : nat -> comparison) (len : nat) : option nat :=
  match len with
  | O => None
  | _ =>
    let base := bs_loop len (fun i => match cmp i with Gt => false | _ => true end) 0 len in
    match cmp base with Eq => Some base | _ => None end
  end.

(* What one step of the lookup compares and how it searches.  The source as pinned:
   `tree.nodes.into_iter().find(|node| node.name() == p)` = (stored := false, bsearch := false).
   `stored = true` compares the stored name with escape_filename(p); `bsearch = true` uses
   binary_search_by on the node list. *)
Definition node_key (stored : bool) (n : node) : bytes :=
  if stored then n_name n else node_name (n_name n).
Definition lookup (bsearch stored : bool) (p : bytes) (nodes : list node) : option node :=
  let target := if stored then escape p else p in
  if bsearch then
    match binary_search (fun i => bytes_cmp (node_key stored (nth i nodes (mknode [] None 0))) target) (length nodes) with
    | Some i => nth_error nodes i
    | None => None
    end
  else find (fun n => bytes_eqb (node_key stored n) target) nodes.

(* Tree::node_from_path: start from a directory node whose subtree is the root tree; for every
   path component: the current node must be a directory, its tree must exist, the component must
   be found.  None = Err. *)
Fixpoint node_from_path_go (bsearch stored : bool) (R : repo) (cur : node) (path : list bytes) : option node :=
  match path with
  | [] => Some cur
  | p :: rest =>
    match n_subtree cur with
    | None => None                                      (* "is not a directory" *)
    | Some id =>
      match R id with
      | None => None                                    (* tree blob missing *)
      | Some nodes =>
        match lookup bsearch stored p nodes with
        | None => None                                  (* "not found in tree" *)
        | Some n => node_from_path_go bsearch stored R n rest
        end
      end
    end
  end.
Definition node_from_path (bsearch stored : bool) (R : repo) (root : N) (path : list bytes) : option node :=
  node_from_path_go bsearch stored R (mknode [] (Some root) 0) path.

(* NodeStreamer (recursive): pre-order — a node, then the nodes of its subtree, then its
   siblings; the path of a node is the path of its directory joined with node.name().
   `fuel` bounds the depth. *)
Fixpoint ls_nodes (fuel : nat) (R : repo) (nodes : list node) (prefix : list bytes) : list (list bytes * node) :=
  match fuel with
  | O => []
  | S f =>
    flat_map (fun n =>
      let p := prefix ++ [node_name (n_name n)] in
      (p, n) :: match n_subtree n with
                | Some id => match R id with Some ns => ls_nodes f R ns p | None => [] end
                | None => []
                end) nodes
  end.
Definition ls (fuel : nat) (R : repo) (root : N) : list (list bytes * node) :=
  match R root with Some nodes => ls_nodes fuel R nodes [] | None => [] end.

(* ------------------------------------------------------------------ Part 5: time stamps *)

Local Open Scope Z_scope.
Definition NS : Z := 1000000000.

(* A unix timespec / what stat reports and utimensat takes: floored seconds, 0 <= nsec < 10^9. *)
Definition timespec_ok (t : Z * Z) : Prop := 0 <= snd t < NS.

(* std: SystemTime::duration_since(UNIX_EPOCH): Ok(d) for t >= epoch, Err(epoch - t) otherwise;
   a Duration is (secs >= 0, 0 <= nanos < 10^9) *)
Definition duration_since_epoch (t : Z * Z) : bool * (Z * Z) :=   (* (is_ok, duration) *)
  let (s, n) := t in
  if 0 <=? s then (true, (s, n))
  else if n =? 0 then (false, (- s, 0))
  else (false, (- s - 1, NS - n)).

(* jiff: Timestamp range: MIN = JIFF_MIN s + 0 ns, MAX = JIFF_MAX s + 999999999 ns *)
Definition JIFF_MIN : Z := -377705023201.
Definition JIFF_MAX : Z := 253402207200.

(* mapper.rs: `m.modified().ok().and_then(|t| Timestamp::try_from(t).ok())`
   = SignedDuration::system_until(UNIX_EPOCH, t) (the duration, negated when t < epoch), then
   Timestamp::from_duration (range check).  A jiff Timestamp is (second, subsec_nanosecond) with
   BOTH carrying the sign. *)
Definition capture (t : Z * Z) : option (Z * Z) :=
  let '(ok, (s, n)) := duration_since_epoch t in
  let j := if ok then (s, n) else (- s, - n) in
  if (JIFF_MIN <=? fst j) && (fst j <=? JIFF_MAX) && negb ((fst j =? JIFF_MIN) && (snd j <? 0)) then Some j else None.

(* jiff: `SystemTime::from(Timestamp)`: UNIX_EPOCH.checked_add / checked_sub of the absolute
   duration; std normalises the timespec (borrow from the seconds when nanoseconds go negative) *)
Definition system_time_of (j : Z * Z) : Z * Z :=
  let (s, n) := j in
  if (s <? 0) || (n <? 0) then
    let s' := - Z.abs s in let n' := - Z.abs n in
    if n' <? 0 then (s' - 1, n' + NS) else (s', n')
  else (s, n).

(* filetime: FileTime::from_system_time: duration_since(UNIX_EPOCH), and for times before the
   epoch `seconds = -secs + (if nanos == 0 {0} else {-1})`, `nanos = 10^9 - nanos` *)
Definition filetime_of_system_time (t : Z * Z) : Z * Z :=
  let '(ok, (s, n)) := duration_since_epoch t in
  if ok then (s, n)
  else if n =? 0 then (- s, 0) else (- s - 1, NS - n).

(* set_times.  `direct = false` is the source as pinned:
   FileTime::from_system_time(mtime.into()).  `direct = true` builds the FileTime from the
   Timestamp's fields: FileTime::from_unix_time(t.as_second(), t.subsec_nanosecond().unsigned_abs()). *)
Definition restore_time (direct : bool) (j : Z * Z) : Z * Z :=
  if direct then (fst j, Z.abs (snd j))
  else filetime_of_system_time (system_time_of j).

(* ------------------------------------------------------------------ Part 6: a file's content *)
Local Open Scope N_scope.

(* reading a file back: node.content is the list of data blob ids; every id is looked up in the
   (typed) index and the blob fetched (dump, read_at, restore all start like this) *)
Fixpoint read_blobs (s : st) (ids : list N) : option (list bytes) :=
  match ids with
  | [] => Some []
  | id :: r =>
    match get_blob s Data id, read_blobs s r with
    | Some d, Some l => Some (d :: l)
    | _, _ => None
    end
  end.

(* ------------------------------------------------------------------ Part 7: the tree backup writes *)

(* tree_archiver: one node per source entry, `Node::new_node(name, ..)` stores escape_filename(name);
   entries arrive sorted by their (raw) name *)
Definition mk_node (e : bytes * option N * N) : node :=
  let '(raw, sub, tag) := e in mknode (escape raw) sub tag.
Definition backup_tree (entries : list (bytes * option N * N)) : list node := map mk_node entries.
