(* C01 — from the source bytes of a file to the bytes every read-back returns:
   chunker (property C06's model and theorems) -> data packer / indexer -> index lookup -> dump / read_at. *)
From Verif.Base Require Import Tactics.
From Verif.C06 Require Extracted Model Spec Proofs4.
From Verif.C01 Require Import Model ModelTree ProofsRead ProofsPipe.
Local Open Scope N_scope.

Module C6 := Verif.C06.Model.
Module C6S := Verif.C06.Spec.

(* what the read-back functions return for a chunk list *)
Definition reads_back (cs : list bytes) (src : bytes) : Prop :=
  dump cs = src /\
  (blen src < USIZE_MAX -> forall off len, off <= USIZE_MAX ->
     read_at cs off len = firstn (N.to_nat len) (skipn (N.to_nat off) src)).

Lemma concat_reads_back cs src : concat cs = src -> reads_back cs src.
Proof.
  intros <-. split; [apply dump_is_concat_lemma|].
  intros Hlen off len Hoff. apply read_at_is_slice_lemma; assumption.
Qed.

(* rabin: every accepted parameter set, polynomial, size hint, arithmetic mode, read schedule *)
Lemma file_content_roundtrip_rabin_lemma : forall md P avg mn mx hint src sched,
  C6.rabin_accepts avg mn mx = true ->
  exists cs, C6.chunks_impl md (C6.Build_cparams P avg mn mx) hint src sched = C6.Ok cs /\ reads_back cs src.
Proof.
  intros md P avg mn mx hint src sched Hacc.
  destruct (Verif.C06.Proofs4.accepted_rabin_partition_lemma md P avg mn mx hint src sched Hacc) as [H1 [H2 _]].
  eexists. split; [exact H1|]. apply concat_reads_back. exact H2.
Qed.

(* fixed-size chunker *)
Lemma file_content_roundtrip_fixed_lemma : forall size hint src sched,
  C6.fixed_accepts size = true ->
  exists cs, C6.fixed_impl size hint src sched = Some cs /\ reads_back cs src.
Proof.
  intros size hint src sched Hacc.
  destruct (Verif.C06.Proofs4.accepted_fixed_partition_lemma size hint src sched Hacc) as [H1 [H2 _]].
  eexists. split; [exact H1|]. apply concat_reads_back. exact H2.
Qed.

(* the chunks go through the data packer under the id `H chunk`; after finalize the content list
   `map H cs` reads back as `cs` *)
Lemma read_blobs_stored (H : bytes -> N) typed evs cs :
  (typed = false -> NoCrossTypeCollision (added evs)) ->
  Consistent (added evs) -> complete (run typed evs) = true ->
  (forall c, In c cs -> In (EAdd Data (H c) c) evs) ->
  read_blobs (run typed evs) (map H cs) = Some cs.
Proof.
  intros NC HC Hcomp. induction cs as [|c r IH]; intro Hall; [reflexivity|].
  cbn [map read_blobs].
  rewrite (roundtrip_general typed evs NC HC Hcomp Data (H c) c) by (apply Hall; left; reflexivity).
  rewrite IH by (intros x Hx; apply Hall; right; assumption). reflexivity.
Qed.

Lemma source_to_readback_rabin_gen (H : bytes -> N) typed : forall md P avg mn mx hint src sched evs,
  C6.rabin_accepts avg mn mx = true ->
  (typed = false -> NoCrossTypeCollision (added evs)) ->
  Consistent (added evs) -> complete (run typed evs) = true ->
  exists cs, C6.chunks_impl md (C6.Build_cparams P avg mn mx) hint src sched = C6.Ok cs /\
    ((forall c, In c cs -> In (EAdd Data (H c) c) evs) ->
     exists blobs, read_blobs (run typed evs) (map H cs) = Some blobs /\ reads_back blobs src).
Proof.
  intros md P avg mn mx hint src sched evs Hacc NC HC Hcomp.
  destruct (file_content_roundtrip_rabin_lemma md P avg mn mx hint src sched Hacc) as [cs [H1 H2]].
  exists cs. split; [exact H1|]. intro Hall. exists cs. split; [|exact H2].
  apply read_blobs_stored; assumption.
Qed.

Lemma source_to_readback_fixed_gen (H : bytes -> N) typed : forall size hint src sched evs,
  C6.fixed_accepts size = true ->
  (typed = false -> NoCrossTypeCollision (added evs)) ->
  Consistent (added evs) -> complete (run typed evs) = true ->
  exists cs, C6.fixed_impl size hint src sched = Some cs /\
    ((forall c, In c cs -> In (EAdd Data (H c) c) evs) ->
     exists blobs, read_blobs (run typed evs) (map H cs) = Some blobs /\ reads_back blobs src).
Proof.
  intros size hint src sched evs Hacc NC HC Hcomp.
  destruct (file_content_roundtrip_fixed_lemma size hint src sched Hacc) as [cs [H1 H2]].
  exists cs. split; [exact H1|]. intro Hall. exists cs. split; [|exact H2].
  apply read_blobs_stored; assumption.
Qed.
