(* C01 — extraction of the executable models (ExtrOcamlBasic only). *)
Require Extraction.
Require Import ExtrOcamlBasic.
From Coq Require Import ZArith.
From Verif.C01 Require Import Model Extracted.
Extraction "model_ml.ml" escape unescape node_name utf8_valid read_at dump step st0 run complete get_blob added
  consistent_b no_cross_b all_retrievable_b indexed_typed written Z.of_N.
