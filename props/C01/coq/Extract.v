(* C01 — extraction of the executable models (ExtrOcamlBasic only). *)
Require Extraction.
Require Import ExtrOcamlBasic.
From Coq Require Import ZArith.
From Verif.C01 Require Import Model ModelTree Extracted.
Extraction "model_ml.ml" escape unescape node_name utf8_valid read_at dump step st0 run complete get_blob added
  consistent_b no_cross_b all_retrievable_b indexed_typed written Z.of_N
  ls node_from_path lookup_binary_search lookup_compares_stored capture restore_time restore_time_direct read_blobs.
