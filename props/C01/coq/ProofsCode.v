(* C01 — the pipeline theorem instantiated with the `indexed` set the source has now
   (Extracted.indexed_typed, regenerated from index/indexer.rs on every run), the refutation
   witness for the untyped set, and examples showing the hypotheses are satisfiable. *)
From Verif.Base Require Import Tactics.
From Verif.C06 Require Model.
From Verif.C01 Require Import Model ModelTree Extracted ProofsNames ProofsRead ProofsPipe ProofsTree ProofsTreeBS ProofsTime ProofsFile.
Local Open Scope N_scope.

(* Holds by computation only while the source keeps a typed set; with an untyped set this
   lemma no longer checks and the check falls back to the search for a failing input. *)
Lemma roundtrip_current_code_lemma : forall evs,
  Consistent (added evs) ->
  complete (run indexed_typed evs) = true ->
  forall t id d, In (EAdd t id d) evs -> get_blob (run indexed_typed evs) t id = Some d.
Proof.
  intros evs. apply roundtrip_general. intro H. unfold indexed_typed in H. discriminate H.
Qed.

(* the schedule of DESIGN section 7 row 6: the data pack holding id 7 is written and indexed
   before the tree blob with the same id (and the same bytes) reaches the tree packer *)
Definition collision_schedule : list ev :=
  [EAdd Data 7 [123; 125]; EFilter Data; EPack Data; EFlush Data; EWrite Data; EIndex Data;
   EAdd Tree 7 [123; 125]; EFilter Tree; EPack Tree; EFlush Tree; EWrite Tree; EIndex Tree].

Lemma consistent_b_sound l : consistent_b l = true -> Consistent l.
Proof.
  unfold consistent_b, Consistent. intros H a b Ha Hb E.
  rewrite forallb_forall in H. specialize (H a Ha). rewrite forallb_forall in H. specialize (H b Hb).
  destruct (list_eq_dec N.eq_dec (b_data a) (b_data b)) as [e|n]; [exact e|].
  rewrite orb_false_r in H. apply negb_true_iff, N.eqb_neq in H. contradiction.
Qed.

Lemma no_cross_b_sound l : no_cross_b l = true -> NoCrossTypeCollision l.
Proof.
  unfold no_cross_b, NoCrossTypeCollision. intros H a b Ha Hb E.
  rewrite forallb_forall in H. specialize (H a Ha). rewrite forallb_forall in H. specialize (H b Hb).
  apply orb_true_iff in H. destruct H as [H|H].
  - apply negb_true_iff, N.eqb_neq in H. contradiction.
  - apply btype_eqb_eq. assumption.
Qed.

Lemma roundtrip_collision_refuted_lemma :
  exists evs, Consistent (added evs) /\ complete (run false evs) = true /\
    exists t id d, In (EAdd t id d) evs /\ get_blob (run false evs) t id = None.
Proof.
  exists collision_schedule. split; [apply consistent_b_sound; vm_compute; reflexivity|].
  split; [vm_compute; reflexivity|].
  exists Tree, 7, [123; 125]. split; [vm_compute; tauto | vm_compute; reflexivity].
Qed.

(* the same schedule with the typed set keeps both blobs *)
Example collision_schedule_typed_ok :
  all_retrievable_b (run true collision_schedule) (added collision_schedule) = true.
Proof. vm_compute. reflexivity. Qed.

(* hypotheses are satisfiable *)
Example ex_names : bytes_ok [97; 92; 34; 255; 10; 195; 169; 226] /\
  escape [97; 92; 34; 255; 10; 195; 169; 226] = [97; 92; 92; 92; 34; 92; 120; 102; 102; 92; 110; 195; 169; 92; 120; 101; 50].
Proof. split; [repeat constructor | vm_compute; reflexivity]. Qed.

Example ex_read : read_at [[1; 2; 3]; []; []; [4; 5; 6; 7]] 2 3 = [3; 4; 5]
  /\ read_at [[1; 2; 3]; []; []; [4; 5; 6; 7]] 3 100 = [4; 5; 6; 7]
  /\ read_at [[1; 2; 3]; [4; 5; 6; 7]] 10 1 = []
  /\ read_at [[1; 2; 3]] USIZE_MAX 1 = [].
Proof. vm_compute. repeat split; reflexivity. Qed.

Example ex_pipe :
  let evs := [EAdd Data 1 [9]; EAdd Tree 2 [8]; EFilter Data; EFilter Tree; EPack Tree; EPack Data;
              EAdd Data 1 [9]; EFilter Data; EFlush Data; EFlush Tree; EWrite Tree; EWrite Data;
              EIndex Data; EIndex Tree] in
  consistent_b (added evs) = true /\ no_cross_b (added evs) = true /\
  complete (run false evs) = true /\ complete (run true evs) = true.
Proof. vm_compute. repeat split; reflexivity. Qed.

Example ex_partition_point : partition_point (fun i => Nat.ltb i 3) 7 = 3%nat.
Proof. vm_compute. reflexivity. Qed.

(* ---- path lookup as the source does it now (Extracted.lookup_*: regenerated from blob/tree.rs).
   Checks by computation while the lookup is one of the proved variants (a scan); only a
   binary search on the escaped names (seeded change C01-2) makes `lookup_proved2` false. *)
Lemma node_from_path_finds_listed_lemma : forall R fuel root path n, wf_repo_sorted R ->
  In (path, n) (ls fuel R root) ->
  node_from_path lookup_binary_search lookup_compares_stored R root path = Some n.
Proof. apply node_from_path_finds_listed_gen2. reflexivity. Qed.

(* the per-component step of find_nodes_from_path is the same lookup *)
Lemma find_nodes_finds_listed_lemma : forall R fuel root path n, wf_repo_sorted R ->
  In (path, n) (ls fuel R root) ->
  node_from_path find_nodes_binary_search find_nodes_compares_stored R root path = Some n.
Proof. apply node_from_path_finds_listed_gen2. reflexivity. Qed.

(* ---- times as the source converts them now (Extracted.restore_time_direct from set_times) *)
Lemma mtime_roundtrip_current_code_lemma : forall s n, (0 <= n < NS)%Z -> (JIFF_MIN <= s)%Z -> (s <= JIFF_MAX)%Z ->
  exists j, capture (s, n) = Some j /\ restore_time restore_time_direct j = (s, n).
Proof.
  assert (E : restore_time_direct = false) by reflexivity. rewrite E. exact mtime_roundtrip_lemma.
Qed.

(* ---- source bytes -> read-back bytes, with the indexer the source has now *)
Lemma backup_file_readback_rabin_lemma (H : bytes -> N) : forall md P avg mn mx hint src sched evs,
  Verif.C06.Model.rabin_accepts avg mn mx = true ->
  Consistent (added evs) -> complete (run indexed_typed evs) = true ->
  exists cs, Verif.C06.Model.chunks_impl md (Verif.C06.Model.Build_cparams P avg mn mx) hint src sched = Verif.C06.Model.Ok cs /\
    ((forall c, In c cs -> In (EAdd Data (H c) c) evs) ->
     exists blobs, read_blobs (run indexed_typed evs) (map H cs) = Some blobs /\ reads_back blobs src).
Proof.
  intros md P avg mn mx hint src sched evs Hacc. apply source_to_readback_rabin_gen; [assumption|].
  intro E. unfold indexed_typed in E. discriminate E.
Qed.

Lemma backup_file_readback_fixed_lemma (H : bytes -> N) : forall size hint src sched evs,
  Verif.C06.Model.fixed_accepts size = true ->
  Consistent (added evs) -> complete (run indexed_typed evs) = true ->
  exists cs, Verif.C06.Model.fixed_impl size hint src sched = Some cs /\
    ((forall c, In c cs -> In (EAdd Data (H c) c) evs) ->
     exists blobs, read_blobs (run indexed_typed evs) (map H cs) = Some blobs /\ reads_back blobs src).
Proof.
  intros size hint src sched evs Hacc. apply source_to_readback_fixed_gen; [assumption|].
  intro E. unfold indexed_typed in E. discriminate E.
Qed.

(* hypotheses are satisfiable: a two-chunk file through the data packer and back *)
Example ex_file_readback :
  let H := fun c : bytes => match c with [] => 0 | b :: _ => b + 1 end in
  let cs := [[1; 2; 3]; [7; 8]] in
  let evs := [EAdd Data (H [1; 2; 3]) [1; 2; 3]; EAdd Data (H [7; 8]) [7; 8]; EFilter Data; EFilter Data;
              EPack Data; EPack Data; EFlush Data; EWrite Data; EIndex Data] in
  consistent_b (added evs) = true /\ complete (run indexed_typed evs) = true /\
  read_blobs (run indexed_typed evs) (map H cs) = Some cs /\ dump cs = [1; 2; 3; 7; 8] /\
  read_at cs 2 2 = [3; 7].
Proof. vm_compute. repeat split; reflexivity. Qed.
