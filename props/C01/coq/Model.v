(* C01 — executable models (definitions only, no proofs).

   Part 1  node-name codec     backend/node.rs  escape_filename / unescape_filename (unix)
   Part 2  ranged reads        vfs.rs           ContentStartpoints, compute_start, OpenFile::read_at;
                               commands/dump.rs dump
   Part 3  packer / indexer    blob/packer.rs Packer::new thread pipeline, RawPacker, Actor;
                               index/indexer.rs Indexer::{has, add_with}

   Bytes are N (< 256 by the well-formedness predicate bytes_ok). *)
From Verif.Base Require Import Tactics.
Local Open Scope N_scope.

Definition bytes := list N.
Definition bytes_ok (s : bytes) : Prop := Forall (fun b => b < 256) s.

(* ------------------------------------------------------------------ Part 1: names *)

(* `push` closure of escape_filename, for one ASCII char *)
Definition esc_ascii (b : N) : bytes :=
  if b =? 92 then [92; 92]            (* '\\' => "\\\\" *)
  else if b =? 34 then [92; 34]       (* '"'  => "\\\"" *)
  else if b =? 7 then [92; 97]        (* \a *)
  else if b =? 8 then [92; 98]        (* \b *)
  else if b =? 12 then [92; 102]      (* \f *)
  else if b =? 10 then [92; 110]      (* \n *)
  else if b =? 13 then [92; 114]      (* \r *)
  else if b =? 9 then [92; 116]       (* \t *)
  else if b =? 11 then [92; 118]      (* \v *)
  else [b].

Definition hexdigit (d : N) : N := if d <? 10 then 48 + d else 87 + d.   (* {b:02x}: lower case *)
(* write!(s, "\\x{b:02x}") *)
Definition hex (b : N) : bytes := [92; 120; hexdigit (b / 16); hexdigit (b mod 16)].
Definition hexs (s : bytes) : bytes := flat_map hex s.

Definition is_cont (b : N) : bool := (128 <=? b) && (b <=? 191).   (* `next!() as i8 >= -64` is its negation *)

(* second byte admissible after a 3-byte / 4-byte lead (core::str::validations::run_utf8_validation) *)
Definition ok3 (b0 b1 : N) : bool :=
  ((b0 =? 224) && (160 <=? b1) && (b1 <=? 191))
  || ((225 <=? b0) && (b0 <=? 236) && (128 <=? b1) && (b1 <=? 191))
  || ((b0 =? 237) && (128 <=? b1) && (b1 <=? 159))
  || ((238 <=? b0) && (b0 <=? 239) && (128 <=? b1) && (b1 <=? 191)).
Definition ok4 (b0 b1 : N) : bool :=
  ((b0 =? 240) && (144 <=? b1) && (b1 <=? 191))
  || ((241 <=? b0) && (b0 <=? 243) && (128 <=? b1) && (b1 <=? 191))
  || ((b0 =? 244) && (128 <=? b1) && (b1 <=? 143)).

(* utf8_char_width *)
Definition char_width (b : N) : N :=
  if b <? 128 then 1
  else if (194 <=? b) && (b <=? 223) then 2
  else if (224 <=? b) && (b <=? 239) then 3
  else if (240 <=? b) && (b <=? 244) then 4
  else 0.

(* escape_filename: `loop { match from_utf8(input) ... }`.  from_utf8 accepts the maximal
   valid prefix (pushed char by char through `push`), then reports the invalid sequence:
   error_len() = Some(1..3) -> those bytes become \xHH and the loop continues behind them;
   error_len() = None (input ends inside a character) -> all remaining bytes become \xHH.
   Written as one structural recursion: one character / one invalid sequence per step. *)
Fixpoint escape (s : bytes) : bytes :=
  match s with
  | [] => []
  | b0 :: r0 =>
    let w := char_width b0 in
    if w =? 1 then esc_ascii b0 ++ escape r0
    else if w =? 2 then
      match r0 with
      | [] => hexs s
      | b1 :: r1 => if is_cont b1 then b0 :: b1 :: escape r1 else hex b0 ++ escape r0
      end
    else if w =? 3 then
      match r0 with
      | [] => hexs s
      | b1 :: r1 =>
        if ok3 b0 b1 then
          match r1 with
          | [] => hexs s
          | b2 :: r2 => if is_cont b2 then b0 :: b1 :: b2 :: escape r2
                        else hex b0 ++ hex b1 ++ escape r1
          end
        else hex b0 ++ escape r0
      end
    else if w =? 4 then
      match r0 with
      | [] => hexs s
      | b1 :: r1 =>
        if ok4 b0 b1 then
          match r1 with
          | [] => hexs s
          | b2 :: r2 =>
            if is_cont b2 then
              match r2 with
              | [] => hexs s
              | b3 :: r3 => if is_cont b3 then b0 :: b1 :: b2 :: b3 :: escape r3
                            else hex b0 ++ hex b1 ++ hex b2 ++ escape r2
              end
            else hex b0 ++ hex b1 ++ escape r1
          end
        else hex b0 ++ escape r0
      end
    else hex b0 ++ escape r0
  end.

(* validity of a byte string as UTF-8 (same validation automaton), used to state that
   escape_filename really produces a `String` on which the char-wise unescape below and the
   byte-wise model coincide *)
Fixpoint utf8_valid (s : bytes) : bool :=
  match s with
  | [] => true
  | b0 :: r0 =>
    let w := char_width b0 in
    if w =? 1 then utf8_valid r0
    else if w =? 2 then
      match r0 with b1 :: r1 => is_cont b1 && utf8_valid r1 | _ => false end
    else if w =? 3 then
      match r0 with b1 :: b2 :: r2 => ok3 b0 b1 && is_cont b2 && utf8_valid r2 | _ => false end
    else if w =? 4 then
      match r0 with b1 :: b2 :: b3 :: r3 => ok4 b0 b1 && is_cont b2 && is_cont b3 && utf8_valid r3 | _ => false end
    else false
  end.

(* unescape_filename.  The Rust code walks `s.chars()`; every char that is not a backslash is
   re-encoded to the bytes it came from, and a backslash is never part of a multi-byte
   character, so on a valid `String` the walk is the byte walk below.  `take(&mut chars, n)`
   followed by from_str_radix fails as soon as one of the n chars is missing (padded with NUL)
   or not ASCII, which is what taking n bytes and parsing them does. *)
Definition simple_escape (e : N) : option N :=
  if e =? 92 then Some 92 else if e =? 34 then Some 34 else if e =? 39 then Some 39
  else if e =? 96 then Some 96 else if e =? 97 then Some 7 else if e =? 98 then Some 8
  else if e =? 102 then Some 12 else if e =? 110 then Some 10 else if e =? 114 then Some 13
  else if e =? 116 then Some 9 else if e =? 118 then Some 11 else None.

Definition hexval (c : N) : option N :=
  if (48 <=? c) && (c <=? 57) then Some (c - 48)
  else if (97 <=? c) && (c <=? 102) then Some (c - 87)
  else if (65 <=? c) && (c <=? 70) then Some (c - 55)
  else None.
Fixpoint parse_digits (acc : N) (s : bytes) : option N :=
  match s with
  | [] => Some acc
  | c :: r => match hexval c with Some v => parse_digits (acc * 16 + v) r | None => None end
  end.
(* uN::from_str_radix(s, 16) for unsigned N: one optional leading '+', then >= 1 digits
   (2, 4 or 8 hex digits never overflow u8 / u32 / u32) *)
Definition from_str_radix16 (s : bytes) : option N :=
  match s with
  | [] => None
  | c :: r => if c =? 43 then (match r with [] => None | _ => parse_digits 0 r end)
              else parse_digits 0 s
  end.
(* char::from_u32 + encode_utf8 *)
Definition encode_utf8 (n : N) : option bytes :=
  if n <? 128 then Some [n]
  else if n <? 2048 then Some [192 + n / 64; 128 + n mod 64]
  else if n <? 65536 then
    if (55296 <=? n) && (n <=? 57343) then None
    else Some [224 + n / 4096; 128 + (n / 64) mod 64; 128 + n mod 64]
  else if n <? 1114112 then Some [240 + n / 262144; 128 + (n / 4096) mod 64; 128 + (n / 64) mod 64; 128 + n mod 64]
  else None.

Definition ocons (b : N) (o : option bytes) : option bytes :=
  match o with Some l => Some (b :: l) | None => None end.
Definition oapp (p : bytes) (o : option bytes) : option bytes :=
  match o with Some l => Some (p ++ l) | None => None end.
Definition unicode_escape (digits : bytes) (rest : option bytes) : option bytes :=
  match from_str_radix16 digits with
  | Some n => match encode_utf8 n with Some e => oapp e rest | None => None end
  | None => None
  end.

(* the main loop (None = Err) *)
Fixpoint unescape_go (s : bytes) : option bytes :=
  match s with
  | [] => Some []
  | c :: r =>
    if c =? 92 then
      match r with
      | [] => None                                               (* UnexpectedEOF *)
      | e :: r1 =>
        match simple_escape e with
        | Some b => ocons b (unescape_go r1)
        | None =>
          if e =? 120 then                                       (* 'x' *)
            match r1 with
            | h1 :: h2 :: r2 =>
              match from_str_radix16 [h1; h2] with
              | Some v => ocons v (unescape_go r2)
              | None => None
              end
            | _ => None
            end
          else if e =? 117 then                                  (* 'u' *)
            match r1 with
            | h1 :: h2 :: h3 :: h4 :: r2 => unicode_escape [h1; h2; h3; h4] (unescape_go r2)
            | _ => None
            end
          else if e =? 85 then                                   (* 'U' *)
            match r1 with
            | h1 :: h2 :: h3 :: h4 :: h5 :: h6 :: h7 :: h8 :: r2 =>
              unicode_escape [h1; h2; h3; h4; h5; h6; h7; h8] (unescape_go r2)
            | _ => None
            end
          else None                                              (* UnrecognizedEscape *)
        end
      end
    else ocons c (unescape_go r)
  end.

(* `if !s.contains('\\') { return Ok(Borrowed(s)) }` then the loop *)
Definition unescape (s : bytes) : option bytes :=
  if existsb (N.eqb 92) s then unescape_go s else Some s.

(* Node::name(): unescape, falling back to the stored name on error *)
Definition node_name (stored : bytes) : bytes :=
  match unescape stored with Some n => n | None => stored end.

(* ------------------------------------------------------------------ Part 2: ranged reads *)

Definition USIZE_MAX : N := 18446744073709551615.

Definition blen (d : bytes) : N := N.of_nat (length d).

(* ContentStartpoints::from_sizes *)
Fixpoint starts_from (start : N) (sizes : list N) : list N :=
  match sizes with
  | [] => []
  | sz :: r => start :: starts_from (start + sz) r
  end.
Definition from_sizes (sizes : list N) : list N :=
  match starts_from 0 sizes with
  | [] => []
  | o => o ++ [USIZE_MAX]
  end.

(* slice::partition_point = binary_search_by(|x| if pred(x) { Less } else { Greater }) — the
   loop of core::slice::binary_search_by: `while size > 1 { half = size / 2; mid = base + half;
   base = if cmp == Greater { base } else { mid }; size -= half }`, then one last probe.
   `fuel` bounds the number of iterations (size halves, so `size` itself is enough). *)
Fixpoint bs_loop (fuel : nat) (p : nat -> bool) (base size : nat) : nat :=
  match fuel with
  | O => base
  | S f =>
    if Nat.leb size 1 then base
    else
      let half := Nat.div size 2 in
      let mid := (base + half)%nat in
      bs_loop f p (if p mid then mid else base) (size - half)
  end.
Definition partition_point (p : nat -> bool) (len : nat) : nat :=
  match len with
  | O => O
  | _ => let base := bs_loop len p 0 len in
         if p base then S base else base
  end.

(* ContentStartpoints::compute_start *)
Definition compute_start (offsets : list N) (offset : N) : nat * N :=
  match offsets with
  | [] => (O, 0)
  | _ =>
    let i := Nat.pred (partition_point (fun k => nth k offsets 0 <=? offset) (length offsets)) in
    (i, offset - nth i offsets 0)
  end.

Definition slice (d : bytes) (off n : N) : bytes := firstn (N.to_nat n) (skipn (N.to_nat off) d).

(* the `while length > 0 && i < self.content.len()` loop of OpenFile::read_at, over the blobs
   from index i on *)
Fixpoint read_loop (blobs : list bytes) (offset length : N) : bytes :=
  match blobs with
  | [] => []
  | d :: r =>
    if length =? 0 then []
    else if blen d <? offset then []                     (* `if offset > data.len() { break }` *)
    else
      let to_copy := N.min (blen d - offset) length in
      slice d offset to_copy ++ read_loop r 0 (length - to_copy)
  end.

Definition read_at (blobs : list bytes) (offset length : N) : bytes :=
  let '(i, o) := compute_start (from_sizes (map blen blobs)) offset in
  read_loop (skipn i blobs) o length.

(* dump / dump_sequential: blobs written to the writer in content order (parallel_map keeps order) *)
Definition dump (blobs : list bytes) : bytes :=
  fold_left (fun w d => w ++ d) blobs [].

(* ------------------------------------------------------------------ Part 3: packer / indexer *)

Inductive btype := Tree | Data.
Definition btype_eqb (a b : btype) : bool :=
  match a, b with Tree, Tree | Data, Data => true | _, _ => false end.

Record blob := mkblob { b_tpe : btype; b_id : N; b_data : bytes }.
Definition pack := list blob.

(* one Packer (thread pipeline of Packer::new + RawPacker + file-writer Actor) *)
Record pk := mkpk {
  q1 : list blob;     (* sent on the channel, before the early filters *)
  q2 : list blob;     (* passed `!indexer.has` and `!raw_packer.has`, in/behind process_data *)
  cur : pack;         (* BasicPacker: blobs of the pack being filled *)
  wq : list pack;     (* taken by save(), queued at the file writer *)
  pend : list pack    (* write_bytes done, indexer.add not yet called *)
}.
Definition pk0 := mkpk [] [] [] [] [].

Record st := mkst {
  pD : pk; pT : pk;                (* data packer, tree packer of one run *)
  written : list pack;             (* pack files on the backend *)
  indexed : list (btype * N);      (* Indexer.indexed *)
  idx : list pack                  (* IndexFile.packs (all index files of the run) *)
}.
Definition st0 := mkst pk0 pk0 [] [] [].

Definition get_pk (t : btype) (s : st) : pk := match t with Data => pD s | Tree => pT s end.
Definition set_pk (t : btype) (p : pk) (s : st) : st :=
  match t with
  | Data => mkst p (pT s) (written s) (indexed s) (idx s)
  | Tree => mkst (pD s) p (written s) (indexed s) (idx s)
  end.

(* The key under which Indexer.indexed remembers a blob.  `typed = false` is the code as
   pinned (BTreeSet<BlobId>): the type is forgotten.  `typed = true` is a set of (type, id). *)
Definition ikey (typed : bool) (t : btype) (id : N) : btype * N :=
  (if typed then t else Data, id).
Definition key_eqb (a b : btype * N) : bool := btype_eqb (fst a) (fst b) && (snd a =? snd b).
Definition indexer_has (typed : bool) (s : st) (t : btype) (id : N) : bool :=
  existsb (key_eqb (ikey typed t id)) (indexed s).
(* BasicPacker::has *)
Definition pack_has (p : pack) (id : N) : bool := existsb (fun b => b_id b =? id) p.

Inductive ev :=
| EAdd (t : btype) (id : N) (d : bytes)   (* Packer::add: blob sent to packer t *)
| EFilter (t : btype)      (* head of q1: `.filter(!indexer.has).filter(!raw_packer.has)` *)
| EPack (t : btype)        (* head of q2: third filter `!indexer.has`, then RawPacker::add_raw *)
| EFlush (t : btype)       (* should_save() or finalize: save() hands the pack to the file writer *)
| EWrite (t : btype)       (* file writer: write_bytes(Pack) *)
| EIndex (t : btype).      (* file writer: indexer.add(index) *)

Definition step (typed : bool) (s : st) (e : ev) : st :=
  match e with
  | EAdd t id d =>
    let p := get_pk t s in
    set_pk t (mkpk (q1 p ++ [mkblob t id d]) (q2 p) (cur p) (wq p) (pend p)) s
  | EFilter t =>
    let p := get_pk t s in
    match q1 p with
    | [] => s
    | b :: r =>
      if indexer_has typed s t (b_id b) || pack_has (cur p) (b_id b)
      then set_pk t (mkpk r (q2 p) (cur p) (wq p) (pend p)) s
      else set_pk t (mkpk r (q2 p ++ [b]) (cur p) (wq p) (pend p)) s
    end
  | EPack t =>
    let p := get_pk t s in
    match q2 p with
    | [] => s
    | b :: r =>
      if indexer_has typed s t (b_id b) || pack_has (cur p) (b_id b)
      then set_pk t (mkpk (q1 p) r (cur p) (wq p) (pend p)) s
      else set_pk t (mkpk (q1 p) r (cur p ++ [b]) (wq p) (pend p)) s
    end
  | EFlush t =>
    let p := get_pk t s in
    match cur p with
    | [] => s                                   (* `if !self.basic.is_empty()` / count >= 1 *)
    | _ => set_pk t (mkpk (q1 p) (q2 p) [] (wq p ++ [cur p]) (pend p)) s
    end
  | EWrite t =>
    let p := get_pk t s in
    match wq p with
    | [] => s
    | pkf :: r =>
      let s' := set_pk t (mkpk (q1 p) (q2 p) (cur p) r (pend p ++ [pkf])) s in
      mkst (pD s') (pT s') (written s ++ [pkf]) (indexed s) (idx s)
    end
  | EIndex t =>
    let p := get_pk t s in
    match pend p with
    | [] => s
    | pkf :: r =>
      let s' := set_pk t (mkpk (q1 p) (q2 p) (cur p) (wq p) r) s in
      mkst (pD s') (pT s') (written s)
           (indexed s ++ map (fun b => ikey typed (b_tpe b) (b_id b)) pkf) (idx s ++ [pkf])
    end
  end.

Definition run (typed : bool) (evs : list ev) : st := fold_left (step typed) evs st0.

Definition pk_empty (p : pk) : bool :=
  match q1 p, q2 p, cur p, wq p, pend p with [], [], [], [], [] => true | _, _, _, _, _ => false end.
(* after Packer::finalize of both packers (channels drained, last pack saved, writer joined) *)
Definition complete (s : st) : bool := pk_empty (pD s) && pk_empty (pT s).

(* read-back: typed index lookup (index.get_id(tpe, id)) over the packs listed by the index,
   then the blob at that place *)
Definition blob_is (t : btype) (id : N) (b : blob) : bool := btype_eqb (b_tpe b) t && (b_id b =? id).
Definition get_blob (s : st) (t : btype) (id : N) : option bytes :=
  match find (blob_is t id) (concat (idx s)) with
  | Some b => Some (b_data b)
  | None => None
  end.

(* the blobs handed to the packers by a schedule *)
Fixpoint added (evs : list ev) : list blob :=
  match evs with
  | [] => []
  | EAdd t id d :: r => mkblob t id d :: added r
  | _ :: r => added r
  end.

(* executable forms of the hypotheses (evaluated by the check on observed runs) *)
Definition consistent_b (l : list blob) : bool :=
  forallb (fun a => forallb (fun b => negb (b_id a =? b_id b) || (if list_eq_dec N.eq_dec (b_data a) (b_data b) then true else false)) l) l.
Definition no_cross_b (l : list blob) : bool :=
  forallb (fun a => forallb (fun b => negb (b_id a =? b_id b) || btype_eqb (b_tpe a) (b_tpe b)) l) l.
Definition all_retrievable_b (s : st) (l : list blob) : bool :=
  forallb (fun b => match get_blob s (b_tpe b) (b_id b) with
                    | Some d => if list_eq_dec N.eq_dec d (b_data b) then true else false
                    | None => false end) l.
