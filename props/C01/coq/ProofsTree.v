(* C01 — path lookup: every entry the listing (NodeStreamer) shows is found by
   Tree::node_from_path under the path the listing gives it, and it is that very node. *)
From Verif.Base Require Import Tactics.
From Verif.C01 Require Import Model ModelTree ProofsNames.
Local Open Scope N_scope.

Definition raw_name (n : node) : bytes := node_name (n_name n).
(* a directory: no two entries with the same (unescaped) name *)
Definition names_distinct (nodes : list node) : Prop := NoDup (map raw_name nodes).
(* the stored names are what escape_filename produces *)
Definition names_escaped (nodes : list node) : Prop :=
  forall n, In n nodes -> exists raw, bytes_ok raw /\ n_name n = escape raw.

Lemma bytes_eqb_eq a b : bytes_eqb a b = true <-> a = b.
Proof.
  revert b. induction a as [|x a IH]; destruct b as [|y b]; cbn [bytes_eqb]; try (split; intro; congruence).
  rewrite andb_true_iff, IH, N.eqb_eq. split; [intros [-> ->]; reflexivity | intro H; inversion H; auto].
Qed.

Lemma find_unique {A} (key : A -> bytes) (l : list A) (n : A) :
  NoDup (map key l) -> In n l -> find (fun m => bytes_eqb (key m) (key n)) l = Some n.
Proof.
  induction l as [|a l IH]; intros ND Hin; [contradiction|].
  cbn [map] in ND. inversion ND as [|? ? Hnotin ND']; subst.
  cbn [find]. destruct (bytes_eqb (key a) (key n)) eqn:E.
  - apply bytes_eqb_eq in E. destruct Hin as [->|Hin]; [reflexivity|].
    exfalso. apply Hnotin. rewrite E. apply in_map. assumption.
  - destruct Hin as [->|Hin].
    + assert (bytes_eqb (key n) (key n) = true) by (apply bytes_eqb_eq; reflexivity). congruence.
    + apply IH; assumption.
Qed.

Lemma NoDup_map_compose {A B C} (g : A -> B) (h : B -> C) (l : list A) :
  NoDup (map (fun x => h (g x)) l) -> NoDup (map g l).
Proof.
  induction l as [|a l IH]; cbn [map]; intro H; [constructor|].
  inversion H as [|? ? Hn H']; subst. constructor; [|apply IH; assumption].
  intro Hin. apply Hn. apply in_map_iff in Hin. destruct Hin as [x [E Hx]].
  apply in_map_iff. exists x. split; [rewrite E; reflexivity | assumption].
Qed.

(* ---- one lookup step, scanning *)
Lemma lookup_scan_unescaped nodes n :
  names_distinct nodes -> In n nodes -> lookup false false (raw_name n) nodes = Some n.
Proof.
  intros ND Hin. unfold lookup. cbn [node_key].
  apply (find_unique raw_name nodes n ND Hin).
Qed.

Lemma lookup_scan_stored nodes n :
  names_distinct nodes -> names_escaped nodes -> In n nodes -> lookup false true (raw_name n) nodes = Some n.
Proof.
  intros ND NE Hin. unfold lookup. cbn [node_key].
  destruct (NE n Hin) as [raw [Hok Hn]].
  assert (Hraw : raw_name n = raw) by (unfold raw_name; rewrite Hn; apply node_name_roundtrip_lemma; assumption).
  rewrite Hraw, <- Hn.
  apply (find_unique n_name nodes n); [|assumption].
  apply (NoDup_map_compose n_name node_name). exact ND.
Qed.

(* ---- the walk, generic in the lookup step *)
Section Walk.
  Variables (bs st : bool) (R : repo) (ok : list node -> Prop).
  Hypothesis ok_repo : forall id nodes, R id = Some nodes -> ok nodes.
  Hypothesis step_ok : forall nodes n, ok nodes -> In n nodes -> lookup bs st (raw_name n) nodes = Some n.

  Definition go_nodes (nodes : list node) (rel : list bytes) : option node :=
    match rel with
    | [] => None
    | p :: rest => match lookup bs st p nodes with
                   | None => None
                   | Some m => node_from_path_go bs st R m rest
                   end
    end.

  Lemma go_dir cur id nodes rel : n_subtree cur = Some id -> R id = Some nodes -> rel <> [] ->
    node_from_path_go bs st R cur rel = go_nodes nodes rel.
  Proof.
    intros Hs Hr Hne. destruct rel as [|p rest]; [contradiction|].
    cbn [node_from_path_go go_nodes]. rewrite Hs, Hr. reflexivity.
  Qed.

  Lemma listed_found : forall fuel nodes prefix path n, ok nodes ->
    In (path, n) (ls_nodes fuel R nodes prefix) ->
    exists rel, path = prefix ++ rel /\ go_nodes nodes rel = Some n.
  Proof.
    induction fuel as [|f IH]; intros nodes prefix path n Hok Hin; [contradiction|].
    cbn [ls_nodes] in Hin. apply in_flat_map in Hin. destruct Hin as [m [Hm Hin]].
    fold (raw_name m) in Hin. destruct Hin as [E|Hin].
    - inversion E; subst. exists [raw_name n]. split; [reflexivity|].
      cbn [go_nodes]. rewrite step_ok by assumption. reflexivity.
    - destruct (n_subtree m) as [id|] eqn:Hs; [|contradiction].
      destruct (R id) as [ns|] eqn:Hr; [|contradiction].
      destruct (IH ns (prefix ++ [raw_name m]) path n (ok_repo id ns Hr) Hin) as [rel [Hp Hg]].
      exists (raw_name m :: rel). split; [rewrite Hp, <- app_assoc; reflexivity|].
      cbn [go_nodes]. rewrite step_ok by assumption.
      assert (rel <> []) by (intro C; subst rel; discriminate Hg).
      rewrite (go_dir m id ns rel Hs Hr H). exact Hg.
  Qed.

  Lemma ls_found fuel root path n : In (path, n) (ls fuel R root) ->
    node_from_path bs st R root path = Some n.
  Proof.
    unfold ls, node_from_path. destruct (R root) as [nodes|] eqn:Hr; [|contradiction].
    intro Hin. destruct (listed_found fuel nodes [] path n (ok_repo root nodes Hr) Hin) as [rel [Hp Hg]].
    cbn [app] in Hp. subst rel.
    assert (path <> []) by (intro C; subst path; discriminate Hg).
    rewrite (go_dir (mknode [] (Some root) 0) root nodes path eq_refl Hr H). exact Hg.
  Qed.
End Walk.

Definition wf_repo (R : repo) : Prop := forall id nodes, R id = Some nodes -> names_distinct nodes.
Definition wf_repo_escaped (R : repo) : Prop :=
  forall id nodes, R id = Some nodes -> names_distinct nodes /\ names_escaped nodes.

(* the source as pinned: scan, compare node.name() *)
Lemma node_from_path_finds_listed_scan : forall R fuel root path n, wf_repo R ->
  In (path, n) (ls fuel R root) -> node_from_path false false R root path = Some n.
Proof.
  intros R fuel root path n W. apply (ls_found false false R names_distinct W).
  intros nodes m H1 H2. apply lookup_scan_unescaped; assumption.
Qed.

(* scanning and comparing the stored name with escape_filename(component) is as good *)
Lemma node_from_path_finds_listed_scan_stored : forall R fuel root path n, wf_repo_escaped R ->
  In (path, n) (ls fuel R root) -> node_from_path false true R root path = Some n.
Proof.
  intros R fuel root path n W.
  apply (ls_found false true R (fun nodes => names_distinct nodes /\ names_escaped nodes) W).
  intros nodes m [H1 H1'] H2. apply lookup_scan_stored; assumption.
Qed.

(* which combinations of (binary search, stored key) are proved *)
Definition lookup_proved (bsearch stored : bool) : bool := negb bsearch.

Lemma node_from_path_finds_listed_gen : forall bsearch stored, lookup_proved bsearch stored = true ->
  forall R fuel root path n, wf_repo_escaped R ->
  In (path, n) (ls fuel R root) -> node_from_path bsearch stored R root path = Some n.
Proof.
  intros bsearch stored H R fuel root path n W Hin.
  destruct bsearch; [discriminate|]. destruct stored.
  - eapply node_from_path_finds_listed_scan_stored; eassumption.
  - eapply node_from_path_finds_listed_scan; [|eassumption].
    intros id nodes Hr. apply (W id nodes Hr).
Qed.

(* binary search on the ESCAPED names over a tree sorted by RAW names loses entries:
   raw order  "q" < A < a ; stored  \"q\" sorts between A and a *)
Definition bad_tree : list node :=
  [mknode (escape [34; 113; 34]) None 1; mknode [65] None 2; mknode [97] None 3].
Definition bad_repo : repo := fun id => if id =? 0 then Some bad_tree else None.

Lemma node_from_path_bsearch_stored_refuted_lemma :
  exists R root path n, wf_repo_escaped R /\
    (forall id nodes, R id = Some nodes -> StronglySorted (fun a b => bytes_cmp (raw_name a) (raw_name b) = Lt) nodes) /\
    In (path, n) (ls 3 R root) /\ node_from_path true true R root path = None.
Proof.
  exists bad_repo, 0, [[34; 113; 34]], (mknode (escape [34; 113; 34]) None 1).
  split.
  { intros id nodes H. unfold bad_repo in H. destruct (id =? 0); [|discriminate]. inversion H; subst. split.
    - unfold names_distinct. vm_compute. repeat constructor; cbn; intuition discriminate.
    - intros n Hn. unfold bad_tree in Hn. cbn [In] in Hn.
      destruct Hn as [<-|[<-|[<-|[]]]].
      + exists [34; 113; 34]. split; [repeat constructor | reflexivity].
      + exists [65]. split; [repeat constructor | reflexivity].
      + exists [97]. split; [repeat constructor | reflexivity]. }
  split.
  { intros id nodes H. unfold bad_repo in H. destruct (id =? 0); [|discriminate]. inversion H; subst.
    unfold bad_tree. repeat constructor. }
  split; [vm_compute; left; reflexivity | vm_compute; reflexivity].
Qed.

Example ex_tree : let R := bad_repo in
  wf_repo R /\ map fst (ls 3 R 0) = [[[34; 113; 34]]; [[65]]; [[97]]] /\
  node_from_path false false R 0 [[34; 113; 34]] = Some (mknode (escape [34; 113; 34]) None 1) /\
  node_from_path true false R 0 [[34; 113; 34]] = Some (mknode (escape [34; 113; 34]) None 1).
Proof.
  split.
  { intros id nodes H. unfold bad_repo in H. destruct (id =? 0); [|discriminate]. inversion H; subst.
    unfold names_distinct. vm_compute. repeat constructor; cbn; intuition discriminate. }
  vm_compute. repeat split; reflexivity.
Qed.
