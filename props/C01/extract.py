"""C01 fact extractor: regenerates props/C01/coq/Extracted.v from the source.

* index/indexer.rs: is `Indexer.indexed` a set of ids (untyped) or of (type, id) pairs (typed)?
  Cross-checked against `Indexer::has`, the insertion in `add_with`, and the three call sites in
  blob/packer.rs (every `indexer...has(` call must pass the packer's blob type when typed).
* vfs.rs: the sentinel appended by ContentStartpoints::from_sizes, the predicate of
  partition_point in compute_start, and the break condition / slice of OpenFile::read_at.
* backend/node.rs: the escape table of `push` in escape_filename and the simple escapes of
  unescape_filename (compared with the tables the model uses).
"""
import re, sys, os
sys.path.insert(0, os.path.join(os.path.dirname(__file__), "..", "..", "lib"))
from rustscan import *

ESC_MODEL = {92: [92, 92], 34: [92, 34], 7: [92, 97], 8: [92, 98], 12: [92, 102], 10: [92, 110],
             13: [92, 114], 9: [92, 116], 11: [92, 118]}
UNESC_MODEL = {92: 92, 34: 34, 39: 39, 96: 96, 97: 7, 98: 8, 102: 12, 110: 10, 114: 13, 116: 9, 118: 11}


def rust_char(lit):
    """value of a Rust char / byte literal body such as \\\\, \\", n, \\u{7}, \\x07"""
    if lit.startswith("\\u{"):
        return int(lit[3:-1], 16)
    if lit.startswith("\\x"):
        return int(lit[2:], 16)
    simple = {"\\\\": 92, "\\\"": 34, "\\'": 39, "\\n": 10, "\\r": 13, "\\t": 9, "\\0": 0}
    if lit in simple:
        return simple[lit]
    if len(lit) == 1:
        return ord(lit)
    raise ExtractError("char literal not understood: %r" % lit)


def rust_str(lit):
    out, i = [], 0
    while i < len(lit):
        if lit[i] == "\\":
            out.append(rust_char(lit[i:i + 2])); i += 2
        else:
            out.append(ord(lit[i])); i += 1
    return out


def gen(repo):
    meta = {}
    ix = read(repo, "crates/core/src/index/indexer.rs")
    m = re.search(r"indexed\s*:\s*Option<\s*BTreeSet<\s*([^;{}]*?)\s*>\s*>\s*,", ix)
    if not m:
        raise ExtractError("field Indexer.indexed not found / not an Option<BTreeSet<..>>")
    ty = re.sub(r"\s+", "", m.group(1))
    if ty == "BlobId":
        typed = False
    elif ty == "(BlobType,BlobId)":
        typed = True
    else:
        raise ExtractError("Indexer.indexed has an unexpected element type: " + ty)
    has_sig = re.sub(r"\s+", " ", fn_sig(ix, "has"))
    has_body = re.sub(r"\s+", "", fn_body(ix, "has"))
    add_body = re.sub(r"\s+", "", fn_body(ix, "add_with"))
    if typed:
        ok = ("tpe: BlobType" in has_sig and "contains(&(tpe,*id))" in has_body
              and "indexed.insert((blob.tpe,blob.id))" in add_body)
    else:
        ok = ("BlobType" not in has_sig and "contains(id)" in has_body and "indexed.insert(blob.id)" in add_body)
    if not ok:
        raise ExtractError("Indexer::has / add_with do not have the shape that goes with indexed: BTreeSet<%s>" % ty)
    pk = read(repo, "crates/core/src/blob/packer.rs")
    calls = re.findall(r"indexer\s*\.\s*read\(\)\s*\.\s*unwrap\(\)\s*\.\s*has\(([^)]*)\)", pk)
    if len(calls) != 3:
        raise ExtractError("expected 3 `indexer.read().unwrap().has(` call sites in packer.rs, found %d" % len(calls))
    for c in calls:
        args = [a.strip() for a in c.split(",")]
        if typed and not (len(args) == 2 and args[0] in ("blob_type", "self.blob_type")):
            raise ExtractError("typed Indexer::has called without the packer's blob type: has(%s)" % c)
        if not typed and len(args) != 1:
            raise ExtractError("untyped Indexer::has called with %d arguments" % len(args))
    # the filters of the packer thread, in order
    pn = fn_body(pk, "new", 0)
    pn1 = re.sub(r"\s+", "", pn)
    i1 = pn1.find(".filter(|(_,id)|!indexer.read().unwrap().has(")
    i2 = pn1.find(".filter(|(_,id)|!raw_packer.read().unwrap().has(id))")
    i3 = pn1.find("parallel_map_scoped")
    i4 = pn1.find("!indexer.read().unwrap().has(", i3)
    i5 = pn1.find(".add_raw(", i4)
    if not (0 <= i1 < i2 < i3 < i4 < i5):
        raise ExtractError("Packer::new thread pipeline no longer has the shape filter(indexer) -> filter(raw_packer) -> process -> filter(indexer) -> add_raw")
    fw = re.sub(r"\s+", "", fn_body(pk, "process"))
    if fw.find("write_bytes(FileType::Pack") < 0:
        raise ExtractError("FileWriterHandle::process no longer writes the pack")
    act = re.sub(r"\s+", "", fn_body(pk, "new", 3)) if len(re.findall(r"\bfn\s+new\b", pk)) > 3 else ""
    meta["indexed_typed"] = typed
    # vfs
    vfs = read(repo, "crates/core/src/vfs.rs")
    fs = re.sub(r"\s+", "", fn_body(vfs, "from_sizes"))
    cs = re.sub(r"\s+", "", fn_body(vfs, "compute_start"))
    ra = re.sub(r"\s+", "", fn_body(vfs, "read_at"))
    facts = {
        "sentinel usize::MAX": "offsets.push(usize::MAX)" in fs and "if!offsets.is_empty()" in fs,
        "starts are running sums": "letstarts_at=start;start+=size?;Ok(starts_at)" in fs,
        "partition_point(|o| o <= &offset) - 1": "self.0.partition_point(|o|o<=&offset)-1" in cs,
        "offset -= self.0[i]": "offset-=self.0[i]" in cs,
        "empty => (0, 0)": "ifself.0.is_empty(){return(0,0);}" in cs,
        "while length > 0 && i < content.len()": "whilelength>0&&i<self.content.len()" in ra,
        "break if offset > data.len()": "ifoffset>data.len(){" in ra and "break;" in ra,
        "to_copy = min(data.len() - offset, length)": "letto_copy=(data.len()-offset).min(length);" in ra,
        "copy data[offset..offset+to_copy]": "result.extend_from_slice(&data[offset..offset+to_copy]);" in ra,
        "offset = 0; length -= to_copy; i += 1": "offset=0;length-=to_copy;i+=1;" in ra,
        "result buffer is not pre-allocated with the requested length": "with_capacity(length)" not in ra,
    }
    bad = [k for k, v in facts.items() if not v]
    if bad:
        raise ExtractError("vfs.rs read_at/compute_start no longer have the modelled shape: " + "; ".join(bad))
    # node.rs escape tables (unix variants = the second definitions)
    nd = open(repo + "/crates/core/src/backend/node.rs").read()
    esc = fn_body(nd, "escape_filename", 1)
    arms = re.findall(r"'((?:\\.|\\u\{[0-9a-fA-F]+\}|[^'\\]))'\s*=>\s*s\.push_str\(\"((?:\\.|[^\"\\])*)\"\)", esc)
    table = {rust_char(c): rust_str(sv) for c, sv in arms}
    if table != ESC_MODEL:
        raise ExtractError("escape table of escape_filename differs from the model: %r" % table)
    if 'write!(s, "\\\\x{b:02x}")' not in esc:
        raise ExtractError("escape_filename no longer writes invalid bytes as \\\\x{b:02x}")
    une = fn_body(nd, "unescape_filename", 1)
    uarms = re.findall(r"'((?:\\.|[^'\\]))'\s*=>\s*u\.push\(b'((?:\\x[0-9a-fA-F]{2}|\\.|[^'\\]))'\)", une)
    utable = {rust_char(c): rust_char(v) for c, v in uarms}
    if utable != UNESC_MODEL:
        raise ExtractError("simple escapes of unescape_filename differ from the model: %r" % utable)
    for need in ["take(&mut chars, 2)", "take(&mut chars, 4)", "take(&mut chars, 8)", "u8::from_str_radix(&hex, 16)",
                 "std::char::from_u32(n)", "if !s.contains('\\\\')"]:
        if need not in une:
            raise ExtractError("unescape_filename no longer contains `%s`" % need)
    # blob/tree.rs: what the path lookup compares and how it searches
    tr = read(repo, "crates/core/src/blob/tree.rs")
    def classify(body, what):
        b = re.sub(r"\s+", "", body)
        if ".find(|node|node.name()==" in b and "binary_search" not in b:
            return (False, False)
        if re.search(r"\.find\(\|node\|node\.name(\.as_str\(\))?==", b) and "escape_filename(" in b and "binary_search" not in b:
            return (False, True)
        m = re.search(r"binary_search_by(_key)?\(\|node\|(.*?)\)\.", b)
        if m:
            arg = m.group(2)
            if "node.name()" in arg: return (True, False)
            if "node.name" in arg and "escape_filename(" in b: return (True, True)
        raise ExtractError("%s: the lookup of a path component is neither `.find(|node| node.name() == ..)` nor a recognised variant" % what)
    lk = classify(fn_body(tr, "node_from_path"), "Tree::node_from_path")
    lk2 = classify(fn_body(tr, "find_node_from_component"), "find_nodes_from_path")
    nfp = re.sub(r"\s+", "", fn_body(tr, "node_from_path"))
    nfp = nfp.replace("letmuttree=", "lettree=")
    for need in ["node.subtree=Some(id);", "forpinpath.components()", "letid=node.subtree.ok_or_else(", "lettree=Self::from_backend(be,index,id)?;"]:
        if need not in nfp:
            raise ExtractError("Tree::node_from_path no longer contains `%s`" % need)
    nxt = re.sub(r"\s+", "", fn_body(tr, "next", 0))
    for need in ["letpath=self.path.join(node.name());", "self.path.push(node.name());", "mem::replace(&mutself.inner,tree.nodes.into_iter())", "self.inner=self.open_iterators.pop()?;"]:
        if need not in nxt:
            raise ExtractError("NodeStreamer::next no longer contains `%s`" % need)
    meta["lookup"] = {"binary_search": lk[0], "compares_stored": lk[1], "find_nodes_binary_search": lk2[0], "find_nodes_compares_stored": lk2[1]}
    # times: capture in the mapper, set_times in the local destination
    mp = re.sub(r"\s+", "", fn_body(read(repo, "crates/core/src/backend/ignore/mapper.rs"), "map_entry"))
    if "letmtime=m.modified().ok().and_then(|t|Timestamp::try_from(t).ok());" not in mp:
        raise ExtractError("mapper.rs map_entry no longer captures mtime as m.modified() -> Timestamp::try_from")
    stt = re.sub(r"\s+", "", fn_body(read(repo, "crates/core/src/backend/local_destination.rs"), "set_times"))
    if "FileTime::from_system_time(atime.into())" in stt and "FileTime::from_system_time(mtime.into())" in stt and "from_unix_time" not in stt:
        direct = False
    elif "from_unix_time(" in stt and "as_second()" in stt and "subsec_nanosecond().unsigned_abs()" in stt and "from_system_time" not in stt:
        direct = True
    else:
        raise ExtractError("LocalDestination::set_times converts the Timestamp in an unrecognised way")
    if "letatime=meta.atime.unwrap_or(mtime);" not in stt or "set_symlink_file_times(" not in stt:
        raise ExtractError("LocalDestination::set_times no longer has the modelled shape")
    meta["restore_time_direct"] = direct
    out = ["(* GENERATED by props/C01/extract.py from crates/core/src/{index/indexer.rs,blob/packer.rs,vfs.rs,backend/node.rs,blob/tree.rs,backend/ignore/mapper.rs,backend/local_destination.rs} - do not edit *)",
           "(* Indexer.indexed : BTreeSet<%s> *)" % ty,
           "Definition indexed_typed : bool := %s." % ("true" if typed else "false"),
           "(* Tree::node_from_path / find_nodes_from_path: how a path component is looked up *)",
           "Definition lookup_binary_search : bool := %s." % ("true" if lk[0] else "false"),
           "Definition lookup_compares_stored : bool := %s." % ("true" if lk[1] else "false"),
           "Definition find_nodes_binary_search : bool := %s." % ("true" if lk2[0] else "false"),
           "Definition find_nodes_compares_stored : bool := %s." % ("true" if lk2[1] else "false"),
           "(* LocalDestination::set_times: FileTime built from the Timestamp fields instead of via SystemTime *)",
           "Definition restore_time_direct : bool := %s." % ("true" if direct else "false"), ""]
    meta["esc_table"] = table
    return "\n".join(out), meta


if __name__ == "__main__":
    txt, meta = gen(sys.argv[1] if len(sys.argv) > 1 else "/repo")
    sys.stdout.write(txt)
    print(meta)
