"""C05 — check is sound and complete with respect to restorability.
Stages: build + audit the Coq theorems (model of check --read-data and of the read path of
restore over an abstract repository state); e2e oracle = the property itself: histories of
backup/forget/prune on an in-memory store, then every stored file (config excluded) x every fault
kind on a clone, real check(read_data) and real restore of every listed snapshot compared byte
for byte with the pre-damage restore; correspondence: every damaged store is also dumped in the
model's vocabulary and the extracted model's check verdict is compared with the real one, and the
theorem instances are evaluated on those real states."""
import os, re, json
import vlib
from vlib import ROOT, REPO, log

ERR_VERDICTS = ("errors", "failed", "panic")


def parse_kv(line):
    """'F a/b/c/d k=v k=v' -> (tag, dict)"""
    parts = line.split()
    d = {"_": parts[1] if len(parts) > 1 and "=" not in parts[1] else ""}
    for p in parts[1:]:
        if "=" in p:
            k, v = p.split("=", 1)
            d[k] = v
    return d


def classify(f, m=None):
    """signature of a violating fault case (None = not a listed class)"""
    tdir, _id, kind, detail = (f["_"].split("/", 3) + ["", "", "", ""])[:4]
    if tdir == "snapshots" and kind in ("swap", "replace"):
        return "snapshot-files-swapped"
    if f.get("file", "").startswith("pack:tree:root-only") and kind in ("swap", "replace"):
        # check stayed clean after the exchange, so the sibling has the same blob layout (else the
        # root tree would not decrypt at its indexed place)
        return "root-tree-pack-replaced-same-layout"
    if m is not None and m.get("nodup") == "0" and tdir == "data":
        # some (type, id) is stored in two packs and one copy was damaged: check verified the copy its
        # index answered with, restore was answered with the other
        return "duplicate-blob-copy-unverified"
    return None


def history_lines(ctx):
    rng = ctx.rng
    th = ctx.thorough()
    lines = []
    # (scenario, steps, datapack, treepack, max_faults)
    # (scenario 6, the index-arrival-order sweep, runs from corpus.txt in the quick tier)
    plan = [(0, 5, 6000, 700, 70), (rng.choice([1, 2]), 5, 20000, 1, 45), (0, 7, 3000, 1, 70), (3, 3, 6000, 700, 50),
            (4, rng.choice([3, 4, 5]), 20000, 20000, 60), (5, rng.choice([3, 4]), 20000, 20000, 60),
            (7, rng.choice([3, 4]), 20000, 20000, 60)]
    if th:
        plan = [(0, 6, 6000, 700, 0), (1, 8, 20000, 1, 0), (2, 6, 20000, 1, 0), (0, 8, 3000, 1, 0),
                (0, 9, 12000, 2000, 0), (0, 5, 1, 1, 800), (1, 10, 1, 1, 800), (0, 10, 8000, 300, 600), (0, 12, 5000, 100, 600), (3, 3, 6000, 700, 0), (3, 5, 3000, 1, 600),
                (4, 3, 20000, 20000, 0), (4, 5, 20000, 700, 0), (4, 4, 3000, 1, 0), (5, 3, 20000, 20000, 0), (5, 5, 4000, 700, 0),
                (6, 1, 20000, 20000, 0), (6, 1, 20000, 1, 0), (7, 4, 20000, 20000, 0), (7, 3, 4000, 700, 0)]
    for (sc, steps, dp, tp, mf) in plan:
        lines.append("%d %d %d %d %d %d 1" % (rng.randint(1, 10 ** 9), sc, steps, dp, tp, mf))
    return lines


def run(ctx):
    cov = ctx.coverage
    meta, xerr = vlib.regen_extracted("C05")
    r = vlib.proof_stage(ctx)
    if xerr:
        r["ok"] = False
        r["failures"].append("fact extraction from packfile.rs / check.rs failed: " + xerr)
    cov["extracted_facts"] = meta
    cov["trusted_base"] += [
        "props/C05/extract.py (pack-format constants and shape facts of check.rs regenerated into Extracted.v)",
        "crates/core/src/verif_hooks/c05.rs (decrypt with the repository key, PackHeader::from_binary, header size, save_file of an edited IndexFile)",
        "harness/src/bin/c05.rs: fault injection on a clone of the store, the reference restore, the byte comparison, and dump_state (abstraction of a damaged store into the model's vocabulary)"]
    ctx.assumptions += [
        "ideal AEAD: a byte range of a pack decrypts iff it is exactly a ciphertext produced with the repository key (INT-CTXT); built into Model.state (only authenticating ranges are listed)",
        "ideal zstd: decode_all of a range either yields the content or fails; the recorded uncompressed length is compared",
        "SHA-256 collision-free on the contents that occur (hash_fixes_content); in the model the hash is an arbitrary function, universally quantified",
        "u32 arithmetic of pack sizes/offsets does not overflow (packs < 4 GiB)",
        "the tree walk's `visited` set only suppresses repeated reads: the model walks with fuel; the verdict is fuel independent (check_verdict_fuel_independent) and exists on tree graphs of authentic trees under the no-hash-cycle hypothesis (tree_graph_acyclic, walk_fuel_sufficient); a cyclic graph of unauthentic trees gives the model no verdict",
        "no_hash_cycles: some rank decreases from hash(b) to every subtree id the tree b lists (a tree id is the hash of a serialisation containing its children's ids)",
        "read-data-subset: Percentage is modelled for whole percents; the shuffle is an arbitrary permutation; IdSubSet compares the model's id number where the code takes the first four id bytes",
        "nodes other than files/directories carry no content/subtree; non-directory nodes with a `subtree` field are not modelled",
        "index lookups among equal (type,id) keys are unspecified: the theorem holds for every answer (all copies are read since the fix); on states with duplicate keys the set of packs read depends on the answer, so verdicts are compared on duplicate-free states only (coverage.nodup_keys_true)",
        "cache and hot-store branches of check are out of scope here (C19 / C16); read_data_subset = All",
        "a snapshot counts as 'in the repository' when its file is listed in the (damaged) store; a removed snapshot file is indistinguishable from forget"]
    try:
        model = vlib.build_model("C05")
    except RuntimeError as e:
        model = None
        if r["ok"]:
            r["ok"] = False; r["failures"].append("extracted model no longer builds: " + str(e)[-500:])
    impl = vlib.build_harness("c05")

    if ctx.replay:
        rp = json.load(open(ctx.replay))
        w = rp["witness"]
        lines = [w["history_line"] + (" " + w["fault"] if w.get("fault") else "")]
    else:
        lines = history_lines(ctx)
        corpus = os.path.join(ctx.pdir, "corpus.txt")
        if os.path.exists(corpus):
            lines = [l.split("#")[0].strip() for l in open(corpus) if l.split("#")[0].strip()] + lines
    # one harness process per history (each stays well below ten minutes); histories are independent
    # and run in parallel, the outputs are concatenated in plan order
    import concurrent.futures
    def one_history(arg):
        i, ln = arg
        inp = os.path.join(ctx.bdir, "hist_%d_%d.txt" % (os.getpid(), i))
        open(inp, "w").write(ln + "\n")
        rc, o1, err = vlib.sh2([impl, inp], timeout=900)
        os.remove(inp)
        if rc != 0 and "\nE" not in "\n" + o1:
            # killed or crashed half way: keep what was observed, close the history
            o1 += ("" if o1.startswith("H ") else "H seed=? base=ok scenario=?\n") + "X harness process ended with rc=%s: %s\nE\n" % (rc, err[-300:].replace("\n", " "))
        return o1
    with concurrent.futures.ThreadPoolExecutor(max_workers=max(2, min(6, vlib.NCPU // 2))) as ex:
        out = "".join(ex.map(one_history, list(enumerate(lines))))
    # ---- parse
    hists = []  # dicts: line, H, faults [(F dict, D or None)], base dump
    cur = None
    li = -1
    pending = None
    for ln in out.splitlines():
        if ln.startswith("H "):
            li += 1
            cur = {"line": lines[li] if li < len(lines) else "?", "H": parse_kv(ln), "faults": [], "base_dump": None, "failed": None}
            hists.append(cur); pending = None
        elif ln.startswith("X "):
            if cur is None or (cur and cur.get("closed")):
                li += 1
                cur = {"line": lines[li] if li < len(lines) else "?", "H": {}, "faults": [], "base_dump": None, "failed": ln[2:]}
                hists.append(cur)
            else:
                cur["failed"] = ln[2:]
        elif ln.startswith("F "):
            pending = [parse_kv(ln), None, ln]
            cur["faults"].append(pending)
        elif ln.startswith("D "):
            if pending is None: cur["base_dump"] = ln[2:]
            else: pending[1] = ln[2:]
        elif ln.startswith("E"):
            if cur: cur["closed"] = True
            pending = None

    # ---- model on the dumps
    dumps = []
    for h in hists:
        if h["base_dump"]: dumps.append(("base", h, None))
        for f in h["faults"]:
            if f[1] and f[1] != "unreadable": dumps.append(("fault", h, f))
    model_res = {}
    if model and dumps:
        p = os.path.join(ctx.bdir, "dumps_%d.txt" % os.getpid())
        open(p, "w").write("\n".join(d[1]["base_dump"] if d[0] == "base" else d[2][1] for d in dumps) + "\n")
        rc2, mo, me = vlib.sh2("ulimit -s unlimited; %s %s" % (model, p), timeout=1800)
        os.remove(p)
        mres = mo.splitlines()
        if rc2 != 0 or len(mres) != len(dumps):
            r["ok"] = False
            r["failures"].append("extracted model failed on the dumped states (rc=%s, %d of %d lines): %s" % (rc2, len(mres), len(dumps), me[-300:]))
        else:
            for d, m in zip(dumps, mres):
                model_res[id(d[2]) if d[2] is not None else ("base", id(d[1]))] = dict(x.split("=", 1) for x in m.split())

    # ---- oracle + correspondence
    hist = {}
    def bump(k): hist[k] = hist.get(k, 0) + 1
    viol, mism, thm_bad, samples = [], [], [], []
    nfault = 0; nontriv = set(); nodup_true = 0; ndumped = 0; kinds_equal = 0; kinds_cmp = 0
    strict_witness = []
    kd_samples = []
    for h in hists:
        H = h["H"]
        if h["failed"]:
            bump("history_failed")
            viol.append(("history could not be built or observed: " + h["failed"][:200], {"history_line": h["line"]}, None, True))
            continue
        if H.get("base") != "ok":
            # the undamaged repository is not clean / not restorable: a defect of backup/prune (C01/C02), no C05 case
            bump("history_base_not_clean")
            continue
        bump("history_scenario_%s" % H.get("scenario"))
        mb = model_res.get(("base", id(h)))
        if mb is not None:
            ndumped += 1
            if mb["nodup"] == "1": nodup_true += 1
            if mb["check"] != "clean":
                mism.append({"history_line": h["line"], "fault": None, "impl": "clean", "model": mb["check"]})
        for f in h["faults"]:
            F, D, raw = f
            if F.get("check") == "n/a":
                bump("fault_not_applicable"); continue
            nfault += 1
            tdir, _i, kind, detail = (F["_"].split("/", 3) + ["", "", "", ""])[:4]
            cls = "%s|%s|%s" % (F.get("file"), kind, re.split("[@:]", detail)[0])
            bump("file_" + F.get("file", "?")); bump("kind_" + kind)
            clean = F["check"] == "clean"
            rest_ok = F["restore"] == "ok"
            bump("check_%s__restore_%s" % (F["check"], "ok" if rest_ok else "bad"))
            if not clean and F.get("kinds", "-") != "-":
                for k in F["kinds"].split("+"): bump("err_" + k)
            if not clean: nontriv.add(cls + "|detected")
            elif rest_ok: nontriv.add(cls + "|harmless")
            wit = {"history_line": h["line"], "fault": F["_"], "file": F.get("file"), "check": F["check"], "kinds": F.get("kinds"),
                   "index_arrival_orders_tried": F.get("orders", "1"),
                   "restore": F["restore"], "ops": H.get("ops"),
                   "how_to_replay": "echo '<history_line> <fault>' | .cache/target*/debug/c05 -   (last token selects the single fault)"}
            m = model_res.get(id(f))
            if clean and not rest_ok:
                viol.append(("check --read-data reports no error but a snapshot does not restore correctly after damage (%s of a %s file)" % (kind, F.get("file")), wit, classify(F, m), False))
            cyc = F.get("cycle", "-")
            if cyc != "-":
                bump("nm_cycle_" + ("ok" if cyc == "ok" else "missed"))
                if cyc != "ok":
                    # with a blob stored twice every run's index may answer with the other copy: the open finding
                    sig = "duplicate-blob-copy-unverified" if (m is not None and m.get("nodup") == "0") else None
                    if sig is None and set(cyc.split(":", 1)[1].split("+")) <= {"p100", "size"}:
                        sig = "subset-full-budget-drops-a-pack"
                    viol.append(("a full read performed through read_data_subset (the documented cycle IdSubSet((1,m))..((m,m)) for m = 1,2,3; Percentage(100) = p100; Size >= total = size) reports nothing (missed: %s) although the plain full check reports the damage and restore fails" % cyc.split(":", 1)[1],
                                 {**wit, "cycle": cyc}, sig, False))
            if m is not None:
                ndumped += 1
                if m["nodup"] == "1": nodup_true += 1
                mclean = m["check"] == "clean"
                if m["check"] == "fuel":
                    bump("model_out_of_fuel")
                elif m["nodup"] == "0":
                    # which copy of a duplicated blob an index answers with is unspecified (and differs
                    # between runs of the implementation): no verdict comparison on such states
                    bump("state_with_duplicate_keys")
                    if mclean != clean: bump("state_with_duplicate_keys_verdict_differs")
                elif mclean != clean:
                    mism.append({**wit, "model": m["check"]})
                elif not clean and F["check"] == "errors":
                    kinds_cmp += 1
                    ik = set(k for k in F.get("kinds", "").split("+") if k and not k.startswith("w:"))
                    mk = set(m["check"].split(":", 1)[1].split("+")) if ":" in m["check"] else set()
                    if "ErrorCheckingTrees" in ik | mk:
                        kinds_cmp -= 1   # the walk aborts at the first unreadable tree; what was collected before is scheduling dependent
                    elif ik == mk: kinds_equal += 1
                    else:
                        bump("kinds_differ")
                        if len(kd_samples) < 12: kd_samples.append({"fault": F["_"], "file": F.get("file"), "impl": sorted(ik), "model": sorted(mk)})
                # theorem instances on the real state
                if mclean and m["strict"] != "1":
                    thm_bad.append({**wit, "model": m})
                if (not mclean) and m["correct"] == "1" and m["strict"] == "0":
                    strict_witness.append(wit)   # only the root tree is wrong, and check reports it
                # model says everything restore needs is readable and right, real restore disagrees
                # (snapshot FILE level faults are outside the abstract state: it only keeps the roots)
                # (not when an index/snapshot file is unreadable: the dump then describes the remaining files only,
                # while the real restore fails on the unreadable file)
                if m["nodup"] == "1" and m["correct"] == "1" and m["readable"] == "1" and not rest_ok and tdir != "snapshots" \
                        and m["strict"] == "1" and "Meta" not in m["check"]:
                    mism.append({**wit, "model": m, "what": "model: all readable and correct; real restore: " + F["restore"]})
            if len(samples) < 4 and (len(samples) < 2 or not clean):
                samples.append({"history": h["line"], "fault": F["_"], "file": F.get("file"), "check": F["check"], "kinds": F.get("kinds"), "restore": F["restore"], "model": m})

    cov.update({
        "evaluations": nfault + ndumped, "distinct_nontrivial": len(nontriv),
        "rule": "one evaluation = one (history, stored file, fault) triple run through the real check(read_data) and the real restore of every listed snapshot with byte comparison against the pre-damage restore, plus one run of the extracted model on the dumped state; non-trivial = distinct (file class incl. tree/data pack and referenced/root-only/unreferenced, fault kind, position class, outcome detected|harmless)",
        "histories": len(hists), "fault_cases": nfault, "states_through_model": ndumped,
        "samples": samples, "distribution": hist, "nodup_keys_true": nodup_true,
        "traces_validated_against_impl": ndumped, "disagreements_checked": len(viol) + len(mism) + len(thm_bad),
        "oracle_violations": len(viol), "model_impl_verdict_mismatches": len(mism),
        "error_kind_sets_equal": "%d of %d" % (kinds_equal, kinds_cmp),
        "root_tree_replacements_reported_on_real_states": len(strict_witness),
        "verdict_mismatch_samples": mism[:3], "error_kind_difference_samples": kd_samples})

    for what, wit, sig, no_input in viol[:60]:
        ctx.violation(what, wit, signature=sig, no_input=no_input)
    for t in thm_bad[:5]:
        ctx.violation("theorem instance fails on a dumped real state: model check clean, but model 'correct' (through restore's own index) is not true (extraction or driver broken)", t, no_input=True)
    if mism and not [v for v in ctx.violations if not v["no_failing_input_found"]]:
        ctx.violation("correspondence broken: the extracted model of check/restore disagrees with the implementation on %d dumped states although the oracle holds" % len(mism),
                      {"correspondence": "props/C05 Model.check vs Repository::check(read_data) on dump_state", "first": mism[0], "count": len(mism)}, no_input=True)
    vlib.finish_broken_obligations(ctx)
