"""C05 fact extractor: regenerates props/C05/coq/Extracted.v from the working tree —
the pack-format constants of repofile/packfile.rs and the shape facts of commands/check.rs the
model relies on (which packs check_trees collects, the filters of read_data, the order of the
tests in check_pack, the snapshot-name comparison)."""
import re, sys, os
sys.path.insert(0, os.path.join(os.path.dirname(__file__), "..", "..", "lib"))
from rustscan import *


def gen(repo):
    pk = read(repo, "crates/core/src/repofile/packfile.rs")
    ck = read(repo, "crates/core/src/commands/check.rs")
    consts = {}
    for name in ("ENTRY_LEN", "ENTRY_LEN_COMPRESSED", "COMP_OVERHEAD", "LENGTH_LEN"):
        consts[name] = int_expr(const_value(pk, name))
    # PackHeaderRef::size starts from COMP_OVERHEAD, pack_size from COMP_OVERHEAD + LENGTH_LEN
    size_b = fn_body(pk, "size", 1) if "COMP_OVERHEAD" not in fn_body(pk, "size", 0) else fn_body(pk, "size", 0)
    if not re.search(r"fold\(\s*constants::COMP_OVERHEAD\s*,", size_b):
        raise ExtractError("PackHeaderRef::size no longer folds from COMP_OVERHEAD")
    ps_b = None
    for n in range(0, 4):
        try:
            b = fn_body(pk, "pack_size", n)
        except ExtractError:
            break
        if "fold" in b:
            ps_b = b
    if ps_b is None or not re.search(r"constants::COMP_OVERHEAD\s*\+\s*constants::LENGTH_LEN", ps_b) \
            or not re.search(r"acc\s*\+\s*blob\.location\.length\s*\+\s*HeaderEntry::from_blob\(blob\)\.length\(\)", ps_b):
        raise ExtractError("PackHeaderRef::pack_size no longer has the shape overhead + 4 + sum(length + entry length)")
    # check_trees: where packs are collected
    ct = fn_body(ck, "check_trees")
    inserts = len(re.findall(r"packs\.insert\(\s*entry\.pack\s*\)", ct))
    roots = bool(re.search(r"for\s+id\s+in\s+&snap_trees\s*\{\s*if\s+let\s+Some\(entry\)\s*=\s*index\.get_tree\(id\)\s*\{\s*_\s*=\s*packs\.insert\(entry\.pack\)", ct))
    data = bool(re.search(r"index\.get_data\(id\)", ct))
    sub = bool(re.search(r"index\.get_tree\(&id\)", ct))
    # check_repository: filters of read_data, snapshot names
    cr = fn_body(ck, "check_repository")
    f_missing = bool(re.search(r"\.filter\(\|p\|\s*!missing_packs\.contains_key\(&p\.id\)\)", cr))
    f_used = bool(re.search(r"\.filter\(\|p\|\s*packs\.contains\(&p\.id\)\)", cr))
    snapname = bool(re.search(r"hash\(&data\)\s*==\s*id", cr)) and "FileHashMismatch" in cr
    # check_pack: order of the tests
    cp = fn_body(ck, "check_pack")
    order = ["PackSizeMismatch", "PackHashMismatch", "PackHeaderLengthMismatch", "PackHeaderMismatchIndex",
             "PackBlobLengthMismatch", "PackBlobHashMismatch"]
    pos = [cp.find("CheckError::" + o + " ") if cp.find("CheckError::" + o + " ") >= 0 else cp.find("CheckError::" + o) for o in order]
    order_ok = all(p >= 0 for p in pos) and pos == sorted(pos)
    running = bool(re.search(r"data\.split_to\(\s*blob\.location\.length\s+as\s+usize\s*\)", cp))
    unwrap = bool(re.search(r"decode_all\(&\*blob_data\)\.unwrap\(\)", cp))
    # check_packs: offsets and types on the sorted blobs
    cpk = fn_body(ck, "check_packs")
    offs = bool(re.search(r"blobs\.sort_unstable\(\);", cpk)) and "PackBlobOffsetMismatch" in cpk and "PackBlobTypesMismatch" in cpk \
        and bool(re.search(r"expected_offset\s*\+=\s*blob\.location\.length", cpk))
    # which sections of an index file feed check's own lookup index, and restore's (GlobalIndex::new)
    ext = re.findall(r"index_collector\.extend\(([^;]*)\);", cpk)
    if len(ext) == 1 and re.fullmatch(r"index\.packs\.clone\(\)", ext[0].strip()):
        check_marked = False
    elif len(ext) == 1 and re.search(r"for\s*\(\s*(mut\s+)?p\s*,\s*to_delete\s*\)\s+in\s+index\.all_packs\(\)", cpk) \
            and re.fullmatch(r"Some\(p\)|\[p\]|std::iter::once\(p\)", ext[0].strip()):
        check_marked = True
    elif len(ext) == 1 and re.fullmatch(r"index\.all_packs\(\)\.map\(\|\(p,\s*_\)\|\s*p\)", ext[0].strip()):
        check_marked = True
    else:
        raise ExtractError("check_packs feeds its IndexCollector in an unrecognised way: %r" % ext)
    ix = read(repo, "crates/core/src/index.rs")
    nfc = fn_body(ix, "new_from_collector")
    rext = re.findall(r"collector\.extend\(([^;]*)\);", nfc)
    if len(rext) == 1 and re.fullmatch(r"index\?\.1\.packs", rext[0].strip()):
        restore_marked = False
    else:
        raise ExtractError("GlobalIndex::new_from_collector feeds its IndexCollector in an unrecognised way: %r" % rext)
    # an index file that cannot be read aborts check (`index?`) as it aborts GlobalIndex::new
    idx_abort = bool(re.search(r"let\s+index\s*=\s*index\?\.1\s*;", cpk))
    restore_abort = bool(re.search(r"index\?\.1", nfc))
    # ReadSubsetOption::IdSubSet((n, m)): pack selected iff id % m == n % m
    sub = fn_body(ck, "id_matches_n_m")
    e = "".join(sub.split())
    if e == "id.as_u32()%m==n%m":
        nm_reduces = True
    elif e == "id.as_u32()%m==n":
        nm_reduces = False
    else:
        raise ExtractError("id_matches_n_m has an unrecognised body: %r" % sub.strip())
    # read_data: every pack holding a copy of a blob of a used pack is read (fix of duplicate-blob-copy-unverified)
    reads_copies = bool(re.search(r"used_blobs\.contains\(&\(b\.tpe,\s*b\.id\)\)", cr)) and \
        bool(re.search(r"\.filter\(\|p\|\s*packs\.contains\(&p\.id\)\)\s*\.flat_map\(\|p\|\s*p\.blobs\.iter\(\)\.map\(\|b\|\s*\(b\.tpe,\s*b\.id\)\)\)", cr)) and \
        bool(re.search(r"packs\.contains\(&p\.id\)\s*\|\|\s*p\.blobs\.iter\(\)\.any\(", cr))
    if reads_copies:
        f_used = bool(re.search(r"\.filter\(is_used\)", cr))
    # ReadSubsetOption::apply_with_rng: budget, shuffle, retain while the pack fits
    ap = fn_body(ck, "apply_with_rng")
    m1 = re.search(r"if\s+size\s*(>=|>)\s*p_size\s*\{\s*size\s*=\s*size\.saturating_sub\(p_size\);\s*true\s*\}\s*else\s*\{\s*false\s*\}", ap)
    if not m1 or "packs.shuffle(rng)" not in ap:
        raise ExtractError("ReadSubsetOption::apply_with_rng: the shuffle/retain loop has an unrecognised shape")
    fits_exactly = m1.group(1) == ">="
    pct = bool(re.search(r"Self::Percentage\(p\)\s*=>\s*Some\(\(total_size\s+as\s+f64\s*\*\s*p\s*/\s*100\.0\)\s+as\s+u64\)", ap))
    szb = bool(re.search(r"Self::Size\(s\)\s*=>\s*Some\(s\)", ap))
    allb = bool(re.search(r"Self::All\s*=>\s*None", ap))
    idb = bool(re.search(r"Self::IdSubSet\(\(n,\s*m\)\)\s*=>\s*\{\s*packs\.retain\(\|p\|\s*id_matches_n_m\(&p\.id,\s*n,\s*m\)\);\s*None", ap))
    subset_shape = pct and szb and allb and idb
    # ---- the inputs check_repository is given (repository.rs) and the ones it fetches itself
    rp = read(repo, "crates/core/src/repository.rs")
    norm = lambda t: "".join(t.split())
    chk_entry = norm(fn_body(rp, "check"))
    covers_all = chk_entry == "lettrees=self.get_all_snapshots()?.into_iter().map(|snap|snap.tree).collect();check_repository(self,opts,trees)" \
        and norm(fn_body(rp, "get_all_snapshots")) == "self.get_matching_snapshots(|_|true)"
    if not covers_all and "check_repository(self,opts,trees)" not in chk_entry:
        raise ExtractError("Repository::check no longer hands `trees` to check_repository in a recognised way")
    with_trees = norm(fn_body(rp, "check_with_trees")) == "check_repository(self,opts,trees)"
    trees_walked = bool(re.search(r"check_trees\(repo,\s*be,\s*&index_be,\s*trees,\s*&collector\)", cr)) and \
        bool(re.search(r"TreeStreamerOnce::new\(be,\s*index,\s*snap_trees,\s*p\)", ct))
    all_index_files = bool(re.search(r"for\s+index\s+in\s+be\.stream_all::<IndexFile>\(&p\)\?", cpk)) and cpk.count("stream_all") == 1
    cpl = fn_body(ck, "check_packs_list")
    listing = bool(re.search(r"let\s+mut\s+packs_from_be\s*=\s*be\.list_with_size\(FileType::Pack\)\?;", cpl)) and \
        bool(re.search(r"check_packs_list\(be,\s*&mut\s+packs,\s*collector\)\?", cpk))
    # trust_cache only guards comparisons of cached files; nothing else depends on it
    tc_ok = True
    sites = [m.start() for m in re.finditer(r"opts\.trust_cache", ck)]
    tc_in_cr = [m.start() for m in re.finditer(r"opts\.trust_cache", cr)]
    if len(sites) != len(tc_in_cr) or len(sites) != 2:
        tc_ok = False
    for pos in tc_in_cr:
        m2 = re.compile(r"if\s*!opts\.trust_cache[^{]*\{").match(cr, cr.rfind("if", 0, pos))
        if not m2:
            tc_ok = False; continue
        end = match_brace(cr, m2.end() - 1)
        blk = cr[m2.end():end]
        if "check_cache_files(" not in blk or re.search(r"check_packs\(|check_trees\(|read_data|check_pack\(", blk):
            tc_ok = False
    read_data_gate = len(re.findall(r"if\s+opts\.read_data\s*\{", cr)) == 1 and len(re.findall(r"opts\.read_data(?!_)", ck)) == 1
    b = lambda x: "true" if x else "false"
    out = ["(* GENERATED by props/C05/extract.py from repofile/packfile.rs and commands/check.rs - do not edit *)",
           "From Coq Require Import NArith Bool.", "Local Open Scope N_scope.",
           "Definition x_entry_len : N := %d." % consts["ENTRY_LEN"],
           "Definition x_entry_len_compressed : N := %d." % consts["ENTRY_LEN_COMPRESSED"],
           "Definition x_comp_overhead : N := %d." % consts["COMP_OVERHEAD"],
           "Definition x_length_len : N := %d." % consts["LENGTH_LEN"],
           "(* check_trees: number of `packs.insert(entry.pack)` sites; which lookups feed them *)",
           "Definition x_pack_insert_sites : N := %d." % inserts,
           "Definition x_collects_root_packs : bool := %s." % b(roots),
           "Definition x_collects_data_packs : bool := %s." % b(data),
           "Definition x_collects_subtree_packs : bool := %s." % b(sub),
           "(* check_repository: read_data reads the indexed packs that are not missing and are in the set *)",
           "Definition x_filter_missing : bool := %s." % b(f_missing),
           "Definition x_filter_used : bool := %s." % b(f_used),
           "Definition x_snapshot_names_compared : bool := %s." % b(snapname),
           "(* Repository::check hands the root tree of EVERY snapshot file to check_repository (get_all_snapshots, no filter);",
           "   check_with_trees hands over exactly the trees it is given; check_repository walks exactly these trees *)",
           "Definition x_check_covers_all_snapshots : bool := %s." % b(covers_all),
           "Definition x_check_with_trees_passes_trees : bool := %s." % b(with_trees),
           "Definition x_given_trees_are_walked : bool := %s." % b(trees_walked),
           "(* check_packs streams every index file; the pack listing is the backend's; trust_cache only guards the",
           "   comparisons of cached files; read_data alone gates the reading of packs *)",
           "Definition x_check_reads_all_index_files : bool := %s." % b(all_index_files),
           "Definition x_pack_listing_from_backend : bool := %s." % b(listing),
           "Definition x_trust_cache_only_guards_cache : bool := %s." % b(tc_ok),
           "Definition x_read_data_gates_pack_reading : bool := %s." % b(read_data_gate),
           "(* read_data also reads every pack that holds a copy of a blob of a used pack *)",
           "Definition x_reads_all_copies : bool := %s." % b(reads_copies),
           "(* apply_with_rng: All = no budget, Percentage = total*p/100, Size = s, IdSubSet = retain by id; a pack is kept when it fits the remaining budget exactly (>=) or only strictly (>) *)",
           "Definition x_subset_shape : bool := %s." % b(subset_shape),
           "Definition x_subset_fits_exactly : bool := %s." % b(fits_exactly),
           "(* check_pack: size, hash, header length, header = index, then per blob length and hash; running offset; unwrap *)",
           "Definition x_check_pack_order : bool := %s." % b(order_ok),
           "Definition x_blob_loop_running_offset : bool := %s." % b(running),
           "Definition x_unzip_unwrap : bool := %s." % b(unwrap),
           "(* the in-memory index of check (check_packs) and of restore (GlobalIndex::new_from_collector): does it contain packs_to_delete? *)",
           "Definition x_check_index_includes_marked : bool := %s." % b(check_marked),
           "Definition x_restore_index_includes_marked : bool := %s." % b(restore_marked),
           "(* an unreadable index file aborts check with Err / aborts the construction of restore's index *)",
           "Definition x_unreadable_index_aborts_check : bool := %s." % b(idx_abort),
           "Definition x_unreadable_index_aborts_restore : bool := %s." % b(restore_abort),
           "(* IdSubSet((n, m)) selects a pack iff id % m == n % m (true) or id % m == n (false) *)",
           "Definition x_subset_reduces_n : bool := %s." % b(nm_reduces),
           "(* check_packs: types and contiguous offsets over the sorted blobs *)",
           "Definition x_offsets_checked_on_sorted : bool := %s." % b(offs), ""]
    meta = {"consts": consts, "pack_insert_sites": inserts, "roots": roots, "order_ok": order_ok,
            "check_index_includes_marked": check_marked, "unreadable_index_aborts_check": idx_abort, "subset_reduces_n": nm_reduces,
            "reads_all_copies": reads_copies, "check_covers_all_snapshots": covers_all, "subset_fits_exactly": fits_exactly}
    return "\n".join(out), meta
