(* C05 — extraction of the executable model (ExtrOcamlBasic only). *)
Require Extraction.
Require Import ExtrOcamlBasic.
From Coq Require Import ZArith.
From Verif.C05 Require Import Extracted Model.
(* the shared OCaml prelude (lib/prelude_zn.ml) mentions the constructors of Z *)
Definition c05_z_anchor : Z := Z0.
Extraction "model_ml.ml" check check_trees correct readable nodup_keys lookup fetched missing_packs rlookup restore_opens subset_selects c05_z_anchor.
