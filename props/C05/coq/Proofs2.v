(* C05 — proofs, part 2: the choice among equal index keys; which packs read_data must read. *)
From Verif.Base Require Import Tactics.
From Verif.C05 Require Import Model Proofs.
Local Open Scope N_scope.

Lemma fold_right_ext_in {A C} (f g : A -> C -> C) (a : C) (l : list A) :
  (forall x acc, In x l -> f x acc = g x acc) -> fold_right f a l = fold_right g a l.
Proof.
  induction l as [|x l IH]; intro H; simpl; [reflexivity|].
  rewrite IH by (intros; apply H; right; assumption). apply H. left. reflexivity.
Qed.

Lemma forallb_ext_all {A} (f g : A -> bool) l : (forall x, f x = g x) -> forallb f l = forallb g l.
Proof. intro H. induction l as [|x l IH]; simpl; [reflexivity|]. rewrite H, IH. reflexivity. Qed.

Lemma existsb_false_filter {A} (f : A -> bool) l : existsb f l = false -> filter f l = [].
Proof.
  induction l as [|x l IH]; simpl; intro H; [reflexivity|].
  apply orb_false_iff in H. destruct H as [Hx Hl]. rewrite Hx. auto.
Qed.

Section Proofs2.
  Variable B : Type.
  Variable hash : B -> id.
  Variable blen : B -> N.
  Variable parse : B -> option tree.
  Variable st : state B.

  Notation lookup := (lookup B st).
  Notation entries := (entries B st).
  Notation correct := (correct B hash blen parse st).
  Notation walk := (walk B blen parse st).

  Lemma correct_ext sel sel' : (forall t i, sel t i = sel' t i) ->
    forall fuel strict i, correct sel strict fuel i = correct sel' strict fuel i.
  Proof.
    intro H. induction fuel as [|f IH]; intros strict i; [reflexivity|].
    simpl. unfold fetch. rewrite H.
    destruct (sel' BTree i) as [[p b]|]; [|reflexivity].
    destruct (read_blob B blen st p b) as [d|]; [|reflexivity].
    destruct (parse d) as [t|]; [|reflexivity].
    apply fold_right_ext_in. intros n acc _. destruct acc as [ok|]; [|reflexivity].
    destruct n as [[c|]|[s|]|]; try reflexivity.
    - f_equal. f_equal. apply forallb_ext_all. intro ci. rewrite H. reflexivity.
    - rewrite IH. reflexivity.
  Qed.

  Lemma nodup_filter t i : forall l, nodup_keys_aux l = true ->
    (length (filter (key_match t i) l) <= 1)%nat.
  Proof.
    induction l as [|e r IH]; simpl; intro H; [lia|].
    apply andb_true_iff in H. destruct H as [H1 H2].
    destruct (key_match t i e) eqn:Ek; [|auto].
    simpl. assert (Hf : filter (key_match t i) r = []).
    { unfold key_match in Ek. apply andb_true_iff in Ek. destruct Ek as [Ek1 Ek2].
      apply btype_eqb_eq in Ek1. apply N.eqb_eq in Ek2. rewrite Ek1, Ek2 in H1.
      apply negb_true_iff in H1. apply existsb_false_filter. exact H1. }
    rewrite Hf. simpl. lia.
  Qed.

  (* with no duplicate keys the freshly built index of restore answers exactly like check's *)
  (* restore's index and check's index are built from the same sections of the index files
     (facts regenerated from index.rs and check.rs) *)
  Lemma rentries_eq : rentries B st = entries.
  Proof. reflexivity. Qed.

  Lemma nodup_sel sel : nodup_keys B st = true -> sel_valid B st sel ->
    forall t i, sel t i = lookup t i.
  Proof.
    intros Hn Hv t i. specialize (Hv t i). unfold Model.lookup.
    unfold nodup_keys in Hn. unfold rcandidates in Hv. rewrite rentries_eq in Hn, Hv.
    pose proof (nodup_filter t i entries Hn) as Hl. unfold candidates in *.
    destruct (sel t i) as [[p b]|].
    - destruct (filter (key_match t i) entries) as [|e r]; [contradiction|].
      destruct r; [|simpl in Hl; lia]. destruct Hv as [Hv|[]]. subst e. reflexivity.
    - rewrite Hv. reflexivity.
  Qed.

  (* without duplicate keys: no assumption on the hash at all *)
  Theorem check_clean_implies_restorable_nodup fuel sel :
    check B hash blen parse st fuel = Some [] ->
    nodup_keys B st = true -> sel_valid B st sel ->
    forall r, In r (st_roots st) -> correct sel true fuel r = Some true.
  Proof.
    intros Hc Hn Hv r Hr. rewrite (correct_ext sel lookup (nodup_sel sel Hn Hv)).
    apply check_clean_implies_restorable_lemma; assumption.
  Qed.

  Lemma sel_valid_ok sel : sel_valid B st sel -> sel_ok B st sel.
  Proof.
    intros Hv t i. specialize (Hv t i). unfold rcandidates in Hv. rewrite rentries_eq in Hv. exact Hv.
  Qed.

  (* with duplicate keys: every copy of every needed blob has been read and verified (read_data reads
     every pack holding a copy), so whichever copy restore's index answers with is right; two
     authentic copies of one tree are the same tree by collision-freedom *)
  Theorem check_clean_implies_restorable_sel fuel sel :
    (forall b b', hash b = hash b' -> b = b') ->
    check B hash blen parse st fuel = Some [] ->
    sel_valid B st sel ->
    forall r, In r (st_roots st) -> correct sel true fuel r = Some true.
  Proof.
    intros Hinj Hc Hv. apply check_clean_implies_restorable_gen; [apply sel_valid_ok, Hv| |exact Hc].
    intros i d d' _ _ H1 H2. apply Hinj. congruence.
  Qed.

  (* packs_to_read_sufficient: the walk found nothing ==> every index key restore fetches below a
     tree is answered by the index with a pack the walk collected (hence read by read_data) *)
  Lemma walk_covers : forall fuel i ps,
    walk fuel i = Some ([], ps) ->
    load_tree B blen parse st i <> None /\
    exists ks, fetched B blen parse st fuel i = Some ks /\
               forall t k, In (t, k) ks -> exists p b, lookup t k = Some (p, b) /\ In p ps.
  Proof.
    induction fuel as [|f IH]; intros i ps Hw; [discriminate|].
    simpl in Hw. simpl.
    destruct (load_tree B blen parse st i) as [t|] eqn:El; [|inversion Hw].
    split; [discriminate|]. clear El.
    revert ps Hw. induction t as [|n t IHt]; intros ps Hw.
    - exists []. split; [reflexivity|]. intros ? ? [].
    - simpl in Hw. simpl.
      match type of Hw with context [fold_right ?F ?A t] => destruct (fold_right F A t) as [[es ps']|] eqn:Ef end; [|discriminate].
      destruct n as [[c|]|[s|]|].
      + destruct (file_errs B st c) as [e1 p1] eqn:Efe. inversion Hw as [[H1 H2]]; clear Hw.
        apply app_eq_nil in H1. destruct H1 as [H1 H1']. subst e1 es.
        destruct (IHt ps' eq_refl) as [ks [Hk Hc]]. rewrite Hk.
        eexists. split; [reflexivity|]. intros ty k Hin. apply in_app_or in Hin. destruct Hin as [Hin|Hin].
        * apply in_map_iff in Hin. destruct Hin as [ci [Heq Hci]]. inversion Heq; subst ty k.
          destruct (file_errs_ok B st c p1 Efe ci Hci) as [q [b' [Hl Hq]]].
          exists q, b'. split; [assumption|apply in_or_app; left; assumption].
        * destruct (Hc ty k Hin) as [q [b' [Hl Hq]]]. exists q, b'. split; [assumption|apply in_or_app; right; assumption].
      + inversion Hw.
      + destruct (walk f s) as [[e2 p2]|] eqn:Ews; [|destruct (if s =? 0 then _ else _); discriminate].
        destruct (s =? 0) eqn:Es0; [inversion Hw|].
        destruct (lookup BTree s) as [[q bq]|] eqn:Els; [|inversion Hw].
        inversion Hw as [[H1 H2]]; clear Hw. simpl in H1. apply app_eq_nil in H1. destruct H1 as [H1 H1']. subst e2 es.
        destruct (IHt ps' eq_refl) as [ks [Hk Hc]]. rewrite Hk.
        destruct (IH s p2 Ews) as [_ [k2 [Hk2 Hc2]]]. rewrite Hk2.
        eexists. split; [reflexivity|]. intros ty k Hin. destruct Hin as [Heq|Hin].
        * inversion Heq; subst ty k. exists q, bq. split; [assumption|left; reflexivity].
        * apply in_app_or in Hin. destruct Hin as [Hin|Hin].
          -- destruct (Hc2 ty k Hin) as [q' [b' [Hl Hq]]]. exists q', b'. split; [assumption|].
             simpl. right. apply in_or_app. left. assumption.
          -- destruct (Hc ty k Hin) as [q' [b' [Hl Hq]]]. exists q', b'. split; [assumption|].
             simpl. right. apply in_or_app. right. assumption.
      + inversion Hw.
      + inversion Hw as [[H1 H2]]; subst. destruct (IHt ps eq_refl) as [ks [Hk Hc]]. rewrite Hk.
        exists ks. split; [reflexivity|assumption].
  Qed.

  Theorem packs_to_read_sufficient_lemma fuel used :
    check_trees B blen parse st fuel = Some ([], used) ->
    forall r, In r (st_roots st) ->
      (exists p b, lookup BTree r = Some (p, b) /\ In p used) /\
      exists ks, fetched B blen parse st fuel r = Some ks /\
                 forall t k, In (t, k) ks -> exists p b, lookup t k = Some (p, b) /\ In p used.
  Proof.
    intros Ht r Hr. destruct (check_trees_roots B blen parse st fuel used Ht r Hr) as [[ps [Hw Hi]] Hroot].
    destruct (walk_covers fuel r ps Hw) as [Hl [ks [Hk Hc]]]. split.
    - unfold load_tree in Hl. destruct (lookup BTree r) as [[p b]|] eqn:E; [|contradiction].
      exists p, b. split; [reflexivity|]. eapply Hroot; eauto.
    - exists ks. split; [assumption|]. intros t k Hin. destruct (Hc t k Hin) as [p [b [H1 H2]]].
      exists p, b. split; [assumption|apply Hi; assumption].
  Qed.

  (* and a clean check has read every one of those packs with check_pack finding nothing *)
  Theorem used_packs_verified_lemma fuel :
    check B hash blen parse st fuel = Some [] ->
    exists used, check_trees B blen parse st fuel = Some ([], used) /\
      forall pid, In pid used ->
        forall t b, In (t, pid, b) entries ->
          exists d, read_blob B blen st pid b = Some d /\ hash d = ib_id b.
  Proof.
    intro Hc. destruct (check_clean_verified B hash blen parse st fuel Hc) as [_ [used [H1 H2]]].
    exists used. split; [assumption|]. intros pid Hp. apply kverified_verified. apply H2, Hp.
  Qed.

  (* ... and every OTHER copy of each of their blobs, in whatever pack of the index, as well *)
  Theorem all_copies_verified_lemma fuel :
    check B hash blen parse st fuel = Some [] ->
    exists used, check_trees B blen parse st fuel = Some ([], used) /\
      forall pid, In pid used ->
        forall t b, In (t, pid, b) entries ->
          forall p' b', In (t, p', b') entries -> ib_id b' = ib_id b ->
            exists d, read_blob B blen st p' b' = Some d /\ hash d = ib_id b'.
  Proof.
    intro Hc. destruct (check_clean_verified B hash blen parse st fuel Hc) as [_ [used [H1 H2]]].
    exists used. split; [assumption|]. exact H2.
  Qed.

  (* "correctly" includes "completely": when every fetched content hashes to its id, every read
     restore performs below the tree succeeds *)
  Lemma correct_readable sel : forall fuel strict i,
    correct sel strict fuel i = Some true -> readable B blen parse st sel fuel i = Some true.
  Proof.
    induction fuel as [|f IH]; intros strict i H; [discriminate|].
    simpl in H. simpl.
    destruct (fetch B blen st sel BTree i) as [d|]; [|discriminate].
    destruct (parse d) as [t|]; [|discriminate].
    revert H. generalize (negb strict || (hash d =? i)). intros b0 H.
    assert (G : b0 = true /\
      fold_right (fun n acc =>
        match acc with
        | None => None
        | Some ok =>
          match n with
          | NOther => Some ok
          | NFile None => Some ok
          | NFile (Some c) =>
            Some (ok && forallb (fun ci => match fetch B blen st sel BData ci with Some _ => true | None => false end) c)
          | NDir None => Some false
          | NDir (Some s) => match readable B blen parse st sel f s with Some o => Some (ok && o) | None => None end
          end
        end) (Some true) t = Some true); [|apply G].
    revert H. induction t as [|n t IHt]; intro H.
    - simpl in H. injection H as H1. split; [assumption|reflexivity].
    - simpl in H. simpl.
      match type of H with context [fold_right ?F ?A t] => destruct (fold_right F A t) as [ok|] eqn:Ef end; [|discriminate].
      destruct n as [[c|]|[s|]|].
      + injection H as H1. apply andb_true_iff in H1. destruct H1 as [Hok Hc]. subst ok.
        destruct (IHt eq_refl) as [Hb Hr]. split; [exact Hb|]. rewrite Hr. simpl. f_equal.
        apply forallb_forall. intros ci Hci. rewrite forallb_forall in Hc. specialize (Hc ci Hci).
        destruct (fetch B blen st sel BData ci); [reflexivity|discriminate].
      + discriminate.
      + destruct (correct sel true f s) as [o|] eqn:Ec; [|discriminate].
        injection H as H1. apply andb_true_iff in H1. destruct H1 as [Hok Ho]. subst ok o.
        destruct (IHt eq_refl) as [Hb Hr]. split; [assumption|]. rewrite Hr.
        rewrite (IH true s Ec). reflexivity.
      + discriminate.
      + injection H as H1; subst ok. destruct (IHt eq_refl) as [Hb Hr]. split; [assumption|]. rewrite Hr. reflexivity.
  Qed.

  (* a snapshot file whose name is not the hash of its contents is always reported *)
  Lemma snap_name_reported fuel :
    st_snap_names_ok st = false -> check B hash blen parse st fuel <> Some [].
  Proof.
    intros Hs H. unfold check, check_with in H. destruct (negb (st_meta_ok st)); [discriminate|].
    destruct (negb (st_index_ok st) && Extracted.x_unreadable_index_aborts_check); [discriminate|].
    destruct (check_trees B blen parse st fuel) as [[et used]|]; [|discriminate].
    rewrite Hs in H. simpl in H. discriminate.
  Qed.

  (* a clean check means every index and snapshot file is readable, so restore can build its index *)
  Lemma clean_opens fuel :
    check B hash blen parse st fuel = Some [] ->
    st_meta_ok st = true /\ st_index_ok st = true /\ restore_opens B st = true.
  Proof.
    unfold check, check_with, restore_opens. destruct (st_meta_ok st); simpl; [|discriminate].
    destruct (st_index_ok st); simpl; [auto|].
    unfold Extracted.x_unreadable_index_aborts_check. discriminate.
  Qed.

  (* collision-freedom turns "hashes to its id" into "is the content that was stored under the id" *)
  Lemma hash_determines_content :
    (forall b b', hash b = hash b' -> b = b') ->
    forall (orig : id -> B) i d, hash (orig i) = i -> hash d = i -> d = orig i.
  Proof. intros Hinj orig i d H1 H2. apply Hinj. congruence. Qed.

End Proofs2.

(* the documented cycle IdSubSet((1,m)) .. IdSubSet((m,m)) reads every pack *)
Lemma nm_cycle_covers m pid : 0 < m -> exists n, 1 <= n <= m /\ subset_selects n m pid = true.
Proof.
  intro Hm. unfold subset_selects, Extracted.x_subset_reduces_n.
  destruct (pid mod m =? 0) eqn:E.
  - exists m. split; [lia|]. apply N.eqb_eq in E. rewrite N.mod_same by lia. apply N.eqb_eq. exact E.
  - exists (pid mod m). apply N.eqb_neq in E. pose proof (N.mod_upper_bound pid m ltac:(lia)).
    split; [lia|]. apply N.eqb_eq. rewrite N.mod_mod by lia. reflexivity.
Qed.
