(* C05 — concrete states: the hypotheses of the theorems are satisfiable (a clean two-level
   repository), check does report damage, and the two places where the full-strength statement
   fails in the faithful model (witnesses by vm_compute). Contents are numbers, hash = identity. *)
From Verif.Base Require Import Tactics.
From Verif.C05 Require Import Model.
Local Open Scope N_scope.

Definition xhash (b : N) : id := b.
Definition xblen (_ : N) : N := 10.
(* tree 1 = { dir -> 2, file [3] }, tree 2 = { file [3;4] }, tree 5 = { file [4] } *)
Definition xparse (b : N) : option tree :=
  if b =? 1 then Some [NDir (Some 2); NFile (Some [3])]
  else if b =? 2 then Some [NFile (Some [3; 4]); NOther]
  else if b =? 5 then Some [NFile (Some [4])]
  else None.

Definition b_root := mk_iblob BTree 1 0 30 (Some 10).
Definition b_sub  := mk_iblob BTree 2 0 40 (Some 10).
Definition b_d3   := mk_iblob BData 3 0 50 None.
Definition b_d4   := mk_iblob BData 4 50 60 (Some 10).

(* pack 100: only the root tree; pack 101: the subtree; pack 102: the two chunks *)
Definition pk100 (content : N) : spack N :=
  mk_spack 100 107 100 73 [mk_seg 0 30 (PBlob 997 (Some content)); mk_seg 30 73 (PHeader [b_root])].
Definition pk101 : spack N :=
  mk_spack 101 117 101 73 [mk_seg 0 40 (PBlob 998 (Some 2)); mk_seg 40 73 (PHeader [b_sub])].
Definition pk102 (d4_ok : bool) : spack N :=
  mk_spack 102 224 102 110
    ([mk_seg 0 50 (PBlob 3 None)] ++ (if d4_ok then [mk_seg 50 60 (PBlob 999 (Some 4))] else []) ++
     [mk_seg 110 110 (PHeader [b_d3; b_d4])]).
Definition ix : ifile :=
  mk_ifile [mk_ipack 100 [b_root] (Some 107) false; mk_ipack 101 [b_sub] (Some 117) false;
            mk_ipack 102 [b_d4; b_d3] None false] [].

Definition st_clean : state N := mk_state true true true [pk100 1; pk101; pk102 true] [ix] [1].
Definition st_blob_damaged : state N := mk_state true true true [pk100 1; pk101; pk102 false] [ix] [1].
(* the root-only pack now holds (authentic) tree 5 at the place the index gives for tree 1 *)
Definition st_root_replaced : state N := mk_state true true true [pk100 5; pk101; pk102 true] [ix] [1].
(* chunk 3 is stored twice (packs 102 and 103); the copy in 103 does not decrypt *)
Definition pk103 : spack N :=
  mk_spack 103 123 103 69 [mk_seg 50 69 (PHeader [b_d3])].
Definition ix_dup : ifile :=
  mk_ifile (if_packs ix ++ [mk_ipack 103 [b_d3] (Some 123) false]) [].
Definition st_dup : state N := mk_state true true true [pk100 1; pk101; pk102 true; pk103] [ix_dup] [1].
Definition sel_last (t : btype) (i : id) : option (id * iblob) :=
  match rev (rcandidates N st_dup t i) with [] => None | e :: _ => Some (snd (fst e), snd e) end.

(* after a non-instant prune with repacking: the old pack is only MARKED (packs_to_delete); if the
   entry of the repacked pack is lost, the marked copy must not make check clean, because restore's
   index does not contain marked packs *)
Definition ix_marked_only : ifile :=
  mk_ifile [mk_ipack 100 [b_root] (Some 107) false; mk_ipack 101 [b_sub] (Some 117) false]
           [mk_ipack 102 [b_d4; b_d3] None true].
Definition st_marked_only : state N := mk_state true true true [pk100 1; pk101; pk102 true] [ix_marked_only] [1].
(* an index file that lists nothing the snapshots need is unreadable *)
Definition st_index_unreadable : state N := mk_state true false true [pk100 1; pk101; pk102 true] [ix] [1].

Notation xcheck := (check N xhash xblen xparse).
Notation xcorrect := (correct N xhash xblen xparse).

Example clean_checks_clean : xcheck st_clean 5 = Some [] /\ nodup_keys N st_clean = true.
Proof. vm_compute. split; reflexivity. Qed.
Example clean_restores : xcorrect st_clean (lookup N st_clean) true 5 1 = Some true.
Proof. vm_compute. reflexivity. Qed.
Example clean_fetches :
  fetched N xblen xparse st_clean 5 1 = Some [(BTree, 2); (BData, 3); (BData, 4); (BData, 3)].
Proof. vm_compute. reflexivity. Qed.
Example clean_walk_collects : check_trees N xblen xparse st_clean 5 = Some ([], [100; 101; 102; 102; 102]).
Proof. vm_compute. reflexivity. Qed.
Example damaged_is_reported : xcheck st_blob_damaged 5 = Some [EBlobDecrypt].
Proof. vm_compute. reflexivity. Qed.
Example damaged_does_not_restore :
  readable N xblen xparse st_blob_damaged (lookup N st_blob_damaged) 5 1 = Some false.
Proof. vm_compute. reflexivity. Qed.

Example marked_copy_does_not_count :
  xcheck st_marked_only 5 = Some [EFileBlobNotInIndex; EFileBlobNotInIndex; EFileBlobNotInIndex] /\
  readable N xblen xparse st_marked_only (rlookup N st_marked_only) 5 1 = Some false.
Proof. vm_compute. split; reflexivity. Qed.
Example unreadable_index_is_reported :
  xcheck st_index_unreadable 5 = Some [EMeta] /\ restore_opens N st_index_unreadable = false.
Proof. vm_compute. split; reflexivity. Qed.

(* root trees: their pack is in the read set (since the fix), so an authentic tree of the same
   layout put in the root's place is reported by check_pack; the walk itself still does not compare
   the hash: with the tree walk alone (no read_data) the replacement goes through *)
Example root_replaced_is_reported :
  xcheck st_root_replaced 5 = Some [EBlobHash] /\
  check_trees N xblen xparse st_root_replaced 5 = Some ([], [100; 102]) /\
  xcorrect st_root_replaced (lookup N st_root_replaced) true 5 1 = Some false.
Proof. vm_compute. repeat split; reflexivity. Qed.

(* duplicate keys: restore may be answered with the copy check's own index does not answer with;
   since the fix read_data reads every pack holding a copy, so the damaged copy is reported
   (before the fix this state was the witness of `duplicate_keys_refuted`: check clean) *)
Example duplicate_witness :
  xcheck st_dup 5 = Some [EBlobDecrypt] /\ nodup_keys N st_dup = false /\
  (forall t i, match sel_last t i with
               | Some (p, b) => In (t, p, b) (rcandidates N st_dup t i)
               | None => rcandidates N st_dup t i = [] end) /\
  readable N xblen xparse st_dup sel_last 5 1 = Some false.
Proof.
  split; [vm_compute; reflexivity|]. split; [vm_compute; reflexivity|]. split; [|vm_compute; reflexivity].
  intros t i. unfold sel_last.
  destruct (rev (rcandidates N st_dup t i)) as [|e r] eqn:E.
  - apply (f_equal (@rev _)) in E. rewrite rev_involutive in E. exact E.
  - assert (H : In e (rcandidates N st_dup t i)) by (apply in_rev; rewrite E; left; reflexivity).
    pose proof H as H'. unfold rcandidates in H'. apply filter_In in H'. destruct H' as [_ Hk].
    unfold key_match in Hk. apply andb_true_iff in Hk. destruct Hk as [Hk _].
    destruct e as [[t' p] b]. simpl in *. destruct t', t; try discriminate; exact H.
Qed.

(* the packs check_trees collects do not contain pack 103 (check's index answers with 102 for chunk 3);
   it is read because it holds a copy of a blob of the collected pack 102 *)
Example duplicate_copy_pack_is_read :
  check_trees N xblen xparse st_dup 5 = Some ([], [100; 101; 102; 102; 102]) /\
  map ip_id (read_list N st_dup [100; 101; 102; 102; 102]) = [100; 101; 102; 103].
Proof. vm_compute. split; reflexivity. Qed.

(* read-data-subset: a partial read that is clean says nothing about restorability ... *)
Example partial_subset_clean_not_restorable :
  check_subset N xhash xblen xparse st_blob_damaged (SIdSubSet 1 3) (fun l => l) 5 = Some [] /\
  xcheck st_blob_damaged 5 = Some [EBlobDecrypt] /\
  readable N xblen xparse st_blob_damaged (lookup N st_blob_damaged) 5 1 = Some false.
Proof. vm_compute. repeat split; reflexivity. Qed.
(* ... while 100 % and a size covering everything read every pack, in any order *)
Example full_subsets_report :
  check_subset N xhash xblen xparse st_blob_damaged (SPercentage 100) (@rev _) 5 = Some [EBlobDecrypt] /\
  check_subset N xhash xblen xparse st_blob_damaged (SSize 448) (@rev _) 5 = Some [EBlobDecrypt] /\
  check_subset N xhash xblen xparse st_blob_damaged (SIdSubSet 3 3) (fun l => l) 5 = Some [EBlobDecrypt].
Proof. vm_compute. repeat split; reflexivity. Qed.

(* fuel: the walk needs one unit per tree level; more never changes the result *)
Example fuel_levels : xcheck st_clean 1 = None /\ xcheck st_clean 2 = Some [] /\ xcheck st_clean 9 = Some [].
Proof. vm_compute. repeat split; reflexivity. Qed.
