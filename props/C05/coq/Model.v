(* C05 — executable model of `check --read-data` and of the read path of restore/dump over an
   abstract repository state (crates/core/src/commands/check.rs, repofile/packfile.rs,
   repofile/indexfile.rs, index/binarysorted.rs, blob/tree.rs, backend/decrypt.rs).

   Abstraction (ideal AEAD, ideal zstd):  a stored pack file is described by its listed size, the
   hash of its stored bytes, its 4 trailing bytes read as LE32, and the list of byte ranges
   (offset, length) that AUTHENTICATE under the repository key together with what they decrypt to;
   every other range fails to decrypt.  A decrypted range is either a blob payload (seen raw, and
   seen through zstd: [None] = not a zstd frame) or a pack header (the entry list
   PackHeader::from_binary yields).  Contents are an abstract type [B] with an abstract [hash],
   length [blen] and JSON tree parser [parse]; all four are Section variables, universally
   quantified in every theorem.  Nothing relates a state to a history: the theorems hold for EVERY
   state, hence for every state reachable by any history followed by any damage.

   Definitions only; proofs are in Proofs.v. *)
From Verif.Base Require Import Tactics.
From Verif.C05 Require Import Extracted.   (* regenerated from the Rust source on every run *)
Local Open Scope N_scope.

Definition id := N.                       (* 0 = the null id *)
Inductive btype := BData | BTree.
Definition btype_eqb (a b : btype) : bool :=
  match a, b with BData, BData | BTree, BTree => true | _, _ => false end.

(* IndexBlob / pack header entry: type, id, BlobLocation (offset, length, uncompressed_length) *)
Record iblob := mk_iblob { ib_type : btype; ib_id : id; ib_off : N; ib_len : N; ib_ulen : option N }.
(* IndexPack: id, blobs, size (optional in the file format), whether `time` is set *)
Record ipack := mk_ipack { ip_id : id; ip_blobs : list iblob; ip_size : option N; ip_time : bool }.
(* IndexFile: packs, packs_to_delete *)
Record ifile := mk_ifile { if_packs : list ipack; if_del : list ipack }.

(* tree nodes as far as check and restore look at them *)
Inductive node :=
| NFile (content : option (list id))
| NDir (subtree : option id)
| NOther.
Definition tree := list node.

Definition opt_eqb (a b : option N) : bool :=
  match a, b with None, None => true | Some x, Some y => x =? y | _, _ => false end.
(* derived PartialEq of IndexBlob: all fields *)
Definition iblob_eqb (a b : iblob) : bool :=
  btype_eqb (ib_type a) (ib_type b) && (ib_id a =? ib_id b) && (ib_off a =? ib_off b)
  && (ib_len a =? ib_len b) && opt_eqb (ib_ulen a) (ib_ulen b).
Fixpoint list_eqb {A} (e : A -> A -> bool) (l m : list A) : bool :=
  match l, m with
  | [], [] => true
  | a :: l', b :: m' => e a b && list_eqb e l' m'
  | _, _ => false
  end.

(* Ord of IndexBlob = Ord of BlobLocation: (offset, length, uncompressed_length), None first *)
Definition opt_leb (a b : option N) : bool :=
  match a, b with None, _ => true | Some _, None => false | Some x, Some y => x <=? y end.
Definition loc_leb (a b : iblob) : bool :=
  if ib_off a <? ib_off b then true else if ib_off b <? ib_off a then false else
  if ib_len a <? ib_len b then true else if ib_len b <? ib_len a then false else
  opt_leb (ib_ulen a) (ib_ulen b).
(* `blobs.sort_unstable()` — any correct sort; the proofs use only that it is a permutation *)
Fixpoint insert_blob (b : iblob) (l : list iblob) : list iblob :=
  match l with
  | [] => [b]
  | x :: r => if loc_leb b x then b :: l else x :: insert_blob b r
  end.
Definition sort_blobs (l : list iblob) : list iblob := fold_right insert_blob [] l.

(* packfile.rs: ENTRY_LEN / ENTRY_LEN_COMPRESSED, COMP_OVERHEAD, LENGTH_LEN (values from Extracted.v) *)
Definition entry_len (b : iblob) : N :=
  match ib_ulen b with None => x_entry_len | Some _ => x_entry_len_compressed end.
Definition hdr_size (bs : list iblob) : N :=
  fold_left (fun acc b => acc + entry_len b) bs x_comp_overhead.
Definition computed_size (bs : list iblob) : N :=
  fold_left (fun acc b => acc + ib_len b + entry_len b) bs (x_comp_overhead + x_length_len).
(* IndexPack::pack_size / blob_type *)
Definition pack_size_of (p : ipack) : N :=
  match ip_size p with Some s => s | None => computed_size (ip_blobs p) end.
Definition ptype (p : ipack) : btype := match ip_blobs p with [] => BData | b :: _ => ib_type b end.

(* findings of check at level Error (warnings are not modelled: they never fail a check) *)
Inductive err :=
| EMeta            (* an index or snapshot file cannot be read: check returns Err *)
| ESnapName        (* FileHashMismatch: a snapshot file whose name is not the hash of its contents *)
| EPackTimeNotSet | EBlobTypes | EBlobOffset | EPackSizeIndex | ENoPack
| ETreeLoad        (* ErrorCheckingTrees: a tree is not in the index / does not decrypt / parse *)
| EFileNoContent | EFileBlobNull | EFileBlobNotInIndex | ENoSubTree | ENullSubTree | ESubTreeNotInIndex
| EReadPack | EPackSize | EPackHash | EHdrLen | EHdrDecrypt | EHdrMismatch
| EBlobDecrypt | EBlobUnzipPanic | EBlobLength | EBlobHash.

(* ReadSubsetOption::IdSubSet((n, m)): the pack whose id starts with the u32 [pid] is read iff ...
   (the comparison is regenerated from check.rs) *)
Definition subset_selects (n m pid : N) : bool :=
  (pid mod m) =? (if x_subset_reduces_n then n mod m else n).

(* --- ReadSubsetOption::apply_with_rng over the packs handed to read_data.  The IndexPacks come from
   the in-memory index (`size` unset), so `pack_size()` is computed from the blobs.  `shuffle` stands
   for `packs.shuffle(rng)`: any permutation.  Percentages are whole numbers here (the code computes
   `(total as f64 * p / 100.0) as u64`). --- *)
Inductive subset := SAll | SPercentage (p : N) | SSize (s : N) | SIdSubSet (n m : N).
Definition rsize (p : ipack) : N := computed_size (ip_blobs p).
Definition packs_total (l : list ipack) : N := fold_right (fun p a => rsize p + a) 0 l.
(* `packs.retain(|p| if size > p_size { size -= p_size; true } else { false })`; whether a pack that
   fits exactly is kept ([>=]) is regenerated from the source *)
Fixpoint retain_budget (exact : bool) (size : N) (l : list ipack) : list ipack :=
  match l with
  | [] => []
  | p :: r =>
    if (if exact then rsize p <=? size else rsize p <? size)
    then p :: retain_budget exact (size - rsize p) r
    else retain_budget exact size r
  end.
Definition apply_subset (o : subset) (shuffle : list ipack -> list ipack) (l : list ipack) : list ipack :=
  match o with
  | SAll => l
  | SIdSubSet n m => filter (fun p => subset_selects n m (ip_id p)) l
  | SPercentage pc => retain_budget x_subset_fits_exactly (packs_total l * pc / 100) (shuffle l)
  | SSize sz => retain_budget x_subset_fits_exactly sz (shuffle l)
  end.

Section Repo.
  Variable B : Type.
  Variable hash : B -> id.
  Variable blen : B -> N.
  Variable parse : B -> option tree.

  Inductive payload :=
  | PBlob (raw : B) (unz : option B)      (* decrypts; `raw` as is, `unz` = zstd::decode_all *)
  | PHeader (entries : list iblob).       (* decrypts to a pack header *)
  Record seg := mk_seg { sg_off : N; sg_len : N; sg_pl : payload }.
  Record spack := mk_spack {
    sp_id : id;           (* file name *)
    sp_size : N;          (* listed size = length of the stored bytes *)
    sp_hash : id;         (* hash of the stored bytes *)
    sp_trailer : N;       (* last four bytes as LE32 *)
    sp_segs : list seg }. (* the ranges that authenticate *)

  Record state := mk_state {
    st_meta_ok : bool;            (* every snapshot file decrypts and parses *)
    st_index_ok : bool;           (* every index file decrypts and parses *)
    st_snap_names_ok : bool;      (* the name of every snapshot file is the hash of its stored bytes *)
    st_packs : list spack;        (* listing of FileType::Pack *)
    st_index : list ifile;        (* the index files *)
    st_roots : list id }.         (* root tree of every snapshot file *)

  Variable st : state.

  Definition find_pack (p : id) : option spack := find (fun s => sp_id s =? p) (st_packs st).
  (* read_partial(offset, length) + decrypt *)
  Definition read_seg (sp : spack) (off len : N) : option payload :=
    match find (fun s => (sg_off s =? off) && (sg_len s =? len)) (sp_segs sp) with
    | Some s => Some (sg_pl s) | None => None end.
  (* DecryptReadBackend::read_encrypted_from_partial: decrypt, zstd when uncompressed_length is set,
     compare the length *)
  Definition decode (pl : payload) (ulen : option N) : option B :=
    match pl with
    | PHeader _ => None
    | PBlob raw unz =>
      match ulen with
      | None => Some raw
      | Some n => match unz with Some b => if blen b =? n then Some b else None | None => None end
      end
    end.
  Definition read_blob (p : id) (b : iblob) : option B :=
    match find_pack p with
    | None => None
    | Some sp => match read_seg sp (ib_off b) (ib_len b) with
                 | Some pl => decode pl (ib_ulen b) | None => None end
    end.

  (* --- the in-memory index: IndexCollector::extend(index.packs) for every index file; a pack and
     all its blobs are filed under the type of the pack's FIRST blob --- *)
  Definition entries_of_pack (p : ipack) : list (btype * id * iblob) :=
    map (fun b => (ptype p, ip_id p, b)) (ip_blobs p).
  (* CHECK's own lookup index (check_packs: `index_collector.extend(index.packs.clone())`): which
     sections of the index files it is fed with is regenerated from check.rs *)
  Definition index_packs : list ipack :=
    if x_check_index_includes_marked
    then flat_map (fun f => if_packs f ++ if_del f) (st_index st)
    else flat_map if_packs (st_index st).
  (* RESTORE's index (GlobalIndex::new_from_collector: `collector.extend(index?.1.packs)`),
     regenerated from index.rs *)
  Definition restore_packs : list ipack :=
    if x_restore_index_includes_marked
    then flat_map (fun f => if_packs f ++ if_del f) (st_index st)
    else flat_map if_packs (st_index st).
  Definition all_packs : list (ipack * bool) :=
    flat_map (fun f => map (fun p => (p, false)) (if_packs f) ++ map (fun p => (p, true)) (if_del f))
             (st_index st).
  Definition entries : list (btype * id * iblob) := flat_map entries_of_pack index_packs.
  Definition key_match (t : btype) (i : id) (e : btype * id * iblob) : bool :=
    btype_eqb (fst (fst e)) t && (ib_id (snd e) =? i).
  Definition candidates (t : btype) (i : id) : list (btype * id * iblob) :=
    filter (key_match t i) entries.
  Definition rentries : list (btype * id * iblob) := flat_map entries_of_pack restore_packs.
  Definition rcandidates (t : btype) (i : id) : list (btype * id * iblob) :=
    filter (key_match t i) rentries.
  (* restore's index answering with the first entry in file order (one admissible selector) *)
  Definition rlookup (t : btype) (i : id) : option (id * iblob) :=
    match rcandidates t i with [] => None | e :: _ => Some (snd (fst e), snd e) end.
  (* binary search over entries sorted unstably by id: some entry with the key; the model takes the
     first in file order, the theorems quantify over the choice (see [selector]) *)
  Definition lookup (t : btype) (i : id) : option (id * iblob) :=
    match candidates t i with [] => None | e :: _ => Some (snd (fst e), snd e) end.

  (* --- check_packs --- *)
  Fixpoint offsets_errs (pt : btype) (expected : N) (l : list iblob) : list err :=
    match l with
    | [] => []
    | b :: r =>
      (if btype_eqb (ib_type b) pt then [] else [EBlobTypes]) ++
      (if ib_off b =? expected then [] else [EBlobOffset]) ++
      offsets_errs pt (expected + ib_len b) r
    end.
  Definition index_pack_errs (pd : ipack * bool) : list err :=
    let (p, del) := pd in
    (if del && negb (ip_time p) then [EPackTimeNotSet] else []) ++
    offsets_errs (ptype p) 0 (sort_blobs (ip_blobs p)).
  (* `packs.insert(p.id, (pack_size, to_delete))`: the last occurrence wins *)
  Definition index_size_of (p : id) : option N :=
    match find (fun pd => ip_id (fst pd) =? p) (rev all_packs) with
    | Some pd => Some (pack_size_of (fst pd)) | None => None end.
  Definition listed (p : id) : bool := existsb (fun s => sp_id s =? p) (st_packs st).
  (* check_packs_list: listed and indexed with another size = error; indexed and not listed = error
     and the pack is remembered as missing; listed and not indexed = warning *)
  Definition list_errs : list err :=
    flat_map (fun s => match index_size_of (sp_id s) with
                       | Some n => if n =? sp_size s then [] else [EPackSizeIndex]
                       | None => [] end) (st_packs st).
  Definition missing_packs : list id :=
    filter (fun p => negb (listed p)) (map (fun pd => ip_id (fst pd)) all_packs).
  Definition check_packs : list err :=
    flat_map index_pack_errs all_packs ++ list_errs ++ map (fun _ => ENoPack) missing_packs.

  (* --- check_trees: TreeStreamerOnce from every snapshot root.  Tree::from_backend = index lookup,
     read, decrypt, (unzip), JSON parse — no hash comparison.  The streamer's `visited` set only
     suppresses repeated work (a tree id is read through the same index entry every time), so the
     model walks without it and takes fuel for the depth; [None] = fuel exhausted. --- *)
  Definition load_tree (i : id) : option tree :=
    match lookup BTree i with
    | None => None
    | Some (p, b) => match read_blob p b with Some d => parse d | None => None end
    end.

  Definition file_errs (c : list id) : list err * list id :=
    fold_right (fun i acc =>
      let '(es, ps) := acc in
      let e0 := if i =? 0 then [EFileBlobNull] else [] in
      match lookup BData i with
      | None => (e0 ++ EFileBlobNotInIndex :: es, ps)
      | Some (p, _) => (e0 ++ es, p :: ps)
      end) ([], []) c.

  Fixpoint walk (fuel : nat) (i : id) : option (list err * list id) :=
    match fuel with
    | O => None
    | S f =>
      match load_tree i with
      | None => Some ([ETreeLoad], [])
      | Some t =>
        fold_right (fun n acc =>
          match acc with
          | None => None
          | Some (es, ps) =>
            match n with
            | NOther => Some (es, ps)
            | NFile None => Some (EFileNoContent :: es, ps)
            | NFile (Some c) => let '(e1, p1) := file_errs c in Some (e1 ++ es, p1 ++ ps)
            | NDir None => Some (ENoSubTree :: es, ps)
            | NDir (Some s) =>
              (* the node check ... *)
              let '(e1, p1) :=
                if s =? 0 then ([ENullSubTree], [])
                else match lookup BTree s with
                     | None => ([ESubTreeNotInIndex], [])
                     | Some (p, _) => ([], [p]) end in
              (* ... and the streamer queues every `subtree` for loading *)
              match walk f s with
              | None => None
              | Some (e2, p2) => Some (e1 ++ e2 ++ es, p1 ++ p2 ++ ps)
              end
            end
          end) (Some ([], [])) t
      end
    end.

  (* the trees check_repository is handed: Repository::check takes the root of EVERY snapshot file
     (get_all_snapshots; regenerated from repository.rs); were snapshots filtered, the model could
     not know which, so it would walk none *)
  Definition checked_roots : list id := if x_check_covers_all_snapshots then st_roots st else [].
  Definition walk_roots (fuel : nat) : option (list err * list id) :=
    fold_right (fun r acc =>
      match acc, walk fuel r with
      | Some (es, ps), Some (e1, p1) => Some (e1 ++ es, p1 ++ ps)
      | _, _ => None end) (Some ([], [])) checked_roots.
  (* the packs holding the snapshots' root trees are put into the set first (fix of the finding
     "root-tree-pack-replaced-same-layout": before it, root-only tree packs were never read) *)
  Definition root_packs : list id :=
    flat_map (fun r => match lookup BTree r with Some (p, _) => [p] | None => [] end) checked_roots.
  Definition check_trees (fuel : nat) : option (list err * list id) :=
    match walk_roots fuel with
    | Some (es, ps) => Some (es, root_packs ++ ps)
    | None => None
    end.

  (* --- check_pack: the IndexPack handed over is rebuilt from the in-memory index
     (`into_index().into_iter()`): id and blobs only, every blob carrying the type the pack was
     filed under, `size` unset --- *)
  Definition retype (t : btype) (b : iblob) : iblob :=
    mk_iblob t (ib_id b) (ib_off b) (ib_len b) (ib_ulen b).
  Definition rebuilt_blobs (p : ipack) : list iblob := map (retype (ptype p)) (ip_blobs p).

  (* the blob loop: `data.split_to(length)` reads at the RUNNING offset, not at blob.offset *)
  Fixpoint blob_errs (sp : spack) (off : N) (l : list iblob) : list err :=
    match l with
    | [] => []
    | b :: r =>
      match read_seg sp off (ib_len b) with
      | Some (PBlob raw unz) =>
        match ib_ulen b with
        | None => (if hash raw =? ib_id b then [] else [EBlobHash]) ++ blob_errs sp (off + ib_len b) r
        | Some n =>
          match unz with
          | None => [EBlobUnzipPanic]                       (* decode_all(..).unwrap() *)
          | Some d => (if blen d =? n then [] else [EBlobLength]) ++
                      (if hash d =? ib_id b then [] else [EBlobHash]) ++
                      blob_errs sp (off + ib_len b) r
          end
        end
      | _ => [EBlobDecrypt]                                 (* `?` leaves the loop *)
      end
    end.

  Definition check_pack (p : ipack) : list err :=
    match find_pack (ip_id p) with
    | None => [EReadPack]
    | Some sp =>
      let blobs := rebuilt_blobs p in
      if negb (sp_size sp =? computed_size blobs) then [EPackSize] else
      if negb (sp_hash sp =? ip_id p) then [EPackHash] else
      let hl := hdr_size blobs in
      if negb (sp_trailer sp =? hl) then [EHdrLen] else
      match read_seg sp (sp_size sp - x_length_len - hl) hl with
      | Some (PHeader hs) =>
        let sorted := sort_blobs blobs in
        if list_eqb iblob_eqb hs sorted then blob_errs sp 0 sorted else [EHdrMismatch]
      | _ => [EHdrDecrypt]
      end
    end.

  Definition mem_id (x : id) (l : list id) : bool := existsb (N.eqb x) l.

  (* read_data: of the packs of check's index those that are not missing and are "used": collected
     by check_trees, or (since the fix of duplicate-blob-copy-unverified; fact regenerated from the
     source) holding a copy of a blob of a collected pack — any copy may be the one restore's own
     index answers with *)
  Definition pack_keys (p : ipack) : list (btype * id) := map (fun b => (ptype p, ib_id b)) (ip_blobs p).
  Definition key_eqb (a b : btype * id) : bool := btype_eqb (fst a) (fst b) && (snd a =? snd b).
  Definition used_keys (used : list id) : list (btype * id) :=
    flat_map (fun p => if mem_id (ip_id p) used then pack_keys p else []) index_packs.
  Definition is_read (used : list id) (p : ipack) : bool :=
    mem_id (ip_id p) used ||
    (x_reads_all_copies && existsb (fun k => existsb (key_eqb k) (used_keys used)) (pack_keys p)).
  Definition read_list (used : list id) : list ipack :=
    filter (fun p => negb (mem_id (ip_id p) missing_packs) && is_read used p) index_packs.

  (* check_repository with read_data = true, no cache, no hot store; [sub] = the read-data-subset
     selection applied to the packs to read *)
  Definition check_with (sub : list ipack -> list ipack) (fuel : nat) : option (list err) :=
    if negb (st_meta_ok st) then Some [EMeta] else
    (* `let index = index?.1;` in check_packs: an unreadable index file makes check return Err *)
    if negb (st_index_ok st) && x_unreadable_index_aborts_check then Some [EMeta] else
    match check_trees fuel with
    | None => None
    | Some (et, used) =>
      Some ((if st_snap_names_ok st then [] else [ESnapName]) ++ check_packs ++ et ++
            flat_map check_pack (sub (read_list used)))
    end.
  (* read_data_subset = All *)
  Definition check (fuel : nat) : option (list err) := check_with (fun l => l) fuel.
  Definition check_subset (o : subset) (shuffle : list ipack -> list ipack) (fuel : nat) : option (list err) :=
    check_with (apply_subset o shuffle) fuel.

  (* --- restore / dump: every tree and every file chunk is fetched through an index built afresh
     (same files, order of equal keys unspecified): [sel] is that index' answer --- *)
  Definition selector := btype -> id -> option (id * iblob).
  Definition fetch (sel : selector) (t : btype) (i : id) : option B :=
    match sel t i with Some (p, b) => read_blob p b | None => None end.
  Definition sel_valid (sel : selector) : Prop :=
    forall t i, match sel t i with
                | Some (p, b) => In (t, p, b) (rcandidates t i)
                | None => rcandidates t i = [] end.
  (* GlobalIndex::new aborts on an index file it cannot read: then nothing restores *)
  Definition restore_opens : bool := st_index_ok st || negb x_unreadable_index_aborts_restore.

  (* executable: everything restore reads below tree [i] is readable (dump/restore do not compare
     hashes); [Some true] = all read, [Some false] = some read fails, [None] = fuel exhausted *)
  Fixpoint readable (sel : selector) (fuel : nat) (i : id) : option bool :=
    match fuel with
    | O => None
    | S f =>
      match fetch sel BTree i with
      | None => Some false
      | Some d =>
        match parse d with
        | None => Some false
        | Some t =>
          fold_right (fun n acc =>
            match acc with
            | None => None
            | Some ok =>
              match n with
              | NOther => Some ok
              | NFile None => Some ok
              | NFile (Some c) =>
                Some (ok && forallb (fun ci => match fetch sel BData ci with Some _ => true | None => false end) c)
              | NDir None => Some false
              | NDir (Some s) => match readable sel f s with Some o => Some (ok && o) | None => None end
              end
            end) (Some true) t
        end
      end
    end.

  (* executable: additionally every fetched content hashes to the id it was fetched for (this is
     what "restores correctly" means on a state without a history); [root] trees are exempt from the
     hash comparison when [strict_root = false] *)
  Fixpoint correct (sel : selector) (strict_root : bool) (fuel : nat) (i : id) : option bool :=
    match fuel with
    | O => None
    | S f =>
      match fetch sel BTree i with
      | None => Some false
      | Some d =>
        match parse d with
        | None => Some false
        | Some t =>
          fold_right (fun n acc =>
            match acc with
            | None => None
            | Some ok =>
              match n with
              | NOther => Some ok
              | NFile None => Some false
              | NFile (Some c) =>
                Some (ok && forallb (fun ci => match fetch sel BData ci with
                                               | Some b => hash b =? ci | None => false end) c)
              | NDir None => Some false
              | NDir (Some s) => match correct sel true f s with Some o => Some (ok && o) | None => None end
              end
            end) (Some ((negb strict_root) || (hash d =? i))) t
        end
      end
    end.

  (* the index keys restore fetches below tree [i] ([i] itself excluded) *)
  Fixpoint fetched (fuel : nat) (i : id) : option (list (btype * id)) :=
    match fuel with
    | O => None
    | S f =>
      match load_tree i with
      | None => Some []
      | Some t =>
        fold_right (fun n acc =>
          match acc with
          | None => None
          | Some ks =>
            match n with
            | NFile (Some c) => Some (map (pair BData) c ++ ks)
            | NDir (Some s) =>
              match fetched f s with None => None | Some k2 => Some ((BTree, s) :: k2 ++ ks) end
            | _ => Some ks
            end
          end) (Some []) t
      end
    end.

  (* the index has no two entries with one (type, id) — then every selector is [lookup] *)
  Fixpoint nodup_keys_aux (l : list (btype * id * iblob)) : bool :=
    match l with
    | [] => true
    | e :: r => negb (existsb (key_match (fst (fst e)) (ib_id (snd e))) r) && nodup_keys_aux r
    end.
  Definition nodup_keys : bool := nodup_keys_aux rentries.

End Repo.

Arguments PBlob {B}. Arguments PHeader {B}.
Arguments mk_seg {B}. Arguments sg_off {B}. Arguments sg_len {B}. Arguments sg_pl {B}.
Arguments mk_spack {B}. Arguments sp_id {B}. Arguments sp_size {B}. Arguments sp_hash {B}.
Arguments sp_trailer {B}. Arguments sp_segs {B}.
Arguments mk_state {B}. Arguments st_meta_ok {B}. Arguments st_index_ok {B}. Arguments st_snap_names_ok {B}. Arguments st_packs {B}. Arguments st_index {B}.
Arguments st_roots {B}.
